"""C02 - encoding any valid table content and decoding it returns that content.

Bounded exhaustive exploration.  Every unit owns a *generator of valid in-memory content* (a
shape/run grammar whose atoms are the branch constants of the encoder under test), compiles it
with the real `compile`, reads it back with the real `decompile` (object equality after the
normalisation the table documents) AND with an independent reader (`oracles/c02_readers.py`,
struct only, written from the OpenType specification) and, where HarfBuzz implements the
table, through HarfBuzz on a font assembled around the compiled bytes.

Content the binary format cannot hold (a delta beyond int16, an unencodable name string...)
is outside the domain: such cases are counted (`counters`), never flagged.
"""
from mc import env  # noqa: F401
from mc.kernel import Unit

import itertools
import math
import struct
from fractions import Fraction

from fontTools.ttLib import TTFont, newTable
from fontTools.ttLib.tables._c_m_a_p import CmapSubtable

from oracles import c02_readers as R
from oracles import hbridge, geom, tinyfont

LEVEL = "exploration"
ASSUMPTIONS = [
    "atoms are the boundary values named in each unit rule; other values of the same class are assumed to behave alike",
    "HarfBuzz 12 (uharfbuzz) and the struct-only readers in oracles/c02_readers.py are the independent readers; cmap format 2 and 'post'/'OS/2'/'name' have no HarfBuzz check",
    "content the binary format cannot represent (int16 delta overflow, F2Dot14 2.0, unencodable strings, > 0xFFFF kern pairs) is outside the domain and only counted",
    "tables without a generator (AAT, bitmap, Graphite, CFF, GSUB/GPOS rule lookups beyond SingleSubst/SinglePos) are not covered here (C01/C03/C06/C11)",
]

# ---------------------------------------------------------------------------------------------
# shared fixtures (built once in the parent, inherited by the forked workers)
_FIX = {}


def bigfont():
    """A TTFont that only carries a glyph order of 65535 names g0..g65534."""
    f = _FIX.get("bigfont")
    if f is None:
        f = TTFont()
        f.setGlyphOrder(["g%d" % i for i in range(65535)])
        f.getReverseGlyphMap()
        _FIX["bigfont"] = f
    return f


def base_tables():
    """Tables of a small FontBuilder font (sfnt parsed by the independent reader)."""
    t = _FIX.get("base")
    if t is None:
        t = R.sfnt_tables(tinyfont.build_bytes({"kind": "ttf"}))
        _FIX["base"] = t
    return t


def gname(g):
    return "g%d" % g


def otround(x):
    """OpenType rounding written independently: floor(x + 1/2) in exact arithmetic."""
    return math.floor(Fraction(x) + Fraction(1, 2))


# =============================================================================================
# cmap
# =============================================================================================
CMAP_KINDS = ("gap", "consec", "scatter", "same")
CMAP_LENS = (1, 2, 4, 5, 8, 9)
CMAP_ANCHORS = (0x20, 0xFF, 0xFFF0, 0x10000 - 4)
CMAP_GIDBASES = (1, 0x7FF0, 0xFF00)
SCATTER = (5, 2, 9, 0, 7, 3, 11, 1, 8)


def cmap_build(anchor, gidbase, runs):
    code, g, m = anchor, gidbase, {}
    for kind, n in runs:
        if kind == "gap":
            code += n
            continue
        for i in range(n):
            if kind == "consec":
                m[code + i] = g + i
            elif kind == "scatter":
                m[code + i] = g + SCATTER[i]
            else:
                m[code + i] = g
        g += {"consec": n + 1, "scatter": 13, "same": 2}[kind]
        code += n
    return m


def cmap_formats_for(m):
    """Formats in which the map {code: gid} is expressible, per the format definitions."""
    if not m:
        return [4, 6, 12, 13, 0, 2]
    mx = max(m)
    fmts = [12, 13]
    if mx <= 0xFFFF:
        fmts.append(4)
        if mx - min(m) + 1 <= (0xFFFF - 10) // 2:
            fmts.append(6)  # the uint16 length field bounds the dense array
        one = {c for c in m if c < 256}
        leads = {c >> 8 for c in m if c >= 256}
        if not (one & leads):
            fmts.append(2)
    if mx <= 255 and max(m.values()) <= 255:
        fmts.append(0)
    return fmts


# (platformID, platEncID, language) used for each format inside the combined table
CMAP_SLOT = {4: (3, 1, 0), 6: (1, 0, 5), 12: (3, 10, 0), 13: (0, 6, 0), 0: (1, 0, 6), 2: (3, 3, 0)}


def _subtable(fmt, key, cmapdict):
    s = CmapSubtable.newSubtable(fmt)
    s.platformID, s.platEncID, s.language = key
    s.cmap = cmapdict
    return s


class CmapUnit(Unit):
    name = "cmap"
    rule = ("code->glyph maps = sequences of <=3 (quick) / <=4 (thorough) runs, run=(kind in gap/consecutive gids/scattered gids/"
            "all-same gid, length in {1,2,4,5,8,9}) x start code in {0x20,0xFF,0xFFF0,0xFFFC} x first gid in {1,0x7FF0,0xFF00} "
            "(idDelta wrap both ways), through every format in which the map is expressible (4,6,12,13,0,2) inside one cmap "
            "table (shared dict for two format-4 records), + boundary families (empty map, glyph 0 explicit, 0xFFFF mapped, "
            "format 2 one-/two-byte mixes, 65535/65536/65537 groups in format 12/13); oracle: decompile == map minus "
            ".notdef entries, struct reader enumerates exactly the same mapping and obeys the spec's ordering constraints, "
            "HarfBuzz nominal glyph agrees on every mapped code and its neighbours; distinct = each (map, format set)")
    required_witnesses = (
        "fmt4 idDelta segment", "fmt4 glyphIdArray segment", "fmt4 idDelta >= 0x8000 (gid < code)", "fmt4 idDelta < 0x8000 (gid > code)",
        "fmt4 code 0xFFFF mapped", "fmt12 several groups", "fmt13 many-to-one group", "fmt6", "fmt0", "fmt2 two-byte range",
        "fmt2 one-byte codes", "supplementary-plane code", "glyph 0 mapped explicitly", "map straddles 0xFFFF/0x10000",
        ">= 65536 groups", "shared subtable offset",
    )
    chunk = 150

    def setup(self, tier, seed):
        bigfont()
        base_tables()

    def bounds(self, tier, seed):
        return {"max_runs": 3 if tier == "quick" else 4, "lengths": CMAP_LENS, "anchors": CMAP_ANCHORS, "gid_bases": CMAP_GIDBASES}

    def cases(self, tier, seed):
        for sp in CMAP_SPECIALS:
            yield ["special", sp]
        maxruns = 3 if tier == "quick" else 4
        atoms = [(k, n) for k in CMAP_KINDS for n in CMAP_LENS]
        for n in range(1, maxruns + 1):
            for spec in itertools.product(atoms, repeat=n):
                if spec[-1][0] == "gap":
                    continue  # a trailing gap adds nothing
                if any(a[0] == "gap" and b[0] == "gap" for a, b in zip(spec, spec[1:])):
                    continue  # two gaps in a row = one gap of another length
                for anchor in CMAP_ANCHORS:
                    # all first-gid bases up to 2 runs; beyond that gid 1 plus one seed-named base
                    # (quick, 3 runs) / one seed-named base (thorough, 4 runs)
                    alt = CMAP_GIDBASES[1 + seed % 2]
                    bases = CMAP_GIDBASES if n <= 2 or (n == 3 and tier != "quick") else (1, alt) if n == 3 else (CMAP_GIDBASES[seed % 3],)
                    for gb in bases:
                        yield ["runs", anchor, gb, [list(a) for a in spec]]

    def expand_case(self, case):
        if case[0] == "runs":
            return cmap_build(case[1], case[2], case[3])
        return cmap_special(case[1])

    def check(self, case, rec):
        m = self.expand_case(case)
        big = len(m) > 5000
        fmts = cmap_formats_for(m)
        if case[0] == "special" and case[1].startswith("big"):
            fmts = [12] if "12" in case[1] else [13]
        font = bigfont()
        names = {c: gname(g) for c, g in m.items()}
        expected = {c: g for c, g in m.items() if g != 0}
        if len(expected) != len(m):
            rec.witness("glyph 0 mapped explicitly")
        if m and max(m) > 0xFFFF:
            rec.witness("supplementary-plane code")
            if min(m) <= 0xFFFF:
                rec.witness("map straddles 0xFFFF/0x10000")
        rec.nontrivial(key=["cmap", sorted(m.items()) if not big else case, fmts])

        # ---- one table holding every expressible format -------------------------------
        subs = []
        for fmt in fmts:
            subs.append(_subtable(fmt, CMAP_SLOT[fmt], dict(names)))
        if 4 in fmts:
            # a second record that shares the *same dict object* (the compiler must emit one copy)
            s4 = [s for s in subs if s.format == 4][0]
            subs.append(_subtable(4, (0, 3, 0), s4.cmap))
        table = newTable("cmap")
        table.tableVersion = 0
        table.tables = list(subs)
        try:
            data = table.compile(font)
        except Exception:
            data = None
        if data is None:
            # attribute the failure to the format(s) that cannot be compiled, check the others
            for s in subs:
                t1 = newTable("cmap")
                t1.tableVersion = 0
                t1.tables = [s]
                try:
                    d1 = t1.compile(font)
                except Exception as e:
                    rec.violation("cmap%d:compile-raises:%s:%s" % (s.format, type(e).__name__, cmap_shape(m, s.format)),
                                  "format %d compile raised %s: %s (map of %d codes)" % (s.format, type(e).__name__, e, len(m)))
                    continue
                self.check_table(d1, [s], m, expected, rec, big)
            return
        self.check_table(data, subs, m, expected, rec, big)

    # -------------------------------------------------------------------------------------
    def check_table(self, data, subs, m, expected, rec, big):
        font = bigfont()
        want_names = {c: gname(g) for c, g in expected.items()}
        # (1) the real decompiler
        t2 = newTable("cmap")
        t2.decompile(data, font)
        got = {(s.platformID, s.platEncID, s.language): s for s in t2.tables}
        if t2.tableVersion != 0 or len(t2.tables) != len(subs):
            rec.violation("cmap:table-header", "version %r, %d subtables for %d" % (t2.tableVersion, len(t2.tables), len(subs)))
        # (2) the independent reader
        try:
            ver, recs = R.cmap_directory(data)
        except R.ReadError as e:
            rec.violation("cmap:reader:directory", str(e))
            return
        if [(p, e) for p, e, _o in recs] != sorted((p, e) for p, e, _o in recs):
            rec.violation("cmap:records-unsorted", "encoding records not sorted by platform/encoding: %r" % (recs,))
        if len(recs) != len(subs):
            rec.violation("cmap:reader:count", "%d encoding records for %d subtables" % (len(recs), len(subs)))
        offs = {}
        for p, e, o in recs:
            offs.setdefault((p, e), []).append(o)
        probes = None
        for s in subs:
            key = (s.platformID, s.platEncID, s.language)
            fmt = s.format
            d = got.get(key)
            if d is None:
                rec.violation("cmap%d:decompile:missing-subtable" % fmt, "no subtable %r after decompile" % (key,))
            else:
                if d.format != fmt:
                    rec.violation("cmap%d:decompile:format" % fmt, "format became %r" % d.format)
                if d.cmap != want_names:
                    rec.violation("cmap%d:decompile:%s" % (fmt, cmap_shape(m, fmt)), "decompile(compile(map)) differs: %s" % dict_diff(want_names, d.cmap),
                                  observed=sorted(d.cmap.items())[:40], expected=sorted(want_names.items())[:40])
            olist = offs.get((s.platformID, s.platEncID), [])
            st = None
            for o in olist:
                try:
                    cand = R.cmap_subtable_bytes(data, o)
                except R.ReadError as e:
                    rec.violation("cmap%d:reader:subtable" % fmt, str(e))
                    continue
                if R.u16(cand, 0) == fmt and R.cmap_language(cand) == s.language:
                    st = cand
            if st is None:
                rec.violation("cmap%d:reader:not-found" % fmt, "no format %d / language %d subtable at record %r" % (fmt, s.language, key))
                continue
            try:
                ent = R.cmap_entries(st)
            except R.ReadError as e:
                rec.violation("cmap%d:reader:%s" % (fmt, cmap_shape(m, fmt)), "independent reader cannot enumerate: %s" % e)
                continue
            if ent != expected:
                rec.violation("cmap%d:reader:%s" % (fmt, cmap_shape(m, fmt)), "independent reader sees another mapping: %s" % dict_diff(expected, ent),
                              observed=sorted(ent.items())[:40], expected=sorted(expected.items())[:40])
            for err in R.cmap_structure_errors(st):
                rec.violation("cmap%d:structure:%s" % (fmt, cmap_shape(m, fmt)), "encoded subtable breaks a spec constraint: %s" % err)
            if probes is None:
                probes = cmap_probes(m)
            if not big:
                for c in probes:
                    try:
                        g = R.cmap_lookup(st, c)
                    except R.ReadError as e:
                        rec.violation("cmap%d:reader-lookup:%s" % (fmt, cmap_shape(m, fmt)), "lookup(%#x): %s" % (c, e))
                        break
                    if g != expected.get(c, 0):
                        rec.violation("cmap%d:reader-lookup:%s" % (fmt, cmap_shape(m, fmt)), "lookup(%#x) = %d, expected %d" % (c, g, expected.get(c, 0)))
                        break
            self.witness_bytes(fmt, st, m, rec)
            # (3) HarfBuzz on a font whose cmap holds only this subtable
            if fmt != 2:
                one = struct.pack(">HHHHL", 0, 1, 3, 10, 12) + st
                tabs = dict(base_tables())
                tabs["cmap"] = one
                hb = hbridge.HBFont(R.sfnt_build(tabs))
                for c in (probes if not big else list(probes)[:2000]):
                    g = hb.nominal(c) or 0
                    if g != expected.get(c, 0):
                        rec.violation("cmap%d:harfbuzz:%s" % (fmt, cmap_shape(m, fmt)), "HarfBuzz maps %#x to %d, expected %d" % (c, g, expected.get(c, 0)))
                        break
        if len(set(o for _p, _e, o in recs)) < len(recs):
            rec.witness("shared subtable offset")

    def witness_bytes(self, fmt, st, m, rec):
        if fmt == 4:
            segx2 = R.u16(st, 6)
            seg = segx2 // 2
            for i in range(seg - 1):
                delta = R.u16(st, 16 + 2 * segx2 + 2 * i)
                ro = R.u16(st, 16 + 3 * segx2 + 2 * i)
                if ro:
                    rec.witness("fmt4 glyphIdArray segment")
                else:
                    rec.witness("fmt4 idDelta segment")
                    rec.witness("fmt4 idDelta >= 0x8000 (gid < code)" if delta >= 0x8000 else "fmt4 idDelta < 0x8000 (gid > code)")
            if m.get(0xFFFF):
                rec.witness("fmt4 code 0xFFFF mapped")
        elif fmt in (12, 13):
            n = R.u32(st, 12)
            if fmt == 12 and n > 1:
                rec.witness("fmt12 several groups")
            if n >= 65536:
                rec.witness(">= 65536 groups")
            if fmt == 13:
                for k in range(min(n, 50)):
                    if R.u32(st, 16 + 12 * k + 4) > R.u32(st, 16 + 12 * k):
                        rec.witness("fmt13 many-to-one group")
                        break
        elif fmt == 6:
            rec.witness("fmt6")
        elif fmt == 0:
            rec.witness("fmt0")
        elif fmt == 2:
            if any(c >= 256 for c, g in m.items() if g):
                rec.witness("fmt2 two-byte range")
            if any(c < 256 for c, g in m.items() if g):
                rec.witness("fmt2 one-byte codes")


def cmap_shape(m, fmt):
    """Stable class key of a map (no concrete values): which boundary features it has."""
    if not m:
        return "empty-map"
    tags = []
    if fmt == 2:
        one = any(c < 256 for c in m)
        two = any(c >= 256 for c in m)
        tags.append("only-one-byte-codes" if one and not two else "only-two-byte-codes" if two and not one else "mixed-bytes")
        if max(m.values()) > 0x7FFF:
            tags.append("gid>0x7FFF")
    if fmt == 4 and 0xFFFF in m:
        tags.append("0xFFFF-mapped")
    if 0 in m.values():
        tags.append("gid0")
    if len(m) >= 60000:
        tags.append("huge")
    return "+".join(tags) or "plain"


def dict_diff(exp, got, n=4):
    miss = sorted(k for k in exp if k not in got)
    extra = sorted(k for k in got if k not in exp)
    diff = sorted(k for k in exp if k in got and exp[k] != got[k])
    def sh(keys, d1=None, d2=None):
        out = []
        for k in keys[:n]:
            ks = "%#x" % k if isinstance(k, int) else repr(k)
            if d1 is not None and d2 is not None:
                out.append("%s:%r->%r" % (ks, d1[k], d2[k]))
            else:
                out.append(ks)
        return "[" + ", ".join(out) + ("..." if len(keys) > n else "") + "]"
    return "missing %d %s, extra %d %s, changed %d %s" % (len(miss), sh(miss), len(extra), sh(extra), len(diff), sh(diff, exp, got))


def cmap_probes(m):
    s = set(m)
    for c in list(m):
        s.add(c - 1)
        s.add(c + 1)
    s.update((0, 0x1F, 0xFF, 0x100, 0xFFFE, 0xFFFF, 0x10000, 0x10FFFF))
    return sorted(c for c in s if 0 <= c <= 0x10FFFF)


def cmap_special(name):
    if name == "empty":
        return {}
    if name == "gid0-only":
        return {0x41: 0}
    if name == "gid0-first":
        return {0x41: 0, 0x42: 3}
    if name == "gid0-inside-consec":
        return {0x41: 3, 0x42: 4, 0x43: 0, 0x44: 6, 0x45: 7}
    if name == "gid0-inside-scatter":
        return {0x41: 9, 0x42: 0, 0x43: 5, 0x44: 20}
    if name == "gid0-astral":
        return {0x1F600: 0, 0x1F601: 8}
    if name == "ffff-alone":
        return {0xFFFF: 7}
    if name == "ffff-consec":
        return {0xFFFD: 5, 0xFFFE: 6, 0xFFFF: 7}
    if name == "ffff-scatter":
        return {0xFFFD: 9, 0xFFFE: 2, 0xFFFF: 7}
    if name == "ffff-gid0":
        return {0xFFFE: 4, 0xFFFF: 0}
    if name == "ffff-wrap":
        return {0xFFFF: 0xFFFE, 0x20: 0xFFFD}
    if name == "code0":
        return {0: 5, 1: 6, 2: 9}
    if name == "byte-full":
        return {c: 255 - c if c != 255 else 7 for c in range(256)}
    if name == "fmt2-one-byte":
        return {0x41: 5, 0x42: 9}
    if name == "fmt2-two-byte":
        return {0x8140: 5, 0x8141: 9, 0x81FF: 300}
    if name == "fmt2-mixed":
        return {0x41: 5, 0x42: 6, 0x8140: 9, 0x8141: 40000, 0x9F40: 12, 0x9F42: 13}
    if name == "fmt2-shared-subarray":
        # two lead bytes whose second-byte ranges map to identical glyph arrays after idDelta
        return {0x8140: 10, 0x8141: 11, 0x8240: 10, 0x8241: 11, 0x8340: 50, 0x8341: 51}
    if name == "fmt2-high-gid":
        return {0x20: 0x9000, 0x21: 0x9005, 0x8140: 0xFFFE, 0x8142: 0x8000}
    if name == "fmt2-full-lead":
        return {0x8100 + i: 1 + (i * 7) % 300 for i in range(256)}
    if name == "dense-bmp-step":
        return {c: 1 + (c % 5) for c in range(0x3000, 0x3400)}
    if name == "big13-one-group":
        return {0x20 + i: 5 for i in range(70000)}
    if name.startswith("big12-"):
        n = int(name.split("-")[1])
        return {0x20 + i: 1 + (i % 2) * 2 for i in range(n)}
    if name.startswith("big13-"):
        n = int(name.split("-")[1])
        return {0x20 + i: 1 + (i % 2) for i in range(n)}
    raise KeyError(name)


CMAP_SPECIALS = [
    "empty", "gid0-only", "gid0-first", "gid0-inside-consec", "gid0-inside-scatter", "gid0-astral", "ffff-alone", "ffff-consec",
    "ffff-scatter", "ffff-gid0", "ffff-wrap", "code0", "byte-full", "fmt2-one-byte", "fmt2-two-byte", "fmt2-mixed",
    "fmt2-shared-subarray", "fmt2-high-gid", "fmt2-full-lead", "dense-bmp-step",
    "big12-65535", "big12-65536", "big12-65537", "big13-65535", "big13-65536", "big13-65537", "big13-one-group",
]


# ---------------------------------------------------------------------------------------------
# cmap format 14 (Unicode variation sequences)
UVS_SELECTORS = (0xFE00, 0xFE0F, 0xE0100)
UVS_DEFAULT_SHAPES = (
    (), ((0, 1),), ((0, 2),), ((0, 255),), ((0, 256),), ((0, 257),), ((0, 513),),
    ((0, 2), (1, 2)), ((0, 256), (1, 1)), ((0, 1), (1, 256)), ((0, 2), (0, 3)),
)  # runs as (gap before, length); gap 0 merges with the previous run
UVS_ANCHORS = (0x4E00, 0xFFFE, 0x2F800)
UVS_NONDEFAULT = ((), ((0x41, 7),), ((0x3A9, 300), (0x3AA, 2), (0x1F600, 65534)), ((0x4DFF, 9), (0xFFFF, 3)))


def uvs_default_codes(anchor, shape):
    out, c = [], anchor
    for gap, n in shape:
        c += gap
        out.extend(range(c, c + n))
        c += n
    return out


class Cmap14Unit(Unit):
    name = "cmap14"
    rule = ("format 14 tables over 1..2 selectors from {U+FE00,U+FE0F,U+E0100}; per selector default-UVS code sets built from runs "
            "(lengths 1,2,255,256,257,513 around the uint8 additionalCount limit, adjacent / separated runs, anchors U+4E00, U+FFFE "
            "(crosses into plane 1), U+2F800) x non-default sets {none, 1 BMP, 3 incl. astral & gid 65534, 2 next to the default "
            "range}; oracle: decompile gives the same (uv, glyph|None) set per selector, the struct reader lists the same default "
            "code points / non-default glyphs in sorted records, HarfBuzz get_variation_glyph agrees at every range edge; "
            "distinct = each uvsDict")
    required_witnesses = ("default UVS", "non-default UVS", "both in one selector", "two selectors", "default range of 256", "default run > 256 in input", "astral base")
    chunk = 40

    def setup(self, tier, seed):
        bigfont()
        base_tables()

    def cases(self, tier, seed):
        states = []
        for anchor in UVS_ANCHORS:
            for di, shape in enumerate(UVS_DEFAULT_SHAPES):
                for ni in range(len(UVS_NONDEFAULT)):
                    if not shape and ni == 0:
                        continue
                    if not shape and anchor != UVS_ANCHORS[0]:
                        continue
                    if set(uvs_default_codes(anchor, shape)) & set(dict(UVS_NONDEFAULT[ni])):
                        continue  # a base cannot be default and non-default for one selector
                    states.append([anchor, di, ni])
        for sel in UVS_SELECTORS:
            for st in states:
                yield [[sel] + st]
        small = [s for s in states if s[1] in (0, 2, 4, 5) and s[2] in (0, 2)]
        if tier == "quick":
            small = [s for s in small if s[0] == UVS_ANCHORS[seed % 3] or s[1] == 0]
        for a, b in itertools.combinations(UVS_SELECTORS, 2):
            for st1 in states:
                for st2 in small:
                    yield [[a] + st1, [b] + st2]

    def check(self, case, rec):
        font = bigfont()
        uvs = {}
        exp_def, exp_non = {}, {}
        for sel, anchor, di, ni in case:
            d = uvs_default_codes(anchor, UVS_DEFAULT_SHAPES[di])
            n = dict(UVS_NONDEFAULT[ni])
            # listed out of order on purpose: the compiler has to sort
            lst = [(uv, gname(g)) for uv, g in sorted(n.items(), reverse=True)] + [(uv, None) for uv in reversed(d)]
            uvs[sel] = lst
            exp_def[sel], exp_non[sel] = sorted(d), n
            if d:
                rec.witness("default UVS")
            if n:
                rec.witness("non-default UVS")
            if d and n:
                rec.witness("both in one selector")
            if any(c > 0xFFFF for c in d) or any(c > 0xFFFF for c in n):
                rec.witness("astral base")
        if len(case) == 2:
            rec.witness("two selectors")
        rec.nontrivial()
        s = CmapSubtable.newSubtable(14)
        s.platformID, s.platEncID, s.language = 0, 5, 0xFF
        s.cmap = {}
        s.uvsDict = {k: list(v) for k, v in uvs.items()}
        t = newTable("cmap")
        t.tableVersion = 0
        t.tables = [s]
        shape = "default-run>256" if any(n > 256 for c in case for _g, n in merged_runs(UVS_DEFAULT_SHAPES[c[2]])) else "plain"
        if shape != "plain":
            rec.witness("default run > 256 in input")
        try:
            data = t.compile(font)
        except Exception as e:
            rec.violation("cmap14:compile-raises:%s:%s" % (type(e).__name__, shape), "format 14 compile raised %s: %s" % (type(e).__name__, e))
            return
        t2 = newTable("cmap")
        t2.decompile(data, font)
        got = t2.tables[0].uvsDict
        norm = lambda lst: sorted(lst, key=lambda it: (it[0], it[1] or ""))
        if {k: norm(v) for k, v in got.items()} != {k: norm(v) for k, v in uvs.items()}:
            rec.violation("cmap14:decompile:" + shape, "uvsDict differs after decompile(compile())",
                          observed={k: norm(v)[:6] for k, v in got.items()}, expected={k: norm(v)[:6] for k, v in uvs.items()})
        try:
            _v, recs = R.cmap_directory(data)
            st = R.cmap_subtable_bytes(data, recs[0][2])
            rd = R.cmap14(st)
        except R.ReadError as e:
            rec.violation("cmap14:reader:" + shape, "independent reader: %s" % e)
            return
        if sorted(rd) != sorted(uvs):
            rec.violation("cmap14:reader:selectors", "selectors %r, expected %r" % (sorted(rd), sorted(uvs)))
            return
        for sel in uvs:
            d, n = rd[sel]
            if d != exp_def[sel]:
                rec.violation("cmap14:reader-default:" + shape, "default UVS of %#x: %d codes (first %s), expected %d" % (sel, len(d), d[:3], len(exp_def[sel])))
            if n != exp_non[sel]:
                rec.violation("cmap14:reader-nondefault:" + shape, "non-default UVS of %#x: %r expected %r" % (sel, n, exp_non[sel]))
        # encoded default ranges: witnesses
        n14 = R.u32(st, 6)
        for i in range(n14):
            doff = R.u32(st, 10 + 11 * i + 3)
            if doff:
                for k in range(R.u32(st, doff)):
                    if R.u8(st, doff + 4 + 4 * k + 3) == 255:
                        rec.witness("default range of 256")
        # HarfBuzz: format 14 next to a hand-made format 12 giving every probe the nominal glyph 1
        probes = set()
        for sel in uvs:
            for c in exp_def[sel][:1] + exp_def[sel][-1:] + list(exp_non[sel]):
                probes.update((c - 1, c, c + 1))
            for gap_edge in edges(exp_def[sel]):
                probes.update((gap_edge - 1, gap_edge, gap_edge + 1))
        probes = sorted(p for p in probes if p >= 0)
        groups = b"".join(struct.pack(">LLL", c, c, 1) for c in probes)
        f12 = struct.pack(">HHLLL", 12, 0, 16 + len(groups), 0, len(probes)) + groups
        cm = struct.pack(">HHHHLHHL", 0, 2, 0, 5, 20, 3, 10, 20 + len(st)) + st + f12
        tabs = dict(base_tables())
        tabs["cmap"] = cm
        hb = hbridge.HBFont(R.sfnt_build(tabs))
        for sel in uvs:
            ds = set(exp_def[sel])
            for c in probes:
                want = exp_non[sel].get(c, 1 if c in ds else 0)
                g = hb.font.get_variation_glyph(c, sel) or 0
                if g != want:
                    rec.violation("cmap14:harfbuzz:" + shape, "HarfBuzz variation glyph (%#x, %#x) = %d, expected %d" % (c, sel, g, want))
                    break


def merged_runs(shape):
    out = []
    for gap, n in shape:
        if out and gap == 0:
            out[-1] = (out[-1][0], out[-1][1] + n)
        else:
            out.append((gap, n))
    return out


def edges(codes):
    """first/last code of every maximal run in a sorted code list"""
    out = []
    for i, c in enumerate(codes):
        if i == 0 or codes[i - 1] != c - 1:
            out.append(c)
        if i == len(codes) - 1 or codes[i + 1] != c + 1:
            out.append(c)
    return out


# =============================================================================================
# hmtx / vmtx
# =============================================================================================
MTX_ADV = (0, 1, 500, 65535)
MTX_SB = (-32768, -1, 0, 32767)
MTX_FLOATS = (0.5, 1.5, 2.5, -0.5, 499.5, 500.49, 65534.5)
MTX_TABLES = {"hmtx": ("hhea", "numberOfHMetrics"), "vmtx": ("vhea", "numberOfVMetrics")}


def _mtx_font(tag, with_header, n):
    key = ("mtx", tag, with_header, n)
    f = _FIX.get(key)
    if f is None:
        f = TTFont()
        f.setGlyphOrder([gname(i) for i in range(n)])
        f["maxp"] = newTable("maxp")
        f["maxp"].numGlyphs = n
        if with_header:
            f[MTX_TABLES[tag][0]] = newTable(MTX_TABLES[tag][0])
        _FIX[key] = f
    return f


class MetricsUnit(Unit):
    name = "metrics"
    rule = ("hmtx and vmtx, with and without their header table: every advance array of length <=4 (quick) / <=5 (thorough) over "
            "{0,1,500,65535} x every side-bearing array over {-32768,-1,0,32767} (all trailing-equal-run lengths 0..5), + arrays "
            "holding floats around .5; oracle: decompile (with the numberOfHMetrics that compile stored) == the rounded input, "
            "struct reader recovers the same (advance, sb) for every glyph from exactly 4*k+2*(n-k) bytes with 1<=k<=n, HarfBuzz "
            "h_advance agrees; distinct = each (table, header?, advances, side bearings)")
    required_witnesses = ("long metrics trimmed", "all advances equal -> one long metric", "no trimming possible", "no header table",
                          "advance 65535", "side bearing -32768", "float rounded half up", "vmtx")
    chunk = 8

    def setup(self, tier, seed):
        base_tables()

    def bounds(self, tier, seed):
        return {"max_glyphs": 4 if tier == "quick" else 5, "advances": MTX_ADV, "side_bearings": MTX_SB, "floats": MTX_FLOATS}

    def cases(self, tier, seed):
        nmax = 4 if tier == "quick" else 5
        for n in range(1, nmax + 1):
            for tag in ("hmtx", "vmtx"):
                for hdr in (True, False):
                    for adv in itertools.product(MTX_ADV, repeat=n):
                        yield [tag, hdr, list(adv), "int"]
        for tag in ("hmtx", "vmtx"):
            for a in MTX_FLOATS:
                yield [tag, True, [a, 500, 500], "float"]

    def check(self, case, rec):
        tag, hdr, adv, kind = case
        n = len(adv)
        font = _mtx_font(tag, hdr, n)
        names = font.getGlyphOrder()
        if kind == "float":
            sbs = [(b, 0, c) for b in MTX_FLOATS[:-1] + (-1.5, -32767.5) for c in (0, 7.5)]
            sbs += [(0, a2, 0) for a2 in MTX_FLOATS]  # second pass: float in the advance of glyph 1
        else:
            sbs = itertools.product(MTX_SB, repeat=n)
        count = 0
        for sb in sbs:
            count += 1
            advs = list(adv)
            if kind == "float" and sb[1] != 0:
                advs = [adv[0], sb[1], sb[1]]
                sb = (1, 2, 3)
            self.one(tag, hdr, font, names, advs, list(sb), rec)
        rec.evals(count - 1)
        rec.nontrivial_n(count)

    def one(self, tag, hdr, font, names, adv, sb, rec):
        n = len(adv)
        hname, cname = MTX_TABLES[tag]
        t = newTable(tag)
        t.metrics = {names[i]: (adv[i], sb[i]) for i in range(n)}
        if hdr:
            setattr(font[hname], cname, 0xFFFF)  # stale value: compile has to overwrite it
        case = [tag, hdr, adv, sb]
        try:
            data = t.compile(font)
        except Exception as e:
            rec.violation("%s:compile-raises:%s" % (tag, type(e).__name__), "compile raised %s: %s" % (type(e).__name__, e), case=[tag, hdr, adv, "one", sb])
            return
        exp = [(otround(adv[i]), otround(sb[i])) for i in range(n)]
        if any(isinstance(v, float) for v in adv + sb):
            rec.witness("float rounded half up")
        k = getattr(font[hname], cname) if hdr else n
        t2 = newTable(tag)
        t2.decompile(data, font)
        got = [tuple(t2.metrics.get(names[i], ())) for i in range(n)]
        cls = mtx_class(adv, hdr)
        if got != exp or len(t2.metrics) != n:
            rec.violation("%s:decompile:%s" % (tag, cls), "decompile(compile()) = %r, expected %r (k=%r)" % (got, exp, k), case=[tag, hdr, adv, "one", sb])
        try:
            rd = R.hmtx(data, n, k)
        except R.ReadError as e:
            rec.violation("%s:reader:%s" % (tag, cls), "independent reader: %s (numberOfMetrics=%r)" % (e, k), case=[tag, hdr, adv, "one", sb])
            return
        if rd != exp:
            rec.violation("%s:reader:%s" % (tag, cls), "independent reader sees %r, expected %r (numberOfMetrics=%r)" % (rd, exp, k), case=[tag, hdr, adv, "one", sb])
        # witnesses (from the input shape and the stored count)
        if not hdr:
            rec.witness("no header table")
        elif k < n:
            rec.witness("long metrics trimmed")
            if k == 1:
                rec.witness("all advances equal -> one long metric")
        elif n > 1:
            rec.witness("no trimming possible")
        if 65535 in adv:
            rec.witness("advance 65535")
        if -32768 in sb:
            rec.witness("side bearing -32768")
        if tag == "vmtx":
            rec.witness("vmtx")
            return
        # HarfBuzz
        base = base_tables()
        hhea = bytearray(base["hhea"])
        hhea[34:36] = struct.pack(">H", k)
        maxp = bytearray(base["maxp"])
        maxp[4:6] = struct.pack(">H", n)
        hb = hbridge.HBFont(R.sfnt_build({"head": base["head"], "hhea": bytes(hhea), "maxp": bytes(maxp), "hmtx": data}))
        # HarfBuzz scales advances through an int16 (hb_font_t::em_scale_x): compare modulo 2^16
        hadv = [hb.h_advance(g) & 0xFFFF for g in range(n)]
        if hadv != [e[0] for e in exp]:
            rec.violation("hmtx:harfbuzz:%s" % cls, "HarfBuzz advances %r, expected %r" % (hadv, [e[0] for e in exp]), case=[tag, hdr, adv, "one", sb])


def mtx_class(adv, hdr):
    n = len(adv)
    run = 1
    while run < n and adv[n - 1 - run] == adv[n - 1]:
        run += 1
    return "%s:n=%d:trailing-run=%d" % ("hdr" if hdr else "nohdr", n, run)


# =============================================================================================
# glyf / loca
# =============================================================================================
import io

from fontTools.fontBuilder import FontBuilder
from fontTools.ttLib.tables import _g_l_y_f as G
from fontTools.ttLib.tables import ttProgram

GL_DELTAS = (0, 1, -1, 255, -255, 256, -256, 1000, -1000)
GL_EXTREME = (-32768, -1, 0, 32767)
GL_RUN_LENS = (1, 2, 3, 256, 257, 258)
# flag classes: every point of a run compiles to the same flag byte
GL_RUN_CLASSES = (
    (1, (1, 0), (1, 0)),        # on, x short positive, y unchanged
    (1, (0, 2), (0, 2)),        # on, x unchanged, y short positive
    (0, (1, 1), (1, 1)),        # off, both short positive
    (1, (300, 300), (-300, -300)),  # on, both int16 (alternating sign keeps the outline in range)
    (1, (0, 0), (0, 0)),        # on, repeated point
    (0, (-1, 1), (-1, 1)),      # off, x short negative
)
GL_INSTR = (b"", b"\xb0\x00", b"\x4f" * 255, b"\x4f" * 256)
F2 = (-2.0, -1.0, 0.5, 1.0, 32767 / 16384)  # F2Dot14 edge values
GL_OFFS = (-129, -128, 0, 127, 128)
ON, OVERLAP, CUBIC = 1, 0x40, 0x80


def _mixed(idx, radices):
    out = []
    for r in radices:
        out.append(idx % r)
        idx //= r
    return out


def gl_family_size(fam, tier):
    if fam.startswith("deltas"):
        n = int(fam[6:])
        return 9 ** n * 2 * 2 ** n * 2
    if fam == "contours":
        return sum(2 ** (n - 1) * 3 ** n * 3 for n in range(1, 5))
    if fam.startswith("runs"):
        n = int(fam[4:])
        return 36 ** n
    if fam == "extreme":
        return 2 * sum(4 ** n for n in range(1, 4))
    if fam == "instr":
        return len(GL_INSTR) * 3
    raise KeyError(fam)


def gl_simple(fam, idx):
    """-> (points [(x,y,flag)], endPts, instructions) of item idx of a simple-glyph family."""
    if fam.startswith("deltas"):
        n = int(fam[6:])
        d = _mixed(idx, [9] * n + [2] + [2] * n + [2])
        ix, shift, onoff, ov = d[:n], d[n], d[n + 1:2 * n + 1], d[2 * n + 1]
        pts, x, y = [], 0, 0
        for i in range(n):
            x += GL_DELTAS[ix[i]]
            y += GL_DELTAS[(2 * ix[i] + 4 * shift + i) % 9]
            pts.append((x, y, onoff[i] | (OVERLAP if ov and i == 0 else 0)))
        return pts, [n - 1], b""
    if fam == "contours":
        for n in range(1, 5):
            size = 2 ** (n - 1) * 3 ** n * 3
            if idx < size:
                break
            idx -= size
        d = _mixed(idx, [2 ** (n - 1), 3 ** n, 3])
        cuts, kinds, dv = d
        ends = [i for i in range(n - 1) if cuts >> i & 1] + [n - 1]
        ks = _mixed(kinds, [3] * n)
        vec = ((7, 3), (255, -256), (-1000, 1))[dv]
        pts = []
        for i in range(n):
            fl = (ON, 0, CUBIC)[ks[i]]
            pts.append((vec[0] * (i + 1) * (-1) ** i, vec[1] * (i // 2 + 1), fl))
        return pts, ends, b""
    if fam.startswith("runs"):
        n = int(fam[4:])
        d = _mixed(idx, [36] * n)
        pts, x, y, k = [], 0, 0, 0
        for a in d:
            on, d0, d1 = GL_RUN_CLASSES[a // 6]
            for _ in range(GL_RUN_LENS[a % 6]):
                dx, dy = d0 if k % 2 == 0 else d1
                x += dx
                y += dy
                pts.append((x, y, on))
                k += 1
        return pts, [len(pts) - 1], b""
    if fam == "extreme":
        axis = idx % 2
        idx //= 2
        for n in range(1, 4):
            if idx < 4 ** n:
                break
            idx -= 4 ** n
        vals = [GL_EXTREME[v] for v in _mixed(idx, [4] * n)]
        pts = [((v, 10 * i, 1) if axis == 0 else (10 * i, v, i % 2)) for i, v in enumerate(vals)]
        return pts, [n - 1], b""
    if fam == "instr":
        ins = GL_INSTR[idx % len(GL_INSTR)]
        k = idx // len(GL_INSTR)
        pts = [[(0, 0, 1)], [(0, 0, 1), (300, 0, 0), (300, 400, 1)], [(5, 5, 0), (-5, 600, 0)]][k]
        return pts, [len(pts) - 1], ins
    raise KeyError(fam)


def make_simple(pts, ends, instr):
    g = G.Glyph()
    g.numberOfContours = len(ends)
    g.endPtsOfContours = list(ends)
    g.coordinates = G.GlyphCoordinates([(x, y) for x, y, _f in pts])
    g.flags = bytearray(f for _x, _y, f in pts)
    g.program = ttProgram.Program()
    g.program.fromBytecode(instr)
    return g


def representable(pts):
    """glyf stores successive differences as int16 and the bounding box as int16."""
    px, py = 0, 0
    for x, y, _f in pts:
        if not (-32768 <= x - px <= 32767 and -32768 <= y - py <= 32767):
            return False
        px, py = x, y
    return True


def _mid(a, b):
    return ((a[0] + b[0]) / 2, (a[1] + b[1]) / 2)


def ref_contour(pts):
    """TrueType contour (x, y, on) -> (closed, start, segments), straight from the glyf spec."""
    n = len(pts)
    on = [i for i in range(n) if pts[i][2] & ON]
    if on:
        k = on[0]
        seq = list(pts[k:]) + list(pts[:k])
        start = (seq[0][0], seq[0][1])
        rest = seq[1:]
    else:
        start = _mid(pts[-1], pts[0])
        rest = list(pts)
    segs, cur, ctrl = [], start, None
    for x, y, f in rest:
        if f & ON:
            if ctrl is None:
                segs.append(("L", cur, (x, y)))
            else:
                segs.append(("Q", cur, ctrl, (x, y)))
                ctrl = None
            cur = (x, y)
        else:
            if ctrl is not None:
                m = _mid(ctrl, (x, y))
                segs.append(("Q", cur, ctrl, m))
                cur = m
            ctrl = (x, y)
    if ctrl is not None:
        segs.append(("Q", cur, ctrl, start))
    elif cur != start:
        segs.append(("L", cur, start))
    return (True, start, segs)


def ref_outline(pts, ends):
    cs, s = [], 0
    for e in ends:
        cs.append(ref_contour(pts[s:e + 1]))
        s = e + 1
    return geom.canon_contours(cs)


def build_font(names, glyphs, padding=None):
    """FontBuilder font around in-memory Glyph objects; lsb = xMin so that no consumer shifts."""
    cubic = any(f & CUBIC for g in glyphs.values() for f in getattr(g, "flags", ()))
    fb = FontBuilder(1000, isTTF=True, glyphDataFormat=1 if cubic else 0)
    fb.setupGlyphOrder(names)
    fb.setupCharacterMap({})
    fb.setupGlyf(glyphs)
    glyf = fb.font["glyf"]
    if padding is not None:
        glyf.padding = padding
    fb.setupHorizontalMetrics({n: (600, getattr(glyphs[n], "xMin", 0)) for n in names})
    fb.setupHorizontalHeader(ascent=800, descent=-200)
    fb.setupPost(keepGlyphNames=False)
    return fb.font


def save_bytes(font):
    buf = io.BytesIO()
    font.save(buf)
    return buf.getvalue()


def read_glyf(data):
    """Independent reader: sfnt -> (indexToLocFormat, [glyph bytes])."""
    t = R.sfnt_tables(data)
    fmt = R.i16(t["head"], 50)
    n = R.u16(t["maxp"], 4)
    offs = R.loca(t["loca"], fmt, n)
    if offs[-1] > len(t["glyf"]):
        raise R.ReadError("loca end %d beyond glyf length %d" % (offs[-1], len(t["glyf"])))
    return fmt, offs, [t["glyf"][offs[i]:offs[i + 1]] for i in range(n)], len(t["glyf"])


def simple_class(pts, ends, instr):
    tags = []
    n = len(pts)
    if n >= 256:
        tags.append("long-flag-run")
    if any(abs(v) >= 32767 for x, y, _f in pts for v in (x, y)):
        tags.append("extreme-coordinate")
    if any(f & CUBIC for _x, _y, f in pts):
        tags.append("cubic-flag")
    if any(f & OVERLAP for _x, _y, f in pts):
        tags.append("overlap-bit")
    if len(ends) > 1:
        tags.append("multi-contour")
    if instr:
        tags.append("instructions")
    return "+".join(tags) or "plain"


class GlyfSimpleUnit(Unit):
    name = "glyf-simple"
    rule = ("simple glyphs: (deltas) every x-delta vector of <=3 (quick) / <=4 (thorough) points over {0,+-1,+-255,+-256,+-1000} with "
            "the y deltas running through the same alphabet x every on/off pattern x overlap-simple bit; (contours) every split of "
            "<=4 points into contours x every on/off/cubic flag pattern x 3 delta vectors; (runs) <=2 (quick) / <=3 (thorough) runs "
            "of identical flags, run = (6 flag classes, length in {1,2,3,256,257,258}); (extreme) coordinate vectors over "
            "{-32768,-1,0,32767}; instructions of length {0,2,255,256}; 48 glyphs per FontBuilder font, saved and reloaded; oracle: "
            "reloaded Glyph == input, struct reader of head/maxp/loca/glyf decodes the same points/flags/end points/instructions, "
            "HarfBuzz draws the outline that the glyf spec assigns to the points (implied points, closing segment); "
            "distinct = each glyph")
    required_witnesses = ("flag repeat", "repeat count 255", "x short +", "x short -", "x int16", "x unchanged", "y int16", "off-curve only contour",
                          "implied on-curve point", "overlap-simple bit", "cubic flag", "several contours", "instructions present",
                          "delta not representable (outside domain)", "coordinate -32768", "coordinate 32767")
    chunk = 4
    BATCH = 48

    def setup(self, tier, seed):
        pass

    def families(self, tier):
        fams = ["deltas1", "deltas2", "deltas3", "contours", "runs1", "runs2", "extreme", "instr"]
        if tier != "quick":
            fams += ["deltas4", "runs3"]
        return fams

    def bounds(self, tier, seed):
        return {f: gl_family_size(f, tier) for f in self.families(tier)}

    def cases(self, tier, seed):
        for fam in self.families(tier):
            size = gl_family_size(fam, tier)
            batch = self.BATCH if not fam.startswith("runs") else 12
            for s in range(0, size, batch):
                yield [fam, s, min(batch, size - s)]

    def check(self, case, rec):
        fam, start, count = case
        items = []
        for idx in range(start, start + count):
            pts, ends, instr = gl_simple(fam, idx)
            if not representable(pts):
                rec.witness("delta not representable (outside domain)")
                rec.count("outside-domain:int16-delta")
                continue
            items.append((idx, pts, ends, instr))
        rec.evals(count - 1)
        rec.nontrivial_n(len(items))
        if not items:
            return
        names = [".notdef"] + ["i%d" % it[0] for it in items]
        glyphs = {".notdef": G.Glyph()}
        for it in items:
            glyphs["i%d" % it[0]] = make_simple(it[1], it[2], it[3])
        try:
            data = save_bytes(build_font(names, glyphs))
        except Exception as e:
            if count > 1:
                for idx in range(start, start + count):
                    self.check([fam, idx, 1], rec)
                    rec.evaluations -= 1
                return
            pts, ends, instr = items[0][1:]
            rec.violation("glyf:compile-raises:%s:%s" % (type(e).__name__, simple_class(pts, ends, instr)),
                          "building/saving a font with this glyph raised %s: %s; points %r" % (type(e).__name__, e, pts[:8]))
            return
        font2 = TTFont(io.BytesIO(data))
        glyf2 = font2["glyf"]
        try:
            fmt, offs, blobs, _gl = read_glyf(data)
        except R.ReadError as e:
            rec.violation("glyf:reader:container", "independent reader: %s" % e)
            return
        hb = hbridge.HBFont(data)
        for gi, (idx, pts, ends, instr) in enumerate(items, start=1):
            cls = simple_class(pts, ends, instr)
            one = [fam, idx, 1]
            g2 = glyf2[font2.getGlyphName(gi)]
            got = None
            if g2.numberOfContours > 0:
                got = ([(x, y, f) for (x, y), f in zip(g2.coordinates, g2.flags)], list(g2.endPtsOfContours), g2.program.getBytecode())
            if got != ([tuple(p) for p in pts], list(ends), instr):
                rec.violation("glyf:decompile:" + cls, "reloaded glyph differs: %r" % (short_pts(got),), case=one, expected=short_pts((pts, ends, instr)))
            try:
                rg = R.glyph(blobs[gi])
            except R.ReadError as e:
                rec.violation("glyf:reader:" + cls, "independent reader: %s" % e, case=one)
                continue
            if rg["kind"] != "simple" or rg["points"] != [tuple(p) for p in pts] or rg["endPts"] != list(ends) or rg["instructions"] != instr:
                rec.violation("glyf:reader:" + cls, "independent reader decodes other content: %r" % (short_pts((rg.get("points"), rg.get("endPts"), rg.get("instructions"))),),
                              case=one, expected=short_pts((pts, ends, instr)))
                continue
            if any(b for b in blobs[gi][rg["used"]:]) or len(blobs[gi]) - rg["used"] > 3:
                rec.violation("glyf:reader:trailing-bytes", "%d bytes after the glyph data" % (len(blobs[gi]) - rg["used"]), case=one)
            self.witness(rg, pts, ends, instr, rec)
            if any(f & CUBIC for _x, _y, f in pts):
                continue  # HarfBuzz (stock build) does not implement cubic glyf outlines
            want = ref_outline(pts, ends)
            msg = geom.contours_close(want, hb.outline(gi), 0.01)
            if msg:
                rec.violation("glyf:harfbuzz:" + cls, "HarfBuzz outline differs from the points: %s" % msg, case=one, expected=short_pts((pts, ends, instr)))

    def witness(self, rg, pts, ends, instr, rec):
        if rg["repeats"]:
            rec.witness("flag repeat")
        raw = rg["rawflags"]
        prev = None
        run = 0
        for f in raw:
            run = run + 1 if f == prev else 1
            prev = f
            if run == 257:
                rec.witness("repeat count 255")
        for f in set(raw):
            if f & R.X_SHORT:
                rec.witness("x short +" if f & R.X_SAME else "x short -")
            else:
                rec.witness("x unchanged" if f & R.X_SAME else "x int16")
            if not f & R.Y_SHORT and not f & R.Y_SAME:
                rec.witness("y int16")
        s = 0
        for e in ends:
            c = pts[s:e + 1]
            s = e + 1
            if not any(p[2] & ON for p in c):
                rec.witness("off-curve only contour")
            if any(not c[i][2] & ON and not c[(i + 1) % len(c)][2] & ON for i in range(len(c))) and len(c) > 1:
                rec.witness("implied on-curve point")
        if any(p[2] & OVERLAP for p in pts):
            rec.witness("overlap-simple bit")
        if any(p[2] & CUBIC for p in pts):
            rec.witness("cubic flag")
        if len(ends) > 1:
            rec.witness("several contours")
        if instr:
            rec.witness("instructions present")
        for x, y, _f in pts:
            if -32768 in (x, y):
                rec.witness("coordinate -32768")
            if 32767 in (x, y):
                rec.witness("coordinate 32767")


def short_pts(t):
    if t is None:
        return None
    pts, ends, instr = t
    return {"points": list(pts[:10]) if pts else pts, "npoints": len(pts) if pts else 0, "endPts": ends, "instr": len(instr) if instr is not None else None}


# ---------------------------------------------------------------------------------------------
# composite glyphs
BASE1 = [(10, 20, 1), (110, 30, 0), (90, 140, 1), (20, 100, 1)]
BIG = [(i * 3, (i * 7) % 50 + (200 if i % 2 else 0), 1) for i in range(260)]
C_FLAGBITS = (0x0200, 0x0004, 0x0400, 0x0010)  # USE_MY_METRICS, ROUND_XY_TO_GRID, OVERLAP_COMPOUND, NON_OVERLAPPING
C_OFFSET_MODES = (0, 0x0800, 0x1000)  # default, SCALED_COMPONENT_OFFSET, UNSCALED_COMPONENT_OFFSET


def all_transforms():
    t = [None]
    t += [("s", a) for a in F2]
    t += [("xy", a, d) for a in F2 for d in F2 if a != d]
    t += [("2x2", a, b, c, d) for a in F2 for b in F2 for c in F2 for d in F2]
    return t


TRANSFORMS = all_transforms()
T_REPS = (None, ("s", 0.5), ("xy", -1.0, 32767 / 16384), ("2x2", 0.5, -1.0, 1.0, -2.0))
XY_DIAG = ((-129, -129), (-128, 127), (0, 0), (127, -128), (128, 128))


def t_matrix(t):
    if t is None:
        return None
    if t[0] == "s":
        return [[t[1], 0], [0, t[1]]]
    if t[0] == "xy":
        return [[t[1], 0], [0, t[2]]]
    return [[t[1], t[2]], [t[3], t[4]]]


def comp_family_size(fam, tier):
    if fam == "xy-transform":
        return 25 * 26 + 625 * 5 if tier == "quick" else 25 * len(TRANSFORMS)
    if fam == "flags":
        return 16 * 3 * 2 * len(T_REPS) * 3
    if fam == "anchors":
        return 3 * len(T_REPS) + 4 * 2
    if fam == "multi":
        return 27
    raise KeyError(fam)


def comp_item(fam, idx, tier):
    """-> (components, instructions or None); component = dict(base, xy | pts, t, flags)."""
    if fam == "xy-transform":
        if tier == "quick":
            if idx < 25 * 26:
                o, ti = idx % 25, idx // 25
                t = TRANSFORMS[ti]
                xy = (GL_OFFS[o % 5], GL_OFFS[o // 5])
            else:
                idx -= 25 * 26
                xy = XY_DIAG[idx % 5]
                t = TRANSFORMS[26 + idx // 5]
        else:
            o, ti = idx % 25, idx // 25
            t = TRANSFORMS[ti]
            xy = (GL_OFFS[o % 5], GL_OFFS[o // 5])
        return [dict(base="b1", xy=xy, t=t, flags=0)], None
    if fam == "flags":
        bits, mode, ins, ti, oi = _mixed(idx, [16, 3, 2, len(T_REPS), 3])
        fl = sum(C_FLAGBITS[i] for i in range(4) if bits >> i & 1) | C_OFFSET_MODES[mode]
        xy = ((0, 0), (127, -128), (128, -129))[oi]
        return [dict(base="b1", xy=xy, t=T_REPS[ti], flags=fl)], (b"\xb0\x01" if ins else None)
    if fam == "anchors":
        if idx < 3 * len(T_REPS):
            pp = ((0, 0), (2, 3), (3, 1))[idx % 3]
            t = T_REPS[idx // 3]
            return [dict(base="b1", xy=(5, -7), t=None, flags=0), dict(base="b1", pts=pp, t=t, flags=0)], None
        idx -= 3 * len(T_REPS)
        pp = ((255, 255), (256, 0), (0, 256), (259, 259))[idx % 4]
        t = (None, ("s", 0.5))[idx // 4]
        return [dict(base="big", xy=(0, 0), t=None, flags=0), dict(base="big", pts=pp, t=t, flags=0)], None
    if fam == "multi":
        # three components: byte args / word args / transformed, in every order of arg sizes
        a, b, c = _mixed(idx, [3, 3, 3])
        opts = (dict(xy=(1, 2), t=None), dict(xy=(300, -300), t=None), dict(xy=(-128, 127), t=("xy", 0.5, -1.0)))
        comps = [dict(base="b1", flags=0, **opts[k]) for k in (a, b, c)]
        comps[1]["base"] = "b2"
        return comps, (b"" if idx % 2 else None)
    raise KeyError(fam)


def make_composite(comps, instr):
    g = G.Glyph()
    g.numberOfContours = -1
    g.components = []
    for c in comps:
        k = G.GlyphComponent()
        k.glyphName = c["base"]
        if "xy" in c:
            k.x, k.y = c["xy"]
        else:
            k.firstPt, k.secondPt = c["pts"]
        m = t_matrix(c["t"])
        if m is not None:
            k.transform = m
        k.flags = c["flags"]
        g.components.append(k)
    if instr is not None:
        g.program = ttProgram.Program()
        g.program.fromBytecode(instr)
    return g


BASES = {"b1": (BASE1, [3]), "b2": ([(0, 0, 1), (50, 0, 1), (50, 80, 0), (0, 80, 1), (10, 10, 1), (10, 20, 1), (20, 20, 1)], [3, 6]), "big": (BIG, [259])}


def ref_flatten(comps):
    """Composite -> (points, endPts) following the glyf spec; SCALED_COMPONENT_OFFSET applies the
    component matrix to the offset (HarfBuzz's reading), otherwise the offset is added as is."""
    allp, ends = [], []
    for c in comps:
        pts, e = BASES[c["base"]]
        m = t_matrix(c["t"]) or [[1, 0], [0, 1]]
        tp = [(x * m[0][0] + y * m[1][0], x * m[0][1] + y * m[1][1], f) for x, y, f in pts]
        if "xy" in c:
            dx, dy = c["xy"]
            if c["flags"] & 0x0800 and not c["flags"] & 0x1000:
                dx, dy = dx * m[0][0] + dy * m[1][0], dx * m[0][1] + dy * m[1][1]
        else:
            p1, p2 = c["pts"]
            dx, dy = allp[p1][0] - tp[p2][0], allp[p1][1] - tp[p2][1]
        off = len(allp)
        allp.extend((x + dx, y + dy, f) for x, y, f in tp)
        ends.extend(v + off for v in e)
    return allp, ends


def comp_class(comps, instr):
    tags = set()
    for c in comps:
        tags.add("anchor-points" if "pts" in c else "xy-offset")
        if c["t"] is not None:
            tags.add(c["t"][0])
        if c["flags"] & 0x0800:
            tags.add("scaled-offset")
        if c["flags"] & 0x1000:
            tags.add("unscaled-offset")
    if instr is not None:
        tags.add("instructions")
    return "+".join(sorted(tags))


def f2dot14(v):
    return int(round(v * 16384))


class GlyfCompositeUnit(Unit):
    name = "glyf-composite"
    rule = ("composite glyphs over fixed base glyphs (4-point, 2-contour, 260-point): (xy-transform) offsets {-129,-128,0,127,128}^2 x "
            "every transform none / scale / x-y scale / 2x2 over F2Dot14 edge values {-2,-1,0.5,1,1.99994} (quick: 2x2 on the offset "
            "diagonal only); (flags) all 16 subsets of USE_MY_METRICS/ROUND_XY_TO_GRID/OVERLAP_COMPOUND/NON_OVERLAPPING x offset mode "
            "default/SCALED/UNSCALED x instructions x 4 transforms x 3 offsets; (anchors) point-matching args (0,0),(2,3),(3,1),"
            "(255,255),(256,0),(0,256),(259,259); (multi) 3 components in all byte/word/transform orders; oracle: reloaded "
            "components == input, struct reader decodes the same flags/glyph ids/args/F2Dot14 matrices, HarfBuzz draws the outline "
            "obtained by flattening per the glyf spec; distinct = each composite")
    required_witnesses = ("byte xy args", "word xy args", "byte point args", "word point args", "WE_HAVE_A_SCALE", "WE_HAVE_AN_X_AND_Y_SCALE",
                          "WE_HAVE_A_TWO_BY_TWO", "WE_HAVE_INSTRUCTIONS", "MORE_COMPONENTS", "USE_MY_METRICS", "SCALED_COMPONENT_OFFSET",
                          "UNSCALED_COMPONENT_OFFSET", "F2Dot14 -2.0", "F2Dot14 1.99994")
    chunk = 3
    BATCH = 40

    def families(self):
        return ["xy-transform", "flags", "anchors", "multi"]

    def bounds(self, tier, seed):
        return {f: comp_family_size(f, tier) for f in self.families()}

    def cases(self, tier, seed):
        for fam in self.families():
            size = comp_family_size(fam, tier)
            for s in range(0, size, self.BATCH):
                yield [fam, s, min(self.BATCH, size - s), tier]

    def check(self, case, rec):
        fam, start, count, tier = case
        items = [(idx,) + comp_item(fam, idx, tier) for idx in range(start, start + count)]
        rec.evals(count - 1)
        rec.nontrivial_n(count)
        names = [".notdef", "b1", "b2", "big"] + ["c%d" % it[0] for it in items]
        glyphs = {".notdef": G.Glyph()}
        for bn, (pts, ends) in BASES.items():
            glyphs[bn] = make_simple(pts, ends, b"")
        for idx, comps, instr in items:
            glyphs["c%d" % idx] = make_composite(comps, instr)
        try:
            data = save_bytes(build_font(names, glyphs))
        except Exception as e:
            if count > 1:
                for idx in range(start, start + count):
                    self.check([fam, idx, 1, tier], rec)
                    rec.evaluations -= 1
                return
            rec.violation("glyf-composite:compile-raises:%s:%s" % (type(e).__name__, comp_class(items[0][1], items[0][2])),
                          "building/saving raised %s: %s; components %r" % (type(e).__name__, e, items[0][1]))
            return
        font2 = TTFont(io.BytesIO(data))
        glyf2 = font2["glyf"]
        order2 = font2.getGlyphOrder()
        try:
            fmt, offs, blobs, _gl = read_glyf(data)
        except R.ReadError as e:
            rec.violation("glyf-composite:reader:container", "independent reader: %s" % e)
            return
        hb = hbridge.HBFont(data)
        gid_of = {n: i for i, n in enumerate(names)}
        for gi, (idx, comps, instr) in enumerate(items, start=4):
            cls = comp_class(comps, instr)
            one = [fam, idx, 1, tier]
            g2 = glyf2[order2[gi]]
            # (1) object model
            ok = g2.numberOfContours == -1 and len(getattr(g2, "components", ())) == len(comps)
            if ok:
                for c, k in zip(comps, g2.components):
                    d = dict(k.__dict__)
                    want = {"glyphName": order2[gid_of[c["base"]]], "flags": c["flags"]}
                    if "xy" in c:
                        want["x"], want["y"] = c["xy"]
                    else:
                        want["firstPt"], want["secondPt"] = c["pts"]
                    if c["t"] is not None:
                        want["transform"] = t_matrix(c["t"])
                    if d != want:
                        ok = False
                prog = getattr(g2, "program", None)
                if (instr is None) != (prog is None) or (prog is not None and prog.getBytecode() != instr):
                    ok = False
            if not ok:
                rec.violation("glyf-composite:decompile:" + cls, "reloaded composite differs: %r" % ([k.__dict__ for k in getattr(g2, "components", [])],),
                              case=one, expected=comps)
            # (2) struct reader
            try:
                rg = R.glyph(blobs[gi])
            except R.ReadError as e:
                rec.violation("glyf-composite:reader:" + cls, "independent reader: %s" % e, case=one)
                continue
            bad = rg["kind"] != "composite" or len(rg["components"]) != len(comps) or rg["instructions"] != instr
            if not bad:
                for ci, (c, r) in enumerate(zip(comps, rg["components"])):
                    keep = r["flags"] & (0x0004 | 0x0200 | 0x0400 | 0x0010 | 0x0800 | 0x1000)
                    if keep != c["flags"] or r["gid"] != gid_of[c["base"]]:
                        bad = True
                    if "xy" in c:
                        if (r.get("x"), r.get("y")) != tuple(c["xy"]) or not r["flags"] & 0x0002:
                            bad = True
                    elif (r.get("pt1"), r.get("pt2")) != tuple(c["pts"]) or r["flags"] & 0x0002:
                        bad = True
                    m = t_matrix(c["t"])
                    wantm = None if m is None else (f2dot14(m[0][0]), f2dot14(m[0][1]), f2dot14(m[1][0]), f2dot14(m[1][1]))
                    if r.get("m") != wantm:
                        bad = True
                    if bool(r["flags"] & 0x0020) != (ci < len(comps) - 1):
                        bad = True
                    self.witness(r, rec)
            if bad:
                rec.violation("glyf-composite:reader:" + cls, "independent reader decodes other content: %r" % (rg.get("components"),), case=one, expected=comps)
                continue
            # (3) HarfBuzz
            pts, ends = ref_flatten(comps)
            msg = geom.contours_close(ref_outline(pts, ends), hb.outline(gi), 0.02)
            if msg:
                rec.violation("glyf-composite:harfbuzz:" + cls, "HarfBuzz outline differs from the flattened components: %s" % msg, case=one, expected=comps)

    def witness(self, r, rec):
        fl = r["flags"]
        xy = bool(fl & 2)
        word = bool(fl & 1)
        rec.witness(("word " if word else "byte ") + ("xy args" if xy else "point args"))
        for bit, nm in ((0x0008, "WE_HAVE_A_SCALE"), (0x0040, "WE_HAVE_AN_X_AND_Y_SCALE"), (0x0080, "WE_HAVE_A_TWO_BY_TWO"),
                        (0x0100, "WE_HAVE_INSTRUCTIONS"), (0x0020, "MORE_COMPONENTS"), (0x0200, "USE_MY_METRICS"),
                        (0x0800, "SCALED_COMPONENT_OFFSET"), (0x1000, "UNSCALED_COMPONENT_OFFSET")):
            if fl & bit:
                rec.witness(nm)
        if r.get("m"):
            if -32768 in r["m"]:
                rec.witness("F2Dot14 -2.0")
            if 32767 in r["m"]:
                rec.witness("F2Dot14 1.99994")


# ---------------------------------------------------------------------------------------------
# glyf padding / loca short-long decision
TRI = [(0, 0, 1), (400, 0, 1), (200, 300, 1)]


def one_point_glyph(length):
    """A simple glyph whose unpadded compiled length is exactly `length` (>= 15): one on-curve
    point at the origin (10 header + 2 endPts + 2 instructionLength + 1 flag) + instructions."""
    return make_simple([(0, 0, 1)], [0], b"\x4f" * (length - 15))


class LocaUnit(Unit):
    name = "glyf-loca"
    rule = ("whole glyf tables: total unpadded size 0x20000+d for d in -6..+3 and small tables (sizes 0, 1 glyph, odd), with 0..3 "
            "odd-length glyphs, x glyf.padding in {0,1,2,4}; glyph list = empty .notdef, fillers carrying instructions, a triangle "
            "last (highest offset); oracle: reloaded glyphs == input, struct reader: loca offsets monotone, short format only if "
            "every offset is even and < 0x20000, every glyph record decodes to its input with only zero padding behind it, "
            "HarfBuzz draws the triangle; distinct = each (sizes, padding)")
    required_witnesses = ("short loca", "long loca", "long loca because of odd offset", "glyphs padded to fit short loca", "size >= 0x20000",
                          "padding 4 applied", "all glyphs empty")
    chunk = 6

    def cases(self, tier, seed):
        for pad in (0, 1, 2, 4):
            yield ["empty", 0, 0, pad]
            for total in (15, 16, 33, 0x1FFF):
                for nodd in (0, 1, 2):
                    yield ["small", total, nodd, pad]
            for d in range(-6, 4):
                for nodd in (0, 1, 2, 3):
                    yield ["edge", 0x20000 + d, nodd, pad]

    def plan(self, kind, total, nodd):
        """glyph lengths (unpadded) summing to `total` with `nodd` odd ones; triangle excluded."""
        if kind == "empty":
            return []
        tri = 10 + 2 + 2 + 3 + 5  # header, endPts, instructionLength, 3 flags, 3 x-bytes + 2 y-bytes
        rest = total - tri - 17 * nodd
        if rest < 0 or 0 < rest < 15:
            return None
        lens = [17] * nodd
        while rest > 0:
            n = min(rest, 32000)
            if 0 < rest - n < 15:
                n -= 15
            if n % 2 and rest - n >= 16:
                n -= 1  # keep fillers even; the last one absorbs the parity of the total
            lens.append(n)
            rest -= n
        return lens

    def check(self, case, rec):
        kind, total, nodd, pad = case
        lens = self.plan(kind, total, nodd)
        if lens is None:
            rec.count("unplannable size")
            return
        rec.nontrivial()
        names = [".notdef"] + ["f%d" % i for i in range(len(lens))]
        glyphs = {".notdef": G.Glyph()}
        for i, ln in enumerate(lens):
            glyphs["f%d" % i] = one_point_glyph(ln)
        if kind != "empty":
            names.append("tri")
            glyphs["tri"] = make_simple(TRI, [2], b"")
        else:
            names.append("e2")
            glyphs["e2"] = G.Glyph()
        font = build_font(names, glyphs, padding=pad)
        data = save_bytes(font)
        font2 = TTFont(io.BytesIO(data))
        glyf2 = font2["glyf"]
        order2 = font2.getGlyphOrder()
        cls = "%s:pad%d" % (kind, pad)
        try:
            fmt, offs, blobs, glyf_len = read_glyf(data)
        except R.ReadError as e:
            rec.violation("glyf-loca:reader:" + cls, "independent reader: %s" % e)
            return
        unpadded = []
        for gi, n in enumerate(names):
            g2 = glyf2[order2[gi]]
            src = glyphs[n]
            if src.numberOfContours == 0:
                if g2.numberOfContours != 0 or blobs[gi].strip(b"\0"):
                    rec.violation("glyf-loca:decompile:" + cls, "empty glyph %s came back non-empty" % n)
                unpadded.append(0)
                continue
            want = (list(src.coordinates), list(src.flags), list(src.endPtsOfContours), src.program.getBytecode())
            got = (list(g2.coordinates), list(g2.flags), list(g2.endPtsOfContours), g2.program.getBytecode()) if g2.numberOfContours > 0 else None
            if got != want:
                rec.violation("glyf-loca:decompile:" + cls, "glyph %s differs after reload" % n)
            try:
                rg = R.glyph(blobs[gi])
            except R.ReadError as e:
                rec.violation("glyf-loca:reader:" + cls, "glyph %s: %s" % (n, e))
                continue
            if rg["kind"] != "simple" or [(x, y) for x, y, _f in rg["points"]] != want[0] or rg["instructions"] != want[3]:
                rec.violation("glyf-loca:reader:" + cls, "glyph %s decodes to other content" % n)
            tail = blobs[gi][rg["used"]:]
            if tail.strip(b"\0") or len(tail) > 3:
                rec.violation("glyf-loca:reader:padding:" + cls, "glyph %s followed by %d bytes %r" % (n, len(tail), tail[:8]))
            unpadded.append(rg["used"])
        if kind != "empty" and sum(unpadded) != total:
            raise AssertionError("size plan wrong: %d != %d" % (sum(unpadded), total))
        # loca format validity (independent of how the choice was made)
        if fmt == 0:
            rec.witness("short loca")
            if any(o % 2 for o in offs) or offs[-1] >= 0x20000:
                rec.violation("glyf-loca:short-format-invalid:" + cls, "short loca with offsets %r..." % (offs[:6],))
            if any(u % 2 for u in unpadded):
                rec.witness("glyphs padded to fit short loca")
        elif fmt == 1:
            rec.witness("long loca")
            if offs[-1] < 0x20000:
                rec.witness("long loca because of odd offset")
        else:
            rec.violation("glyf-loca:indexToLocFormat", "indexToLocFormat %r" % fmt)
        if offs[-1] >= 0x20000:
            rec.witness("size >= 0x20000")
        if pad in (2, 4) and any(o % pad for o in offs):
            rec.violation("glyf-loca:padding-not-applied:" + cls, "padding=%d but offsets %r" % (pad, [o for o in offs if o % pad][:4]))
        if pad == 4 and any(u % 4 for u in unpadded):
            rec.witness("padding 4 applied")
        if pad == 0 and fmt == 1 and offs != [sum(unpadded[:i]) for i in range(len(unpadded) + 1)]:
            rec.violation("glyf-loca:padding0-padded:" + cls, "padding=0 but glyphs were padded")
        if kind == "empty":
            rec.witness("all glyphs empty")
            if glyf_len < 1:
                rec.violation("glyf-loca:empty-table", "glyf table of length 0 (the writer promises a 1-byte table)")
            return
        hb = hbridge.HBFont(data)
        msg = geom.contours_close(ref_outline(TRI, [2]), hb.outline(len(names) - 1), 0.01)
        if msg:
            rec.violation("glyf-loca:harfbuzz:" + cls, "HarfBuzz cannot draw the last glyph: %s" % msg)


def units():
    return [CmapUnit(), Cmap14Unit(), MetricsUnit(), GlyfSimpleUnit(), GlyfCompositeUnit(), LocaUnit()]
