"""C02 - encoding any valid table content and decoding it returns that content.

Bounded exhaustive exploration.  Every unit owns a *generator of valid in-memory content* (a
shape/run grammar whose atoms are the branch constants of the encoder under test), compiles it
with the real `compile`, reads it back with the real `decompile` (object equality after the
normalisation the table documents) AND with an independent reader (`oracles/c02_readers.py`,
struct only, written from the OpenType specification) and, where HarfBuzz implements the
table, through HarfBuzz on a font assembled around the compiled bytes.

Content the binary format cannot hold (a delta beyond int16, an unencodable name string...)
is outside the domain: such cases are counted (`counters`), never flagged.
"""
from mc import env  # noqa: F401
from mc.kernel import Unit

import itertools
import math
import struct
from fractions import Fraction

from fontTools.ttLib import TTFont, newTable
from fontTools.ttLib.tables._c_m_a_p import CmapSubtable

from oracles import c02_readers as R
from oracles import hbridge, geom, tinyfont

LEVEL = "exploration"
ASSUMPTIONS = [
    "atoms are the boundary values named in each unit rule; other values of the same class are assumed to behave alike",
    "HarfBuzz 12 (uharfbuzz) and the struct-only readers in oracles/c02_readers.py are the independent readers; cmap format 2 and 'post'/'OS/2'/'name' have no HarfBuzz check",
    "content the binary format cannot represent (int16 delta overflow, F2Dot14 2.0, unencodable strings, > 0xFFFF kern pairs) is outside the domain and only counted",
    "tables without a generator (AAT, bitmap, Graphite, CFF, GSUB/GPOS rule lookups beyond SingleSubst/SinglePos) are not covered here (C01/C03/C06/C11)",
]

# ---------------------------------------------------------------------------------------------
# shared fixtures (built once in the parent, inherited by the forked workers)
_FIX = {}


def bigfont():
    """A TTFont that only carries a glyph order of 65535 names g0..g65534."""
    f = _FIX.get("bigfont")
    if f is None:
        f = TTFont()
        f.setGlyphOrder(["g%d" % i for i in range(65535)])
        f.getReverseGlyphMap()
        _FIX["bigfont"] = f
    return f


def base_tables():
    """Tables of a small FontBuilder font (sfnt parsed by the independent reader)."""
    t = _FIX.get("base")
    if t is None:
        t = R.sfnt_tables(tinyfont.build_bytes({"kind": "ttf"}))
        _FIX["base"] = t
    return t


def gname(g):
    return "g%d" % g


def otround(x):
    """OpenType rounding written independently: floor(x + 1/2) in exact arithmetic."""
    return math.floor(Fraction(x) + Fraction(1, 2))


# =============================================================================================
# cmap
# =============================================================================================
CMAP_KINDS = ("gap", "consec", "scatter", "same")
CMAP_LENS = (1, 2, 4, 5, 8, 9)
CMAP_ANCHORS = (0x20, 0xFF, 0xFFF0, 0x10000 - 4)
CMAP_GIDBASES = (1, 0x7FF0, 0xFF00)
SCATTER = (5, 2, 9, 0, 7, 3, 11, 1, 8)


def cmap_build(anchor, gidbase, runs):
    code, g, m = anchor, gidbase, {}
    for kind, n in runs:
        if kind == "gap":
            code += n
            continue
        for i in range(n):
            if kind == "consec":
                m[code + i] = g + i
            elif kind == "scatter":
                m[code + i] = g + SCATTER[i]
            else:
                m[code + i] = g
        g += {"consec": n + 1, "scatter": 13, "same": 2}[kind]
        code += n
    return m


def cmap_formats_for(m):
    """Formats in which the map {code: gid} is expressible, per the format definitions."""
    if not m:
        return [4, 6, 12, 13, 0, 2]
    mx = max(m)
    fmts = [12, 13]
    if mx <= 0xFFFF:
        fmts.append(4)
        if mx - min(m) + 1 <= (0xFFFF - 10) // 2:
            fmts.append(6)  # the uint16 length field bounds the dense array
        one = {c for c in m if c < 256}
        leads = {c >> 8 for c in m if c >= 256}
        if not (one & leads):
            fmts.append(2)
    if mx <= 255 and max(m.values()) <= 255:
        fmts.append(0)
    return fmts


# (platformID, platEncID, language) used for each format inside the combined table
CMAP_SLOT = {4: (3, 1, 0), 6: (1, 0, 5), 12: (3, 10, 0), 13: (0, 6, 0), 0: (1, 0, 6), 2: (3, 3, 0)}


def _subtable(fmt, key, cmapdict):
    s = CmapSubtable.newSubtable(fmt)
    s.platformID, s.platEncID, s.language = key
    s.cmap = cmapdict
    return s


class CmapUnit(Unit):
    name = "cmap"
    rule = ("code->glyph maps = sequences of <=3 (quick) / <=4 (thorough) runs, run=(kind in gap/consecutive gids/scattered gids/"
            "all-same gid, length in {1,2,4,5,8,9}) x start code in {0x20,0xFF,0xFFF0,0xFFFC} x first gid in {1,0x7FF0,0xFF00} "
            "(idDelta wrap both ways), through every format in which the map is expressible (4,6,12,13,0,2) inside one cmap "
            "table (shared dict for two format-4 records), + boundary families (empty map, glyph 0 explicit, 0xFFFF mapped, "
            "format 2 one-/two-byte mixes, 65535/65536/65537 groups in format 12/13); oracle: decompile == map minus "
            ".notdef entries, struct reader enumerates exactly the same mapping and obeys the spec's ordering constraints, "
            "HarfBuzz nominal glyph agrees on every mapped code and its neighbours; distinct = each (map, format set)")
    required_witnesses = (
        "fmt4 idDelta segment", "fmt4 glyphIdArray segment", "fmt4 idDelta >= 0x8000 (gid < code)", "fmt4 idDelta < 0x8000 (gid > code)",
        "fmt4 code 0xFFFF mapped", "fmt12 several groups", "fmt13 many-to-one group", "fmt6", "fmt0", "fmt2 two-byte range",
        "fmt2 one-byte codes", "supplementary-plane code", "glyph 0 mapped explicitly", "map straddles 0xFFFF/0x10000",
        ">= 65536 groups", "shared subtable offset",
    )
    chunk = 150

    def setup(self, tier, seed):
        bigfont()
        base_tables()

    def bounds(self, tier, seed):
        return {"max_runs": 3 if tier == "quick" else 4, "lengths": CMAP_LENS, "anchors": CMAP_ANCHORS, "gid_bases": CMAP_GIDBASES}

    def cases(self, tier, seed):
        for sp in CMAP_SPECIALS:
            yield ["special", sp]
        maxruns = 3 if tier == "quick" else 4
        atoms = [(k, n) for k in CMAP_KINDS for n in CMAP_LENS]
        for n in range(1, maxruns + 1):
            for spec in itertools.product(atoms, repeat=n):
                if spec[-1][0] == "gap":
                    continue  # a trailing gap adds nothing
                if any(a[0] == "gap" and b[0] == "gap" for a, b in zip(spec, spec[1:])):
                    continue  # two gaps in a row = one gap of another length
                for anchor in CMAP_ANCHORS:
                    # all first-gid bases up to 2 runs; beyond that gid 1 plus one seed-named base
                    # (quick, 3 runs) / one seed-named base (thorough, 4 runs)
                    alt = CMAP_GIDBASES[1 + seed % 2]
                    bases = CMAP_GIDBASES if n <= 2 or (n == 3 and tier != "quick") else (1, alt) if n == 3 else (CMAP_GIDBASES[seed % 3],)
                    for gb in bases:
                        yield ["runs", anchor, gb, [list(a) for a in spec]]

    def expand_case(self, case):
        if case[0] == "runs":
            return cmap_build(case[1], case[2], case[3])
        return cmap_special(case[1])

    def check(self, case, rec):
        m = self.expand_case(case)
        big = len(m) > 5000
        fmts = cmap_formats_for(m)
        if case[0] == "special" and case[1].startswith("big"):
            fmts = [12] if "12" in case[1] else [13]
        font = bigfont()
        names = {c: gname(g) for c, g in m.items()}
        expected = {c: g for c, g in m.items() if g != 0}
        if len(expected) != len(m):
            rec.witness("glyph 0 mapped explicitly")
        if m and max(m) > 0xFFFF:
            rec.witness("supplementary-plane code")
            if min(m) <= 0xFFFF:
                rec.witness("map straddles 0xFFFF/0x10000")
        rec.nontrivial(key=["cmap", sorted(m.items()) if not big else case, fmts])

        # ---- one table holding every expressible format -------------------------------
        subs = []
        for fmt in fmts:
            subs.append(_subtable(fmt, CMAP_SLOT[fmt], dict(names)))
        if 4 in fmts:
            # a second record that shares the *same dict object* (the compiler must emit one copy)
            s4 = [s for s in subs if s.format == 4][0]
            subs.append(_subtable(4, (0, 3, 0), s4.cmap))
        table = newTable("cmap")
        table.tableVersion = 0
        table.tables = list(subs)
        try:
            data = table.compile(font)
        except Exception:
            data = None
        if data is None:
            # attribute the failure to the format(s) that cannot be compiled, check the others
            for s in subs:
                t1 = newTable("cmap")
                t1.tableVersion = 0
                t1.tables = [s]
                try:
                    d1 = t1.compile(font)
                except Exception as e:
                    rec.violation("cmap%d:compile-raises:%s:%s" % (s.format, type(e).__name__, cmap_shape(m, s.format)),
                                  "format %d compile raised %s: %s (map of %d codes)" % (s.format, type(e).__name__, e, len(m)))
                    continue
                self.check_table(d1, [s], m, expected, rec, big)
            return
        self.check_table(data, subs, m, expected, rec, big)
        if len(fmts) > 1 and not big:
            # the same records, but ALL of them holding one and the same dict object (a caller that builds
            # several formats from one mapping): each record must still be written in its own format
            shared = dict(names)
            subs2 = [_subtable(fmt, CMAP_SLOT[fmt], shared) for fmt in fmts]
            t3 = newTable("cmap")
            t3.tableVersion = 0
            t3.tables = list(subs2)
            try:
                data3 = t3.compile(font)
            except Exception as e:
                rec.violation("cmap:shared-dict:compile-raises:%s" % type(e).__name__, "formats %s sharing one dict: %r" % (fmts, e))
                return
            rec.witness("one dict shared by records of different formats")
            self.check_table(data3, subs2, m, expected, rec, big)

    # -------------------------------------------------------------------------------------
    def check_table(self, data, subs, m, expected, rec, big):
        font = bigfont()
        want_names = {c: gname(g) for c, g in expected.items()}
        # (1) the real decompiler
        t2 = newTable("cmap")
        t2.decompile(data, font)
        got = {(s.platformID, s.platEncID, s.language): s for s in t2.tables}
        if t2.tableVersion != 0 or len(t2.tables) != len(subs):
            rec.violation("cmap:table-header", "version %r, %d subtables for %d" % (t2.tableVersion, len(t2.tables), len(subs)))
        # (2) the independent reader
        try:
            ver, recs = R.cmap_directory(data)
        except R.ReadError as e:
            rec.violation("cmap:reader:directory", str(e))
            return
        if [(p, e) for p, e, _o in recs] != sorted((p, e) for p, e, _o in recs):
            rec.violation("cmap:records-unsorted", "encoding records not sorted by platform/encoding: %r" % (recs,))
        if len(recs) != len(subs):
            rec.violation("cmap:reader:count", "%d encoding records for %d subtables" % (len(recs), len(subs)))
        offs = {}
        for p, e, o in recs:
            offs.setdefault((p, e), []).append(o)
        probes = None
        for s in subs:
            key = (s.platformID, s.platEncID, s.language)
            fmt = s.format
            d = got.get(key)
            if d is None:
                rec.violation("cmap%d:decompile:missing-subtable" % fmt, "no subtable %r after decompile" % (key,))
            else:
                if d.format != fmt:
                    rec.violation("cmap%d:decompile:format" % fmt, "format became %r" % d.format)
                if d.cmap != want_names:
                    rec.violation("cmap%d:decompile:%s" % (fmt, cmap_shape(m, fmt)), "decompile(compile(map)) differs: %s" % dict_diff(want_names, d.cmap),
                                  observed=sorted(d.cmap.items())[:40], expected=sorted(want_names.items())[:40])
            olist = offs.get((s.platformID, s.platEncID), [])
            st = None
            for o in olist:
                try:
                    cand = R.cmap_subtable_bytes(data, o)
                except R.ReadError as e:
                    rec.violation("cmap%d:reader:subtable" % fmt, str(e))
                    continue
                if R.u16(cand, 0) == fmt and R.cmap_language(cand) == s.language:
                    st = cand
            if st is None:
                rec.violation("cmap%d:reader:not-found" % fmt, "no format %d / language %d subtable at record %r" % (fmt, s.language, key))
                continue
            try:
                ent = R.cmap_entries(st)
            except R.ReadError as e:
                rec.violation("cmap%d:reader:%s" % (fmt, cmap_shape(m, fmt)), "independent reader cannot enumerate: %s" % e)
                continue
            if ent != expected:
                rec.violation("cmap%d:reader:%s" % (fmt, cmap_shape(m, fmt)), "independent reader sees another mapping: %s" % dict_diff(expected, ent),
                              observed=sorted(ent.items())[:40], expected=sorted(expected.items())[:40])
            for err in R.cmap_structure_errors(st):
                rec.violation("cmap%d:structure:%s" % (fmt, cmap_shape(m, fmt)), "encoded subtable breaks a spec constraint: %s" % err)
            if probes is None:
                probes = cmap_probes(m)
            if not big:
                for c in probes:
                    try:
                        g = R.cmap_lookup(st, c)
                    except R.ReadError as e:
                        rec.violation("cmap%d:reader-lookup:%s" % (fmt, cmap_shape(m, fmt)), "lookup(%#x): %s" % (c, e))
                        break
                    if g != expected.get(c, 0):
                        rec.violation("cmap%d:reader-lookup:%s" % (fmt, cmap_shape(m, fmt)), "lookup(%#x) = %d, expected %d" % (c, g, expected.get(c, 0)))
                        break
            self.witness_bytes(fmt, st, m, rec)
            # (3) HarfBuzz on a font whose cmap holds only this subtable
            if fmt != 2:
                one = struct.pack(">HHHHL", 0, 1, 3, 10, 12) + st
                tabs = dict(base_tables())
                tabs["cmap"] = one
                hb = hbridge.HBFont(R.sfnt_build(tabs))
                for c in (probes if not big else list(probes)[:2000]):
                    g = hb.nominal(c) or 0
                    if g != expected.get(c, 0):
                        rec.violation("cmap%d:harfbuzz:%s" % (fmt, cmap_shape(m, fmt)), "HarfBuzz maps %#x to %d, expected %d" % (c, g, expected.get(c, 0)))
                        break
        if len(set(o for _p, _e, o in recs)) < len(recs):
            rec.witness("shared subtable offset")

    def witness_bytes(self, fmt, st, m, rec):
        if fmt == 4:
            segx2 = R.u16(st, 6)
            seg = segx2 // 2
            for i in range(seg - 1):
                delta = R.u16(st, 16 + 2 * segx2 + 2 * i)
                ro = R.u16(st, 16 + 3 * segx2 + 2 * i)
                if ro:
                    rec.witness("fmt4 glyphIdArray segment")
                else:
                    rec.witness("fmt4 idDelta segment")
                    rec.witness("fmt4 idDelta >= 0x8000 (gid < code)" if delta >= 0x8000 else "fmt4 idDelta < 0x8000 (gid > code)")
            if m.get(0xFFFF):
                rec.witness("fmt4 code 0xFFFF mapped")
        elif fmt in (12, 13):
            n = R.u32(st, 12)
            if fmt == 12 and n > 1:
                rec.witness("fmt12 several groups")
            if n >= 65536:
                rec.witness(">= 65536 groups")
            if fmt == 13:
                for k in range(min(n, 50)):
                    if R.u32(st, 16 + 12 * k + 4) > R.u32(st, 16 + 12 * k):
                        rec.witness("fmt13 many-to-one group")
                        break
        elif fmt == 6:
            rec.witness("fmt6")
        elif fmt == 0:
            rec.witness("fmt0")
        elif fmt == 2:
            if any(c >= 256 for c, g in m.items() if g):
                rec.witness("fmt2 two-byte range")
            if any(c < 256 for c, g in m.items() if g):
                rec.witness("fmt2 one-byte codes")


def cmap_shape(m, fmt):
    """Stable class key of a map (no concrete values): which boundary features it has."""
    if not m:
        return "empty-map"
    tags = []
    if fmt == 2:
        one = any(c < 256 for c in m)
        two = any(c >= 256 for c in m)
        tags.append("only-one-byte-codes" if one and not two else "only-two-byte-codes" if two and not one else "mixed-bytes")
        if max(m.values()) > 0x7FFF:
            tags.append("gid>0x7FFF")
    if fmt == 4 and 0xFFFF in m:
        tags.append("0xFFFF-mapped")
    if 0 in m.values():
        tags.append("gid0")
    if len(m) >= 60000:
        tags.append("huge")
    return "+".join(tags) or "plain"


def dict_diff(exp, got, n=4):
    miss = sorted(k for k in exp if k not in got)
    extra = sorted(k for k in got if k not in exp)
    diff = sorted(k for k in exp if k in got and exp[k] != got[k])
    def sh(keys, d1=None, d2=None):
        out = []
        for k in keys[:n]:
            ks = "%#x" % k if isinstance(k, int) else repr(k)
            if d1 is not None and d2 is not None:
                out.append("%s:%r->%r" % (ks, d1[k], d2[k]))
            else:
                out.append(ks)
        return "[" + ", ".join(out) + ("..." if len(keys) > n else "") + "]"
    return "missing %d %s, extra %d %s, changed %d %s" % (len(miss), sh(miss), len(extra), sh(extra), len(diff), sh(diff, exp, got))


def cmap_probes(m):
    s = set(m)
    for c in list(m):
        s.add(c - 1)
        s.add(c + 1)
    s.update((0, 0x1F, 0xFF, 0x100, 0xFFFE, 0xFFFF, 0x10000, 0x10FFFF))
    return sorted(c for c in s if 0 <= c <= 0x10FFFF)


def cmap_special(name):
    if name == "empty":
        return {}
    if name == "gid0-only":
        return {0x41: 0}
    if name == "gid0-first":
        return {0x41: 0, 0x42: 3}
    if name == "gid0-inside-consec":
        return {0x41: 3, 0x42: 4, 0x43: 0, 0x44: 6, 0x45: 7}
    if name == "gid0-inside-scatter":
        return {0x41: 9, 0x42: 0, 0x43: 5, 0x44: 20}
    if name == "gid0-astral":
        return {0x1F600: 0, 0x1F601: 8}
    if name == "ffff-alone":
        return {0xFFFF: 7}
    if name == "ffff-consec":
        return {0xFFFD: 5, 0xFFFE: 6, 0xFFFF: 7}
    if name == "ffff-scatter":
        return {0xFFFD: 9, 0xFFFE: 2, 0xFFFF: 7}
    if name == "ffff-gid0":
        return {0xFFFE: 4, 0xFFFF: 0}
    if name == "ffff-wrap":
        return {0xFFFF: 0xFFFE, 0x20: 0xFFFD}
    if name == "code0":
        return {0: 5, 1: 6, 2: 9}
    if name == "byte-full":
        return {c: 255 - c if c != 255 else 7 for c in range(256)}
    if name == "fmt2-one-byte":
        return {0x41: 5, 0x42: 9}
    if name == "fmt2-two-byte":
        return {0x8140: 5, 0x8141: 9, 0x81FF: 300}
    if name == "fmt2-mixed":
        return {0x41: 5, 0x42: 6, 0x8140: 9, 0x8141: 40000, 0x9F40: 12, 0x9F42: 13}
    if name == "fmt2-shared-subarray":
        # two lead bytes whose second-byte ranges map to identical glyph arrays after idDelta
        return {0x8140: 10, 0x8141: 11, 0x8240: 10, 0x8241: 11, 0x8340: 50, 0x8341: 51}
    if name == "fmt2-high-gid":
        return {0x20: 0x9000, 0x21: 0x9005, 0x8140: 0xFFFE, 0x8142: 0x8000}
    if name == "fmt2-full-lead":
        return {0x8100 + i: 1 + (i * 7) % 300 for i in range(256)}
    if name == "dense-bmp-step":
        return {c: 1 + (c % 5) for c in range(0x3000, 0x3400)}
    if name == "big13-one-group":
        return {0x20 + i: 5 for i in range(70000)}
    if name.startswith("big12-"):
        n = int(name.split("-")[1])
        return {0x20 + i: 1 + (i % 2) * 2 for i in range(n)}
    if name.startswith("big13-"):
        n = int(name.split("-")[1])
        return {0x20 + i: 1 + (i % 2) for i in range(n)}
    raise KeyError(name)


CMAP_SPECIALS = [
    "empty", "gid0-only", "gid0-first", "gid0-inside-consec", "gid0-inside-scatter", "gid0-astral", "ffff-alone", "ffff-consec",
    "ffff-scatter", "ffff-gid0", "ffff-wrap", "code0", "byte-full", "fmt2-one-byte", "fmt2-two-byte", "fmt2-mixed",
    "fmt2-shared-subarray", "fmt2-high-gid", "fmt2-full-lead", "dense-bmp-step",
    "big12-65535", "big12-65536", "big12-65537", "big13-65535", "big13-65536", "big13-65537", "big13-one-group",
]


# ---------------------------------------------------------------------------------------------
# cmap format 14 (Unicode variation sequences)
UVS_SELECTORS = (0xFE00, 0xFE0F, 0xE0100)
UVS_DEFAULT_SHAPES = (
    (), ((0, 1),), ((0, 2),), ((0, 255),), ((0, 256),), ((0, 257),), ((0, 513),),
    ((0, 2), (1, 2)), ((0, 256), (1, 1)), ((0, 1), (1, 256)), ((0, 2), (0, 3)),
)  # runs as (gap before, length); gap 0 merges with the previous run
UVS_ANCHORS = (0x4E00, 0xFFFE, 0x2F800)
UVS_NONDEFAULT = ((), ((0x41, 7),), ((0x3A9, 300), (0x3AA, 2), (0x1F600, 65534)), ((0x4DFF, 9), (0xFFFF, 3)))


def uvs_default_codes(anchor, shape):
    out, c = [], anchor
    for gap, n in shape:
        c += gap
        out.extend(range(c, c + n))
        c += n
    return out


class Cmap14Unit(Unit):
    name = "cmap14"
    rule = ("format 14 tables over 1..2 selectors from {U+FE00,U+FE0F,U+E0100}; per selector default-UVS code sets built from runs "
            "(lengths 1,2,255,256,257,513 around the uint8 additionalCount limit, adjacent / separated runs, anchors U+4E00, U+FFFE "
            "(crosses into plane 1), U+2F800) x non-default sets {none, 1 BMP, 3 incl. astral & gid 65534, 2 next to the default "
            "range}; oracle: decompile gives the same (uv, glyph|None) set per selector, the struct reader lists the same default "
            "code points / non-default glyphs in sorted records, HarfBuzz get_variation_glyph agrees at every range edge; "
            "distinct = each uvsDict")
    required_witnesses = ("default UVS", "non-default UVS", "both in one selector", "two selectors", "default range of 256", "default run > 256 in input", "astral base")
    chunk = 40

    def setup(self, tier, seed):
        bigfont()
        base_tables()

    def cases(self, tier, seed):
        states = []
        for anchor in UVS_ANCHORS:
            for di, shape in enumerate(UVS_DEFAULT_SHAPES):
                for ni in range(len(UVS_NONDEFAULT)):
                    if not shape and ni == 0:
                        continue
                    if not shape and anchor != UVS_ANCHORS[0]:
                        continue
                    if set(uvs_default_codes(anchor, shape)) & set(dict(UVS_NONDEFAULT[ni])):
                        continue  # a base cannot be default and non-default for one selector
                    states.append([anchor, di, ni])
        for sel in UVS_SELECTORS:
            for st in states:
                yield [[sel] + st]
        small = [s for s in states if s[1] in (0, 2, 4, 5) and s[2] in (0, 2)]
        if tier == "quick":
            small = [s for s in small if s[0] == UVS_ANCHORS[seed % 3] or s[1] == 0]
        for a, b in itertools.combinations(UVS_SELECTORS, 2):
            for st1 in states:
                for st2 in small:
                    yield [[a] + st1, [b] + st2]

    def check(self, case, rec):
        font = bigfont()
        uvs = {}
        exp_def, exp_non = {}, {}
        for sel, anchor, di, ni in case:
            d = uvs_default_codes(anchor, UVS_DEFAULT_SHAPES[di])
            n = dict(UVS_NONDEFAULT[ni])
            # listed out of order on purpose: the compiler has to sort
            lst = [(uv, gname(g)) for uv, g in sorted(n.items(), reverse=True)] + [(uv, None) for uv in reversed(d)]
            uvs[sel] = lst
            exp_def[sel], exp_non[sel] = sorted(d), n
            if d:
                rec.witness("default UVS")
            if n:
                rec.witness("non-default UVS")
            if d and n:
                rec.witness("both in one selector")
            if any(c > 0xFFFF for c in d) or any(c > 0xFFFF for c in n):
                rec.witness("astral base")
        if len(case) == 2:
            rec.witness("two selectors")
        rec.nontrivial()
        s = CmapSubtable.newSubtable(14)
        s.platformID, s.platEncID, s.language = 0, 5, 0xFF
        s.cmap = {}
        s.uvsDict = {k: list(v) for k, v in uvs.items()}
        t = newTable("cmap")
        t.tableVersion = 0
        t.tables = [s]
        shape = "default-run>256" if any(n > 256 for c in case for _g, n in merged_runs(UVS_DEFAULT_SHAPES[c[2]])) else "plain"
        if shape != "plain":
            rec.witness("default run > 256 in input")
        try:
            data = t.compile(font)
        except Exception as e:
            rec.violation("cmap14:compile-raises:%s:%s" % (type(e).__name__, shape), "format 14 compile raised %s: %s" % (type(e).__name__, e))
            return
        t2 = newTable("cmap")
        t2.decompile(data, font)
        got = t2.tables[0].uvsDict
        norm = lambda lst: sorted(lst, key=lambda it: (it[0], it[1] or ""))
        if {k: norm(v) for k, v in got.items()} != {k: norm(v) for k, v in uvs.items()}:
            rec.violation("cmap14:decompile:" + shape, "uvsDict differs after decompile(compile())",
                          observed={k: norm(v)[:6] for k, v in got.items()}, expected={k: norm(v)[:6] for k, v in uvs.items()})
        try:
            _v, recs = R.cmap_directory(data)
            st = R.cmap_subtable_bytes(data, recs[0][2])
            rd = R.cmap14(st)
        except R.ReadError as e:
            rec.violation("cmap14:reader:" + shape, "independent reader: %s" % e)
            return
        if sorted(rd) != sorted(uvs):
            rec.violation("cmap14:reader:selectors", "selectors %r, expected %r" % (sorted(rd), sorted(uvs)))
            return
        for sel in uvs:
            d, n = rd[sel]
            if d != exp_def[sel]:
                rec.violation("cmap14:reader-default:" + shape, "default UVS of %#x: %d codes (first %s), expected %d" % (sel, len(d), d[:3], len(exp_def[sel])))
            if n != exp_non[sel]:
                rec.violation("cmap14:reader-nondefault:" + shape, "non-default UVS of %#x: %r expected %r" % (sel, n, exp_non[sel]))
        # encoded default ranges: witnesses
        n14 = R.u32(st, 6)
        for i in range(n14):
            doff = R.u32(st, 10 + 11 * i + 3)
            if doff:
                for k in range(R.u32(st, doff)):
                    if R.u8(st, doff + 4 + 4 * k + 3) == 255:
                        rec.witness("default range of 256")
        # HarfBuzz: format 14 next to a hand-made format 12 giving every probe the nominal glyph 1
        probes = set()
        for sel in uvs:
            for c in exp_def[sel][:1] + exp_def[sel][-1:] + list(exp_non[sel]):
                probes.update((c - 1, c, c + 1))
            for gap_edge in edges(exp_def[sel]):
                probes.update((gap_edge - 1, gap_edge, gap_edge + 1))
        probes = sorted(p for p in probes if p >= 0)
        groups = b"".join(struct.pack(">LLL", c, c, 1) for c in probes)
        f12 = struct.pack(">HHLLL", 12, 0, 16 + len(groups), 0, len(probes)) + groups
        cm = struct.pack(">HHHHLHHL", 0, 2, 0, 5, 20, 3, 10, 20 + len(st)) + st + f12
        tabs = dict(base_tables())
        tabs["cmap"] = cm
        hb = hbridge.HBFont(R.sfnt_build(tabs))
        for sel in uvs:
            ds = set(exp_def[sel])
            for c in probes:
                want = exp_non[sel].get(c, 1 if c in ds else 0)
                g = hb.font.get_variation_glyph(c, sel) or 0
                if g != want:
                    rec.violation("cmap14:harfbuzz:" + shape, "HarfBuzz variation glyph (%#x, %#x) = %d, expected %d" % (c, sel, g, want))
                    break


def merged_runs(shape):
    out = []
    for gap, n in shape:
        if out and gap == 0:
            out[-1] = (out[-1][0], out[-1][1] + n)
        else:
            out.append((gap, n))
    return out


def edges(codes):
    """first/last code of every maximal run in a sorted code list"""
    out = []
    for i, c in enumerate(codes):
        if i == 0 or codes[i - 1] != c - 1:
            out.append(c)
        if i == len(codes) - 1 or codes[i + 1] != c + 1:
            out.append(c)
    return out


# =============================================================================================
# hmtx / vmtx
# =============================================================================================
MTX_ADV = (0, 1, 500, 65535)
MTX_SB = (-32768, -1, 0, 32767)
MTX_FLOATS = (0.5, 1.5, 2.5, -0.5, 499.5, 500.49, 65534.5)
MTX_TABLES = {"hmtx": ("hhea", "numberOfHMetrics"), "vmtx": ("vhea", "numberOfVMetrics")}


def _mtx_font(tag, with_header, n):
    key = ("mtx", tag, with_header, n)
    f = _FIX.get(key)
    if f is None:
        f = TTFont()
        f.setGlyphOrder([gname(i) for i in range(n)])
        f["maxp"] = newTable("maxp")
        f["maxp"].numGlyphs = n
        if with_header:
            f[MTX_TABLES[tag][0]] = newTable(MTX_TABLES[tag][0])
        _FIX[key] = f
    return f


class MetricsUnit(Unit):
    name = "metrics"
    rule = ("hmtx and vmtx, with and without their header table: every advance array of length <=4 (quick) / <=5 (thorough) over "
            "{0,1,500,65535} x every side-bearing array over {-32768,-1,0,32767} (all trailing-equal-run lengths 0..5), + arrays "
            "holding floats around .5; oracle: decompile (with the numberOfHMetrics that compile stored) == the rounded input, "
            "struct reader recovers the same (advance, sb) for every glyph from exactly 4*k+2*(n-k) bytes with 1<=k<=n, HarfBuzz "
            "h_advance agrees; distinct = each (table, header?, advances, side bearings)")
    required_witnesses = ("long metrics trimmed", "all advances equal -> one long metric", "no trimming possible", "no header table",
                          "advance 65535", "side bearing -32768", "float rounded half up", "vmtx")
    chunk = 8

    def setup(self, tier, seed):
        base_tables()

    def bounds(self, tier, seed):
        return {"max_glyphs": 4 if tier == "quick" else 5, "advances": MTX_ADV, "side_bearings": MTX_SB, "floats": MTX_FLOATS}

    def cases(self, tier, seed):
        nmax = 4 if tier == "quick" else 5
        for n in range(1, nmax + 1):
            for tag in ("hmtx", "vmtx"):
                for hdr in (True, False):
                    for adv in itertools.product(MTX_ADV, repeat=n):
                        yield [tag, hdr, list(adv), "int"]
        for tag in ("hmtx", "vmtx"):
            for a in MTX_FLOATS:
                yield [tag, True, [a, 500, 500], "float"]

    def check(self, case, rec):
        tag, hdr, adv, kind = case[:4]
        n = len(adv)
        font = _mtx_font(tag, hdr, n)
        names = font.getGlyphOrder()
        if kind == "one":  # replay form: one (advances, side bearings) pair
            rec.nontrivial_n(1)
            return self.one(tag, hdr, font, names, list(adv), list(case[4]), rec)
        if kind == "float":
            sbs = [(b, 0, c) for b in MTX_FLOATS[:-1] + (-1.5, -32767.5) for c in (0, 7.5)]
            sbs += [(0, a2, 0) for a2 in MTX_FLOATS]  # second pass: float in the advance of glyph 1
        else:
            sbs = itertools.product(MTX_SB, repeat=n)
        count = 0
        for sb in sbs:
            count += 1
            advs = list(adv)
            if kind == "float" and sb[1] != 0:
                advs = [adv[0], sb[1], sb[1]]
                sb = (1, 2, 3)
            self.one(tag, hdr, font, names, advs, list(sb), rec)
        rec.evals(count - 1)
        rec.nontrivial_n(count)

    def one(self, tag, hdr, font, names, adv, sb, rec):
        n = len(adv)
        hname, cname = MTX_TABLES[tag]
        t = newTable(tag)
        t.metrics = {names[i]: (adv[i], sb[i]) for i in range(n)}
        if hdr:
            setattr(font[hname], cname, 0xFFFF)  # stale value: compile has to overwrite it
        case = [tag, hdr, adv, sb]
        try:
            data = t.compile(font)
        except Exception as e:
            rec.violation("%s:compile-raises:%s" % (tag, type(e).__name__), "compile raised %s: %s" % (type(e).__name__, e), case=[tag, hdr, adv, "one", sb])
            return
        exp = [(otround(adv[i]), otround(sb[i])) for i in range(n)]
        if any(isinstance(v, float) for v in adv + sb):
            rec.witness("float rounded half up")
        k = getattr(font[hname], cname) if hdr else n
        t2 = newTable(tag)
        t2.decompile(data, font)
        got = [tuple(t2.metrics.get(names[i], ())) for i in range(n)]
        cls = mtx_class(adv, hdr)
        if got != exp or len(t2.metrics) != n:
            rec.violation("%s:decompile:%s" % (tag, cls), "decompile(compile()) = %r, expected %r (k=%r)" % (got, exp, k), case=[tag, hdr, adv, "one", sb])
        try:
            rd = R.hmtx(data, n, k)
        except R.ReadError as e:
            rec.violation("%s:reader:%s" % (tag, cls), "independent reader: %s (numberOfMetrics=%r)" % (e, k), case=[tag, hdr, adv, "one", sb])
            return
        if rd != exp:
            rec.violation("%s:reader:%s" % (tag, cls), "independent reader sees %r, expected %r (numberOfMetrics=%r)" % (rd, exp, k), case=[tag, hdr, adv, "one", sb])
        # witnesses (from the input shape and the stored count)
        if not hdr:
            rec.witness("no header table")
        elif k < n:
            rec.witness("long metrics trimmed")
            if k == 1:
                rec.witness("all advances equal -> one long metric")
        elif n > 1:
            rec.witness("no trimming possible")
        if 65535 in adv:
            rec.witness("advance 65535")
        if -32768 in sb:
            rec.witness("side bearing -32768")
        if tag == "vmtx":
            rec.witness("vmtx")
            return
        # HarfBuzz
        base = base_tables()
        hhea = bytearray(base["hhea"])
        hhea[34:36] = struct.pack(">H", k)
        maxp = bytearray(base["maxp"])
        maxp[4:6] = struct.pack(">H", n)
        hb = hbridge.HBFont(R.sfnt_build({"head": base["head"], "hhea": bytes(hhea), "maxp": bytes(maxp), "hmtx": data}))
        # HarfBuzz scales advances through an int16 (hb_font_t::em_scale_x): compare modulo 2^16
        hadv = [hb.h_advance(g) & 0xFFFF for g in range(n)]
        if hadv != [e[0] for e in exp]:
            rec.violation("hmtx:harfbuzz:%s" % cls, "HarfBuzz advances %r, expected %r" % (hadv, [e[0] for e in exp]), case=[tag, hdr, adv, "one", sb])


def mtx_class(adv, hdr):
    n = len(adv)
    run = 1
    while run < n and adv[n - 1 - run] == adv[n - 1]:
        run += 1
    return "%s:n=%d:trailing-run=%d" % ("hdr" if hdr else "nohdr", n, run)


# =============================================================================================
# glyf / loca
# =============================================================================================
import io

from fontTools.fontBuilder import FontBuilder
from fontTools.ttLib.tables import _g_l_y_f as G
from fontTools.ttLib.tables import ttProgram

GL_DELTAS = (0, 1, -1, 255, -255, 256, -256, 1000, -1000)
GL_EXTREME = (-32768, -1, 0, 32767)
GL_RUN_LENS = (1, 2, 3, 256, 257, 258)
# flag classes: every point of a run compiles to the same flag byte
GL_RUN_CLASSES = (
    (1, (1, 0), (1, 0)),        # on, x short positive, y unchanged
    (1, (0, 2), (0, 2)),        # on, x unchanged, y short positive
    (0, (1, 1), (1, 1)),        # off, both short positive
    (1, (300, 300), (-300, -300)),  # on, both int16 (alternating sign keeps the outline in range)
    (1, (0, 0), (0, 0)),        # on, repeated point
    (0, (-1, 1), (-1, 1)),      # off, x short negative
)
GL_INSTR = (b"", b"\xb0\x00", b"\x4f" * 255, b"\x4f" * 256)
F2 = (-2.0, -1.0, 0.5, 1.0, 32767 / 16384)  # F2Dot14 edge values
GL_OFFS = (-129, -128, 0, 127, 128)
ON, OVERLAP, CUBIC = 1, 0x40, 0x80


def _mixed(idx, radices):
    out = []
    for r in radices:
        out.append(idx % r)
        idx //= r
    return out


def gl_family_size(fam, tier):
    if fam.startswith("deltas"):
        n = int(fam[6:])
        return 9 ** n * 2 * 2 ** n * 2
    if fam == "contours":
        return sum(2 ** (n - 1) * 3 ** n * 3 for n in range(1, 5))
    if fam.startswith("runs"):
        n = int(fam[4:])
        return 36 ** n
    if fam == "extreme":
        return 2 * sum(4 ** n for n in range(1, 4))
    if fam == "instr":
        return len(GL_INSTR) * 3
    raise KeyError(fam)


def gl_simple(fam, idx):
    """-> (points [(x,y,flag)], endPts, instructions) of item idx of a simple-glyph family."""
    if fam.startswith("deltas"):
        n = int(fam[6:])
        d = _mixed(idx, [9] * n + [2] + [2] * n + [2])
        ix, shift, onoff, ov = d[:n], d[n], d[n + 1:2 * n + 1], d[2 * n + 1]
        pts, x, y = [], 0, 0
        for i in range(n):
            x += GL_DELTAS[ix[i]]
            y += GL_DELTAS[(2 * ix[i] + 4 * shift + i) % 9]
            pts.append((x, y, onoff[i] | (OVERLAP if ov and i == 0 else 0)))
        return pts, [n - 1], b""
    if fam == "contours":
        for n in range(1, 5):
            size = 2 ** (n - 1) * 3 ** n * 3
            if idx < size:
                break
            idx -= size
        d = _mixed(idx, [2 ** (n - 1), 3 ** n, 3])
        cuts, kinds, dv = d
        ends = [i for i in range(n - 1) if cuts >> i & 1] + [n - 1]
        ks = _mixed(kinds, [3] * n)
        vec = ((7, 3), (255, -256), (-1000, 1))[dv]
        pts = []
        for i in range(n):
            fl = (ON, 0, CUBIC)[ks[i]]
            pts.append((vec[0] * (i + 1) * (-1) ** i, vec[1] * (i // 2 + 1), fl))
        return pts, ends, b""
    if fam.startswith("runs"):
        n = int(fam[4:])
        d = _mixed(idx, [36] * n)
        pts, x, y, k = [], 0, 0, 0
        for a in d:
            on, d0, d1 = GL_RUN_CLASSES[a // 6]
            for _ in range(GL_RUN_LENS[a % 6]):
                dx, dy = d0 if k % 2 == 0 else d1
                x += dx
                y += dy
                pts.append((x, y, on))
                k += 1
        return pts, [len(pts) - 1], b""
    if fam == "extreme":
        axis = idx % 2
        idx //= 2
        for n in range(1, 4):
            if idx < 4 ** n:
                break
            idx -= 4 ** n
        vals = [GL_EXTREME[v] for v in _mixed(idx, [4] * n)]
        pts = [((v, 10 * i, 1) if axis == 0 else (10 * i, v, i % 2)) for i, v in enumerate(vals)]
        return pts, [n - 1], b""
    if fam == "instr":
        ins = GL_INSTR[idx % len(GL_INSTR)]
        k = idx // len(GL_INSTR)
        pts = [[(0, 0, 1)], [(0, 0, 1), (300, 0, 0), (300, 400, 1)], [(5, 5, 0), (-5, 600, 0)]][k]
        return pts, [len(pts) - 1], ins
    raise KeyError(fam)


def make_simple(pts, ends, instr):
    g = G.Glyph()
    g.numberOfContours = len(ends)
    g.endPtsOfContours = list(ends)
    g.coordinates = G.GlyphCoordinates([(x, y) for x, y, _f in pts])
    g.flags = bytearray(f for _x, _y, f in pts)
    g.program = ttProgram.Program()
    g.program.fromBytecode(instr)
    return g


def representable(pts):
    """glyf stores successive differences as int16 and the bounding box as int16."""
    px, py = 0, 0
    for x, y, _f in pts:
        if not (-32768 <= x - px <= 32767 and -32768 <= y - py <= 32767):
            return False
        px, py = x, y
    return True


def _mid(a, b):
    return ((a[0] + b[0]) / 2, (a[1] + b[1]) / 2)


def ref_contour(pts):
    """TrueType contour (x, y, on) -> (closed, start, segments), straight from the glyf spec."""
    n = len(pts)
    on = [i for i in range(n) if pts[i][2] & ON]
    if on:
        k = on[0]
        seq = list(pts[k:]) + list(pts[:k])
        start = (seq[0][0], seq[0][1])
        rest = seq[1:]
    else:
        start = _mid(pts[-1], pts[0])
        rest = list(pts)
    segs, cur, ctrl = [], start, None
    for x, y, f in rest:
        if f & ON:
            if ctrl is None:
                segs.append(("L", cur, (x, y)))
            else:
                segs.append(("Q", cur, ctrl, (x, y)))
                ctrl = None
            cur = (x, y)
        else:
            if ctrl is not None:
                m = _mid(ctrl, (x, y))
                segs.append(("Q", cur, ctrl, m))
                cur = m
            ctrl = (x, y)
    if ctrl is not None:
        segs.append(("Q", cur, ctrl, start))
    elif cur != start:
        segs.append(("L", cur, start))
    return (True, start, segs)


def ref_outline(pts, ends):
    cs, s = [], 0
    for e in ends:
        cs.append(ref_contour(pts[s:e + 1]))
        s = e + 1
    return geom.canon_contours(cs)


def build_font(names, glyphs, padding=None):
    """FontBuilder font around in-memory Glyph objects; lsb = xMin so that no consumer shifts."""
    cubic = any(f & CUBIC for g in glyphs.values() for f in getattr(g, "flags", ()))
    fb = FontBuilder(1000, isTTF=True, glyphDataFormat=1 if cubic else 0)
    fb.setupGlyphOrder(names)
    fb.setupCharacterMap({})
    fb.setupGlyf(glyphs)
    glyf = fb.font["glyf"]
    if padding is not None:
        glyf.padding = padding
    fb.setupHorizontalMetrics({n: (600, getattr(glyphs[n], "xMin", 0)) for n in names})
    fb.setupHorizontalHeader(ascent=800, descent=-200)
    fb.setupPost(keepGlyphNames=False)
    return fb.font


def save_bytes(font):
    buf = io.BytesIO()
    font.save(buf)
    return buf.getvalue()


def read_glyf(data):
    """Independent reader: sfnt -> (indexToLocFormat, [glyph bytes])."""
    t = R.sfnt_tables(data)
    fmt = R.i16(t["head"], 50)
    n = R.u16(t["maxp"], 4)
    offs = R.loca(t["loca"], fmt, n)
    if offs[-1] > len(t["glyf"]):
        raise R.ReadError("loca end %d beyond glyf length %d" % (offs[-1], len(t["glyf"])))
    return fmt, offs, [t["glyf"][offs[i]:offs[i + 1]] for i in range(n)], len(t["glyf"])


def simple_class(pts, ends, instr):
    tags = []
    n = len(pts)
    if n >= 256:
        tags.append("long-flag-run")
    if any(abs(v) >= 32767 for x, y, _f in pts for v in (x, y)):
        tags.append("extreme-coordinate")
    if any(f & CUBIC for _x, _y, f in pts):
        tags.append("cubic-flag")
    if any(f & OVERLAP for _x, _y, f in pts):
        tags.append("overlap-bit")
    if len(ends) > 1:
        tags.append("multi-contour")
    if instr:
        tags.append("instructions")
    return "+".join(tags) or "plain"


class GlyfSimpleUnit(Unit):
    name = "glyf-simple"
    rule = ("simple glyphs: (deltas) every x-delta vector of <=3 (quick) / <=4 (thorough) points over {0,+-1,+-255,+-256,+-1000} with "
            "the y deltas running through the same alphabet x every on/off pattern x overlap-simple bit; (contours) every split of "
            "<=4 points into contours x every on/off/cubic flag pattern x 3 delta vectors; (runs) <=2 (quick) / <=3 (thorough) runs "
            "of identical flags, run = (6 flag classes, length in {1,2,3,256,257,258}); (extreme) coordinate vectors over "
            "{-32768,-1,0,32767}; instructions of length {0,2,255,256}; 48 glyphs per FontBuilder font, saved and reloaded; oracle: "
            "reloaded Glyph == input, struct reader of head/maxp/loca/glyf decodes the same points/flags/end points/instructions, "
            "HarfBuzz draws the outline that the glyf spec assigns to the points (implied points, closing segment); "
            "distinct = each glyph")
    required_witnesses = ("flag repeat", "repeat count 255", "x short +", "x short -", "x int16", "x unchanged", "y int16", "off-curve only contour",
                          "implied on-curve point", "overlap-simple bit", "cubic flag", "several contours", "instructions present",
                          "delta not representable (outside domain)", "coordinate -32768", "coordinate 32767")
    chunk = 4
    BATCH = 48

    def setup(self, tier, seed):
        pass

    def families(self, tier):
        fams = ["deltas1", "deltas2", "deltas3", "contours", "runs1", "runs2", "extreme", "instr"]
        if tier != "quick":
            fams += ["deltas4", "runs3"]
        return fams

    def bounds(self, tier, seed):
        return {f: gl_family_size(f, tier) for f in self.families(tier)}

    def cases(self, tier, seed):
        for fam in self.families(tier):
            size = gl_family_size(fam, tier)
            batch = self.BATCH if not fam.startswith("runs") else 12
            for s in range(0, size, batch):
                yield [fam, s, min(batch, size - s)]

    def check(self, case, rec):
        fam, start, count = case
        items = []
        for idx in range(start, start + count):
            pts, ends, instr = gl_simple(fam, idx)
            if not representable(pts):
                rec.witness("delta not representable (outside domain)")
                rec.count("outside-domain:int16-delta")
                continue
            items.append((idx, pts, ends, instr))
        rec.evals(count - 1)
        rec.nontrivial_n(len(items))
        if not items:
            return
        names = [".notdef"] + ["i%d" % it[0] for it in items]
        glyphs = {".notdef": G.Glyph()}
        for it in items:
            glyphs["i%d" % it[0]] = make_simple(it[1], it[2], it[3])
        try:
            data = save_bytes(build_font(names, glyphs))
        except Exception as e:
            if count > 1:
                for idx in range(start, start + count):
                    self.check([fam, idx, 1], rec)
                    rec.evaluations -= 1
                return
            pts, ends, instr = items[0][1:]
            rec.violation("glyf:compile-raises:%s:%s" % (type(e).__name__, simple_class(pts, ends, instr)),
                          "building/saving a font with this glyph raised %s: %s; points %r" % (type(e).__name__, e, pts[:8]))
            return
        font2 = TTFont(io.BytesIO(data))
        glyf2 = font2["glyf"]
        try:
            fmt, offs, blobs, _gl = read_glyf(data)
        except R.ReadError as e:
            rec.violation("glyf:reader:container", "independent reader: %s" % e)
            return
        hb = hbridge.HBFont(data)
        for gi, (idx, pts, ends, instr) in enumerate(items, start=1):
            cls = simple_class(pts, ends, instr)
            one = [fam, idx, 1]
            g2 = glyf2[font2.getGlyphName(gi)]
            got = None
            if g2.numberOfContours > 0:
                got = ([(x, y, f) for (x, y), f in zip(g2.coordinates, g2.flags)], list(g2.endPtsOfContours), g2.program.getBytecode())
            if got != ([tuple(p) for p in pts], list(ends), instr):
                rec.violation("glyf:decompile:" + cls, "reloaded glyph differs: %r" % (short_pts(got),), case=one, expected=short_pts((pts, ends, instr)))
            try:
                rg = R.glyph(blobs[gi])
            except R.ReadError as e:
                rec.violation("glyf:reader:" + cls, "independent reader: %s" % e, case=one)
                continue
            if rg["kind"] != "simple" or rg["points"] != [tuple(p) for p in pts] or rg["endPts"] != list(ends) or rg["instructions"] != instr:
                rec.violation("glyf:reader:" + cls, "independent reader decodes other content: %r" % (short_pts((rg.get("points"), rg.get("endPts"), rg.get("instructions"))),),
                              case=one, expected=short_pts((pts, ends, instr)))
                continue
            if any(b for b in blobs[gi][rg["used"]:]) or len(blobs[gi]) - rg["used"] > 3:
                rec.violation("glyf:reader:trailing-bytes", "%d bytes after the glyph data" % (len(blobs[gi]) - rg["used"]), case=one)
            self.witness(rg, pts, ends, instr, rec)
            if any(f & CUBIC for _x, _y, f in pts):
                continue  # HarfBuzz (stock build) does not implement cubic glyf outlines
            want = ref_outline(pts, ends)
            msg = geom.contours_close(want, hb.outline(gi), 0.01)
            if msg:
                rec.violation("glyf:harfbuzz:" + cls, "HarfBuzz outline differs from the points: %s" % msg, case=one, expected=short_pts((pts, ends, instr)))

    def witness(self, rg, pts, ends, instr, rec):
        if rg["repeats"]:
            rec.witness("flag repeat")
        raw = rg["rawflags"]
        prev = None
        run = 0
        for f in raw:
            run = run + 1 if f == prev else 1
            prev = f
            if run == 257:
                rec.witness("repeat count 255")
        for f in set(raw):
            if f & R.X_SHORT:
                rec.witness("x short +" if f & R.X_SAME else "x short -")
            else:
                rec.witness("x unchanged" if f & R.X_SAME else "x int16")
            if not f & R.Y_SHORT and not f & R.Y_SAME:
                rec.witness("y int16")
        s = 0
        for e in ends:
            c = pts[s:e + 1]
            s = e + 1
            if not any(p[2] & ON for p in c):
                rec.witness("off-curve only contour")
            if any(not c[i][2] & ON and not c[(i + 1) % len(c)][2] & ON for i in range(len(c))) and len(c) > 1:
                rec.witness("implied on-curve point")
        if any(p[2] & OVERLAP for p in pts):
            rec.witness("overlap-simple bit")
        if any(p[2] & CUBIC for p in pts):
            rec.witness("cubic flag")
        if len(ends) > 1:
            rec.witness("several contours")
        if instr:
            rec.witness("instructions present")
        for x, y, _f in pts:
            if -32768 in (x, y):
                rec.witness("coordinate -32768")
            if 32767 in (x, y):
                rec.witness("coordinate 32767")


def short_pts(t):
    if t is None:
        return None
    pts, ends, instr = t
    return {"points": list(pts[:10]) if pts else pts, "npoints": len(pts) if pts else 0, "endPts": ends, "instr": len(instr) if instr is not None else None}


# ---------------------------------------------------------------------------------------------
# composite glyphs
BASE1 = [(10, 20, 1), (110, 30, 0), (90, 140, 1), (20, 100, 1)]
BIG = [(i * 3, (i * 7) % 50 + (200 if i % 2 else 0), 1) for i in range(260)]
C_FLAGBITS = (0x0200, 0x0004, 0x0400, 0x0010)  # USE_MY_METRICS, ROUND_XY_TO_GRID, OVERLAP_COMPOUND, NON_OVERLAPPING
C_OFFSET_MODES = (0, 0x0800, 0x1000)  # default, SCALED_COMPONENT_OFFSET, UNSCALED_COMPONENT_OFFSET


def all_transforms():
    t = [None]
    t += [("s", a) for a in F2]
    t += [("xy", a, d) for a in F2 for d in F2 if a != d]
    # off-diagonal terms may be zero one at a time (a 2x2 needs only one of them)
    t += [("2x2", a, b, c, d) for a in F2 for b in F2 + (0.0,) for c in F2 + (0.0,) for d in F2 if b or c]
    return t


TRANSFORMS = all_transforms()
T_REPS = (None, ("s", 0.5), ("xy", -1.0, 32767 / 16384), ("2x2", 0.5, -1.0, 1.0, -2.0))
XY_DIAG = ((-129, -129), (-128, 127), (0, 0), (127, -128), (128, 128))


def t_matrix(t):
    if t is None:
        return None
    if t[0] == "s":
        return [[t[1], 0], [0, t[1]]]
    if t[0] == "xy":
        return [[t[1], 0], [0, t[2]]]
    return [[t[1], t[2]], [t[3], t[4]]]


def comp_family_size(fam, tier):
    if fam == "xy-transform":
        return 25 * 26 + (len(TRANSFORMS) - 26) * 5 if tier == "quick" else 25 * len(TRANSFORMS)
    if fam == "flags":
        return 16 * 3 * 2 * len(T_REPS) * 3
    if fam == "anchors":
        return 3 * len(T_REPS) + 4 * 2
    if fam == "multi":
        return 27
    raise KeyError(fam)


def comp_item(fam, idx, tier):
    """-> (components, instructions or None); component = dict(base, xy | pts, t, flags)."""
    if fam == "xy-transform":
        if tier == "quick":
            if idx < 25 * 26:
                o, ti = idx % 25, idx // 25
                t = TRANSFORMS[ti]
                xy = (GL_OFFS[o % 5], GL_OFFS[o // 5])
            else:
                idx -= 25 * 26
                xy = XY_DIAG[idx % 5]
                t = TRANSFORMS[26 + idx // 5]
        else:
            o, ti = idx % 25, idx // 25
            t = TRANSFORMS[ti]
            xy = (GL_OFFS[o % 5], GL_OFFS[o // 5])
        return [dict(base="b1", xy=xy, t=t, flags=0)], None
    if fam == "flags":
        bits, mode, ins, ti, oi = _mixed(idx, [16, 3, 2, len(T_REPS), 3])
        fl = sum(C_FLAGBITS[i] for i in range(4) if bits >> i & 1) | C_OFFSET_MODES[mode]
        xy = ((0, 0), (127, -128), (128, -129))[oi]
        return [dict(base="b1", xy=xy, t=T_REPS[ti], flags=fl)], (b"\xb0\x01" if ins else None)
    if fam == "anchors":
        if idx < 3 * len(T_REPS):
            pp = ((0, 0), (2, 3), (3, 1))[idx % 3]
            t = T_REPS[idx // 3]
            return [dict(base="b1", xy=(5, -7), t=None, flags=0), dict(base="b1", pts=pp, t=t, flags=0)], None
        idx -= 3 * len(T_REPS)
        pp = ((255, 255), (256, 0), (0, 256), (259, 259))[idx % 4]
        t = (None, ("s", 0.5))[idx // 4]
        return [dict(base="big", xy=(0, 0), t=None, flags=0), dict(base="big", pts=pp, t=t, flags=0)], None
    if fam == "multi":
        # three components: byte args / word args / transformed, in every order of arg sizes
        a, b, c = _mixed(idx, [3, 3, 3])
        opts = (dict(xy=(1, 2), t=None), dict(xy=(300, -300), t=None), dict(xy=(-128, 127), t=("xy", 0.5, -1.0)))
        comps = [dict(base="b1", flags=0, **opts[k]) for k in (a, b, c)]
        comps[1]["base"] = "b2"
        return comps, (b"" if idx % 2 else None)
    raise KeyError(fam)


def make_composite(comps, instr):
    g = G.Glyph()
    g.numberOfContours = -1
    g.components = []
    for c in comps:
        k = G.GlyphComponent()
        k.glyphName = c["base"]
        if "xy" in c:
            k.x, k.y = c["xy"]
        else:
            k.firstPt, k.secondPt = c["pts"]
        m = t_matrix(c["t"])
        if m is not None:
            k.transform = m
        k.flags = c["flags"]
        g.components.append(k)
    if instr is not None:
        g.program = ttProgram.Program()
        g.program.fromBytecode(instr)
    return g


BASES = {"b1": (BASE1, [3]), "b2": ([(0, 0, 1), (50, 0, 1), (50, 80, 0), (0, 80, 1), (10, 10, 1), (10, 20, 1), (20, 20, 1)], [3, 6]), "big": (BIG, [259])}


def ref_flatten(comps):
    """Composite -> (points, endPts) following the glyf spec; SCALED_COMPONENT_OFFSET applies the
    component matrix to the offset (HarfBuzz's reading), otherwise the offset is added as is."""
    allp, ends = [], []
    for c in comps:
        pts, e = BASES[c["base"]]
        m = t_matrix(c["t"]) or [[1, 0], [0, 1]]
        tp = [(x * m[0][0] + y * m[1][0], x * m[0][1] + y * m[1][1], f) for x, y, f in pts]
        if "xy" in c:
            dx, dy = c["xy"]
            if c["flags"] & 0x0800 and not c["flags"] & 0x1000:
                dx, dy = dx * m[0][0] + dy * m[1][0], dx * m[0][1] + dy * m[1][1]
        else:
            p1, p2 = c["pts"]
            dx, dy = allp[p1][0] - tp[p2][0], allp[p1][1] - tp[p2][1]
        off = len(allp)
        allp.extend((x + dx, y + dy, f) for x, y, f in tp)
        ends.extend(v + off for v in e)
    return allp, ends


def comp_class(comps, instr):
    tags = set()
    for c in comps:
        tags.add("anchor-points" if "pts" in c else "xy-offset")
        if c["t"] is not None:
            tags.add(c["t"][0])
        if c["flags"] & 0x0800:
            tags.add("scaled-offset")
        if c["flags"] & 0x1000:
            tags.add("unscaled-offset")
    if instr is not None:
        tags.add("instructions")
    return "+".join(sorted(tags))


def f2dot14(v):
    return int(round(v * 16384))


class GlyfCompositeUnit(Unit):
    name = "glyf-composite"
    rule = ("composite glyphs over fixed base glyphs (4-point, 2-contour, 260-point): (xy-transform) offsets {-129,-128,0,127,128}^2 x "
            "every transform none / scale / x-y scale / 2x2 over F2Dot14 edge values {-2,-1,0.5,1,1.99994} (2x2 off-diagonals also 0, one "
            "at a time; quick: 2x2 on the offset diagonal only); (flags) all 16 subsets of USE_MY_METRICS/ROUND_XY_TO_GRID/OVERLAP_COMPOUND/NON_OVERLAPPING x offset mode "
            "default/SCALED/UNSCALED x instructions x 4 transforms x 3 offsets; (anchors) point-matching args (0,0),(2,3),(3,1),"
            "(255,255),(256,0),(0,256),(259,259); (multi) 3 components in all byte/word/transform orders; oracle: reloaded "
            "components == input, struct reader decodes the same flags/glyph ids/args/F2Dot14 matrices, HarfBuzz draws the outline "
            "obtained by flattening per the glyf spec; distinct = each composite")
    required_witnesses = ("byte xy args", "word xy args", "byte point args", "word point args", "WE_HAVE_A_SCALE", "WE_HAVE_AN_X_AND_Y_SCALE",
                          "WE_HAVE_A_TWO_BY_TWO", "WE_HAVE_INSTRUCTIONS", "MORE_COMPONENTS", "USE_MY_METRICS", "SCALED_COMPONENT_OFFSET",
                          "UNSCALED_COMPONENT_OFFSET", "F2Dot14 -2.0", "F2Dot14 1.99994")
    chunk = 3
    BATCH = 40

    def families(self):
        return ["xy-transform", "flags", "anchors", "multi"]

    def bounds(self, tier, seed):
        return {f: comp_family_size(f, tier) for f in self.families()}

    def cases(self, tier, seed):
        for fam in self.families():
            size = comp_family_size(fam, tier)
            for s in range(0, size, self.BATCH):
                yield [fam, s, min(self.BATCH, size - s), tier]

    def check(self, case, rec):
        fam, start, count, tier = case
        items = [(idx,) + comp_item(fam, idx, tier) for idx in range(start, start + count)]
        rec.evals(count - 1)
        rec.nontrivial_n(count)
        names = [".notdef", "b1", "b2", "big"] + ["c%d" % it[0] for it in items]
        glyphs = {".notdef": G.Glyph()}
        for bn, (pts, ends) in BASES.items():
            glyphs[bn] = make_simple(pts, ends, b"")
        for idx, comps, instr in items:
            glyphs["c%d" % idx] = make_composite(comps, instr)
        try:
            data = save_bytes(build_font(names, glyphs))
        except Exception as e:
            if count > 1:
                for idx in range(start, start + count):
                    self.check([fam, idx, 1, tier], rec)
                    rec.evaluations -= 1
                return
            rec.violation("glyf-composite:compile-raises:%s:%s" % (type(e).__name__, comp_class(items[0][1], items[0][2])),
                          "building/saving raised %s: %s; components %r" % (type(e).__name__, e, items[0][1]))
            return
        font2 = TTFont(io.BytesIO(data))
        glyf2 = font2["glyf"]
        order2 = font2.getGlyphOrder()
        try:
            fmt, offs, blobs, _gl = read_glyf(data)
        except R.ReadError as e:
            rec.violation("glyf-composite:reader:container", "independent reader: %s" % e)
            return
        hb = hbridge.HBFont(data)
        gid_of = {n: i for i, n in enumerate(names)}
        for gi, (idx, comps, instr) in enumerate(items, start=4):
            cls = comp_class(comps, instr)
            one = [fam, idx, 1, tier]
            g2 = glyf2[order2[gi]]
            # (1) object model
            ok = g2.numberOfContours == -1 and len(getattr(g2, "components", ())) == len(comps)
            if ok:
                for c, k in zip(comps, g2.components):
                    d = dict(k.__dict__)
                    want = {"glyphName": order2[gid_of[c["base"]]], "flags": c["flags"]}
                    if "xy" in c:
                        want["x"], want["y"] = c["xy"]
                    else:
                        want["firstPt"], want["secondPt"] = c["pts"]
                    if c["t"] is not None:
                        want["transform"] = t_matrix(c["t"])
                    if d != want:
                        ok = False
                prog = getattr(g2, "program", None)
                if (instr is None) != (prog is None) or (prog is not None and prog.getBytecode() != instr):
                    ok = False
            if not ok:
                rec.violation("glyf-composite:decompile:" + cls, "reloaded composite differs: %r" % ([k.__dict__ for k in getattr(g2, "components", [])],),
                              case=one, expected=comps)
            # (2) struct reader
            try:
                rg = R.glyph(blobs[gi])
            except R.ReadError as e:
                rec.violation("glyf-composite:reader:" + cls, "independent reader: %s" % e, case=one)
                continue
            bad = rg["kind"] != "composite" or len(rg["components"]) != len(comps) or rg["instructions"] != instr
            if not bad:
                for ci, (c, r) in enumerate(zip(comps, rg["components"])):
                    keep = r["flags"] & (0x0004 | 0x0200 | 0x0400 | 0x0010 | 0x0800 | 0x1000)
                    if keep != c["flags"] or r["gid"] != gid_of[c["base"]]:
                        bad = True
                    if "xy" in c:
                        if (r.get("x"), r.get("y")) != tuple(c["xy"]) or not r["flags"] & 0x0002:
                            bad = True
                    elif (r.get("pt1"), r.get("pt2")) != tuple(c["pts"]) or r["flags"] & 0x0002:
                        bad = True
                    m = t_matrix(c["t"])
                    wantm = None if m is None else (f2dot14(m[0][0]), f2dot14(m[0][1]), f2dot14(m[1][0]), f2dot14(m[1][1]))
                    if r.get("m") != wantm:
                        bad = True
                    if bool(r["flags"] & 0x0020) != (ci < len(comps) - 1):
                        bad = True
                    self.witness(r, rec)
            if bad:
                rec.violation("glyf-composite:reader:" + cls, "independent reader decodes other content: %r" % (rg.get("components"),), case=one, expected=comps)
                continue
            # (3) HarfBuzz
            pts, ends = ref_flatten(comps)
            msg = geom.contours_close(ref_outline(pts, ends), hb.outline(gi), 0.02)
            if msg:
                rec.violation("glyf-composite:harfbuzz:" + cls, "HarfBuzz outline differs from the flattened components: %s" % msg, case=one, expected=comps)

    def witness(self, r, rec):
        fl = r["flags"]
        xy = bool(fl & 2)
        word = bool(fl & 1)
        rec.witness(("word " if word else "byte ") + ("xy args" if xy else "point args"))
        for bit, nm in ((0x0008, "WE_HAVE_A_SCALE"), (0x0040, "WE_HAVE_AN_X_AND_Y_SCALE"), (0x0080, "WE_HAVE_A_TWO_BY_TWO"),
                        (0x0100, "WE_HAVE_INSTRUCTIONS"), (0x0020, "MORE_COMPONENTS"), (0x0200, "USE_MY_METRICS"),
                        (0x0800, "SCALED_COMPONENT_OFFSET"), (0x1000, "UNSCALED_COMPONENT_OFFSET")):
            if fl & bit:
                rec.witness(nm)
        if r.get("m"):
            if -32768 in r["m"]:
                rec.witness("F2Dot14 -2.0")
            if 32767 in r["m"]:
                rec.witness("F2Dot14 1.99994")


# ---------------------------------------------------------------------------------------------
# glyf padding / loca short-long decision
TRI = [(0, 0, 1), (400, 0, 1), (200, 300, 1)]


def one_point_glyph(length):
    """A simple glyph whose unpadded compiled length is exactly `length` (>= 15): one on-curve
    point at the origin (10 header + 2 endPts + 2 instructionLength + 1 flag) + instructions."""
    return make_simple([(0, 0, 1)], [0], b"\x4f" * (length - 15))


class LocaUnit(Unit):
    name = "glyf-loca"
    rule = ("whole glyf tables: total unpadded size 0x20000+d for d in -6..+3 and small tables (sizes 0, 1 glyph, odd), with 0..3 "
            "odd-length glyphs, x glyf.padding in {0,1,2,4}; glyph list = empty .notdef, fillers carrying instructions, a triangle "
            "last (highest offset); oracle: reloaded glyphs == input, struct reader: loca offsets monotone, short format only if "
            "every offset is even and < 0x20000, every glyph record decodes to its input with only zero padding behind it, "
            "HarfBuzz draws the triangle; distinct = each (sizes, padding)")
    required_witnesses = ("short loca", "long loca", "long loca because of odd offset", "glyphs padded to fit short loca", "size >= 0x20000",
                          "padding 4 applied", "all glyphs empty")
    chunk = 6

    def cases(self, tier, seed):
        for pad in (0, 1, 2, 4):
            yield ["empty", 0, 0, pad]
            for total in (15, 16, 33, 0x1FFF):
                for nodd in (0, 1, 2):
                    yield ["small", total, nodd, pad]
            for d in range(-6, 4):
                for nodd in (0, 1, 2, 3):
                    yield ["edge", 0x20000 + d, nodd, pad]

    def plan(self, kind, total, nodd):
        """glyph lengths (unpadded) summing to `total` with `nodd` odd ones; triangle excluded."""
        if kind == "empty":
            return []
        tri = 10 + 2 + 2 + 3 + 5  # header, endPts, instructionLength, 3 flags, 3 x-bytes + 2 y-bytes
        rest = total - tri - 17 * nodd
        if rest < 0 or 0 < rest < 15:
            return None
        lens = [17] * nodd
        while rest > 0:
            n = min(rest, 32000)
            if 0 < rest - n < 15:
                n -= 15
            if n % 2 and rest - n >= 16:
                n -= 1  # keep fillers even; the last one absorbs the parity of the total
            lens.append(n)
            rest -= n
        return lens

    def check(self, case, rec):
        kind, total, nodd, pad = case
        lens = self.plan(kind, total, nodd)
        if lens is None:
            rec.count("unplannable size")
            return
        rec.nontrivial()
        names = [".notdef"] + ["f%d" % i for i in range(len(lens))]
        glyphs = {".notdef": G.Glyph()}
        for i, ln in enumerate(lens):
            glyphs["f%d" % i] = one_point_glyph(ln)
        if kind != "empty":
            names.append("tri")
            glyphs["tri"] = make_simple(TRI, [2], b"")
        else:
            names.append("e2")
            glyphs["e2"] = G.Glyph()
        font = build_font(names, glyphs, padding=pad)
        data = save_bytes(font)
        font2 = TTFont(io.BytesIO(data))
        glyf2 = font2["glyf"]
        order2 = font2.getGlyphOrder()
        cls = "%s:pad%d" % (kind, pad)
        try:
            fmt, offs, blobs, glyf_len = read_glyf(data)
        except R.ReadError as e:
            rec.violation("glyf-loca:reader:" + cls, "independent reader: %s" % e)
            return
        unpadded = []
        for gi, n in enumerate(names):
            g2 = glyf2[order2[gi]]
            src = glyphs[n]
            if src.numberOfContours == 0:
                if g2.numberOfContours != 0 or blobs[gi].strip(b"\0"):
                    rec.violation("glyf-loca:decompile:" + cls, "empty glyph %s came back non-empty" % n)
                unpadded.append(0)
                continue
            want = (list(src.coordinates), list(src.flags), list(src.endPtsOfContours), src.program.getBytecode())
            got = (list(g2.coordinates), list(g2.flags), list(g2.endPtsOfContours), g2.program.getBytecode()) if g2.numberOfContours > 0 else None
            if got != want:
                rec.violation("glyf-loca:decompile:" + cls, "glyph %s differs after reload" % n)
            try:
                rg = R.glyph(blobs[gi])
            except R.ReadError as e:
                rec.violation("glyf-loca:reader:" + cls, "glyph %s: %s" % (n, e))
                continue
            if rg["kind"] != "simple" or [(x, y) for x, y, _f in rg["points"]] != want[0] or rg["instructions"] != want[3]:
                rec.violation("glyf-loca:reader:" + cls, "glyph %s decodes to other content" % n)
            tail = blobs[gi][rg["used"]:]
            if tail.strip(b"\0") or len(tail) > 3:
                rec.violation("glyf-loca:reader:padding:" + cls, "glyph %s followed by %d bytes %r" % (n, len(tail), tail[:8]))
            unpadded.append(rg["used"])
        if kind != "empty" and sum(unpadded) != total:
            raise AssertionError("size plan wrong: %d != %d" % (sum(unpadded), total))
        # loca format validity (independent of how the choice was made)
        if fmt == 0:
            rec.witness("short loca")
            if any(o % 2 for o in offs) or offs[-1] >= 0x20000:
                rec.violation("glyf-loca:short-format-invalid:" + cls, "short loca with offsets %r..." % (offs[:6],))
            if any(u % 2 for u in unpadded):
                rec.witness("glyphs padded to fit short loca")
        elif fmt == 1:
            rec.witness("long loca")
            if offs[-1] < 0x20000:
                rec.witness("long loca because of odd offset")
        else:
            rec.violation("glyf-loca:indexToLocFormat", "indexToLocFormat %r" % fmt)
        if offs[-1] >= 0x20000:
            rec.witness("size >= 0x20000")
        if pad in (2, 4) and any(o % pad for o in offs):
            rec.violation("glyf-loca:padding-not-applied:" + cls, "padding=%d but offsets %r" % (pad, [o for o in offs if o % pad][:4]))
        if pad == 4 and any(u % 4 for u in unpadded):
            rec.witness("padding 4 applied")
        if pad == 0 and fmt == 1 and offs != [sum(unpadded[:i]) for i in range(len(unpadded) + 1)]:
            rec.violation("glyf-loca:padding0-padded:" + cls, "padding=0 but glyphs were padded")
        if kind == "empty":
            rec.witness("all glyphs empty")
            if glyf_len < 1:
                rec.violation("glyf-loca:empty-table", "glyf table of length 0 (the writer promises a 1-byte table)")
            return
        hb = hbridge.HBFont(data)
        msg = geom.contours_close(ref_outline(TRI, [2]), hb.outline(len(names) - 1), 0.01)
        if msg:
            rec.violation("glyf-loca:harfbuzz:" + cls, "HarfBuzz cannot draw the last glyph: %s" % msg)


# =============================================================================================
# name
# =============================================================================================
from fontTools.ttLib.tables._n_a_m_e import makeName

# (platformID, encodingID, languageID) -> codec, written from the OpenType 'name' chapter and the
# Apple script/language codes; the *_cjk mac scripts are compared through their base codec only
# for characters outside the Apple-specific single-byte extensions.
NAME_TRIPLES = (
    [((0, e, 0), "utf-16-be") for e in range(7)]
    + [((1, 0, 0), "mac_roman"), ((1, 0, 12), "mac_roman"), ((1, 0, 15), "mac_iceland"), ((1, 0, 17), "mac_turkish"), ((1, 0, 18), "mac_croatian"),
       ((1, 0, 24), "mac_latin2"), ((1, 0, 36), "mac_latin2"), ((1, 0, 37), "mac_romanian"), ((1, 0, 40), "mac_latin2"), ((1, 0, 41), "mac_roman"),
       ((1, 1, 11), "shift_jis"), ((1, 2, 19), "big5"), ((1, 3, 23), "euc_kr"), ((1, 6, 14), "mac_greek"), ((1, 7, 32), "mac_cyrillic"),
       ((1, 25, 33), "gb2312"), ((1, 29, 38), "mac_latin2"), ((1, 35, 17), "mac_turkish"), ((1, 37, 15), "mac_iceland")]
    + [((2, 0, 0), "ascii"), ((2, 1, 0), "utf-16-be"), ((2, 2, 0), "latin-1")]
    + [((3, 0, 0x409), "utf-16-be"), ((3, 1, 0x409), "utf-16-be"), ((3, 1, 0x411), "utf-16-be"), ((3, 10, 0x409), "utf-16-be"),
       ((3, 2, 0x411), "shift_jis"), ((3, 3, 0x804), "gb2312"), ((3, 4, 0x404), "big5"), ((3, 5, 0x412), "euc_kr"), ((3, 6, 0x412), "johab")]
)
NAME_STRINGS = ("", "Abc", "A b-c_1", "Àé", "ÿ", "Ωα", "Жя", "日本", "한", "Šž", "şğ",
                "\U0001F600", "A\U0001D538b", "€")
NAME_POOL = [
    ("Abc", 1, (3, 1, 0x409)), ("Abc", 2, (3, 1, 0x409)), ("Abd", 1, (3, 1, 0x407)), ("Abc", 1, (1, 0, 0)), ("Àé", 4, (1, 0, 0)),
    ("Àé", 4, (3, 1, 0x409)), ("", 3, (3, 1, 0x409)), ("\U0001F600", 5, (3, 10, 0x409)), ("日本", 1, (3, 2, 0x411)),
    ("日本", 1, (1, 1, 11)), ("Abc", 256, (0, 3, 0)), ("Abc", 1, (0, 4, 0)), ("bc", 6, (3, 1, 0x409)), ("Abc", 65535, (3, 1, 0xFFFF)),
]


class _NameCodecs(dict):
    """triple -> reference codec; languages other than the listed Mac overrides do not matter"""

    def __init__(self):
        dict.__init__(self, NAME_TRIPLES)
        self.by_pe = {}
        for (p_, e_, _l), c in NAME_TRIPLES:
            if (p_, e_) != (1, 0):
                self.by_pe[(p_, e_)] = c

    def __missing__(self, tr):
        return self.by_pe[tr[:2]]


class NameUnit(Unit):
    name = "name"
    rule = ("name tables: (single) every (platform, encoding, language) of the library's encoding map (45 triples incl. all Mac "
            "language overrides and CJK code pages) x strings {empty, ASCII, Latin-1, Greek, Cyrillic, CJK, Hangul, Latin-2, Turkish, "
            "astral, mixed, euro}; (pairs/triples) every ordered pair and every 3-subset (both orders) of a 14-record pool with "
            "shared strings, equal ids on different platforms, nameID 65535; oracle: decompiled records' toUnicode() == input per "
            "key, struct reader finds the records sorted by (platform, encoding, language, nameID) with bytes that decode to the "
            "string under Python's own codec for that triple; strings the codec cannot encode must raise UnicodeEncodeError "
            "(outside domain); distinct = each record list")
    required_witnesses = ("utf-16 astral (surrogate pair)", "single-byte mac codec", "double-byte codec", "empty string", "unencodable (outside domain)",
                          "records re-sorted", "shared string storage", "latin-1")
    chunk = 40

    def cases(self, tier, seed):
        for ti in range(len(NAME_TRIPLES)):
            for si in range(len(NAME_STRINGS)):
                yield ["single", ti, si]
        n = len(NAME_POOL)
        for a in range(n):
            for b in range(n):
                if a != b:
                    yield ["pool", [a, b]]
        for c in itertools.combinations(range(n), 3):
            yield ["pool", list(c)]
            yield ["pool", list(reversed(c))]

    def check(self, case, rec):
        if case[0] == "single":
            triple, codec = NAME_TRIPLES[case[1]]
            recs = [(NAME_STRINGS[case[2]], 1, triple)]
        else:
            recs = [NAME_POOL[i] for i in case[1]]
        codec_of = _NameCodecs()
        rec.nontrivial()
        table = newTable("name")
        table.names = [makeName(s_, nid, *tr) for s_, nid, tr in recs]
        exp = {}
        for s_, nid, tr in recs:
            exp[tr + (nid,)] = s_
        # what the reference codec says
        refbytes = {}
        unenc = False
        for s_, nid, tr in recs:
            try:
                refbytes[tr + (nid,)] = s_.encode(codec_of[tr])
            except UnicodeEncodeError:
                unenc = True
        cls = "+".join(sorted({codec_of[tr] for _s, _n, tr in recs}))
        try:
            data = table.compile(None)
        except UnicodeEncodeError:
            if unenc:
                rec.witness("unencodable (outside domain)")
                rec.count("outside-domain:unencodable string")
                return
            rec.violation("name:compile-raises:UnicodeEncodeError:" + cls, "compile raised UnicodeEncodeError although %r encodes in %s" % (recs, cls))
            return
        t2 = newTable("name")
        t2.decompile(data, None)
        got = {}
        for r_ in t2.names:
            key = (r_.platformID, r_.platEncID, r_.langID, r_.nameID)
            try:
                got[key] = r_.toUnicode()
            except UnicodeDecodeError as e:
                got[key] = "<undecodable: %s>" % e
        if got != exp or len(t2.names) != len(recs):
            rec.violation("name:decompile:" + cls, "decompiled strings %r, expected %r" % (got, exp))
        try:
            _f, rr = R.name(data)
        except R.ReadError as e:
            rec.violation("name:reader:" + cls, "independent reader: %s" % e)
            return
        keys = [r_[:4] for r_ in rr]
        if keys != sorted(keys):
            rec.violation("name:records-unsorted", "name records not sorted: %r" % (keys,))
        if keys != [tr + (nid,) for _s, nid, tr in recs]:
            rec.witness("records re-sorted")
        if sorted(keys) != sorted(exp):
            rec.violation("name:reader:keys:" + cls, "record keys %r, expected %r" % (keys, sorted(exp)))
            return
        for pid, eid, lid, nid, raw in rr:
            key = (pid, eid, lid, nid)
            if key in refbytes:
                if raw != refbytes[key]:
                    rec.violation("name:reader:bytes:" + codec_of[key[:3]], "stored bytes %s, the %s codec gives %s for %r" % (raw.hex(), codec_of[key[:3]], refbytes[key].hex(), exp[key]))
            else:
                rec.count("encoded only by the library's extended codec")
            c = codec_of[key[:3]]
            if c == "utf-16-be" and any(ord(ch) > 0xFFFF for ch in exp[key]):
                rec.witness("utf-16 astral (surrogate pair)")
            if c.startswith("mac_") and exp[key]:
                rec.witness("single-byte mac codec")
            if c in ("shift_jis", "big5", "euc_kr", "gb2312", "johab") and any(ord(ch) > 0x7F for ch in exp[key]):
                rec.witness("double-byte codec")
            if c == "latin-1" and exp[key]:
                rec.witness("latin-1")
            if exp[key] == "":
                rec.witness("empty string")
        if len(recs) > 1:
            so = 6 + 12 * len(rr)
            spans = [struct.unpack_from(">HH", data, 6 + 12 * i + 8) for i in range(len(rr))]
            if len(set(spans)) < len(spans) and len(data) - so < sum(ln for ln, _o in spans):
                rec.witness("shared string storage")


# =============================================================================================
# kern (format 0)
# =============================================================================================
from fontTools.ttLib.tables._k_e_r_n import KernTable_format_0

KERN_UNIVERSE = [(1, 2), (2, 1), (1, 1), (3, 1), (0, 2), (2, 3)]
KERN_VALUES = (-32768, -1, 0, 1, 32767, -40)


def _kern_font(n):
    key = ("kernfont", n)
    f = _FIX.get(key)
    if f is None:
        f = TTFont()
        f.setGlyphOrder([gname(i) for i in range(n)])
        f.getReverseGlyphMap()
        _FIX[key] = f
    return f


def _kern_sub(pairs, apple, coverage=1, tuple_index=0):
    st = KernTable_format_0(apple)
    st.coverage = coverage
    st.tupleIndex = tuple_index if apple else None
    st.kernTable = {(gname(l), gname(r)): v for (l, r), v in pairs.items()}
    return st


class KernUnit(Unit):
    name = "kern"
    rule = ("kern format 0: every subset of a 6-pair universe over glyphs {0..3} x 6 value assignments rotating through "
            "{-32768,-1,0,1,32767,-40}, in Microsoft (version 0) and Apple (version 1.0, tupleIndex) headers, one and two subtables, "
            "coverage bytes {1,3,0x81 (apple 0x80)}; large families nPairs in {10919..10922} (uint16 length overflow at 10921) and "
            "{16383,16384,16385} (searchRange overflow), thorough: 65535; oracle: decompiled pair dict == input, struct reader sees "
            "the same pairs sorted by (left,right) with the spec's searchRange/entrySelector/rangeShift (where they fit uint16), HarfBuzz applies "
            "the pair value when shaping; distinct = each kern table")
    required_witnesses = ("empty pair set", "value -32768", "value 32767", "two subtables", "apple header", "length field overflow (> 10920 pairs)",
                          "searchRange overflow (>= 16384 pairs)", "pairs re-sorted")
    chunk = 24

    def setup(self, tier, seed):
        _kern_font(8)
        _kern_font(300)
        base_tables()

    def cases(self, tier, seed):
        for bits in range(64):
            for rot in range(6):
                if bits == 0 and rot:
                    continue
                yield ["set", bits, rot, 0]
        for bits in (0, 1, 5, 63):
            for rot in (0, 3):
                yield ["set", bits, rot, 1]  # apple
        for a in (0, 1, 21, 63):
            for b in (0, 6, 63):
                for apple in (0, 1):
                    yield ["two", a, b, apple]
        for cov in (3, 0x81, 0x80):
            yield ["cov", 21, cov, 1 if cov == 0x80 else 0]
        bigs = [10919, 10920, 10921, 10922, 16383, 16384, 16385]
        if tier != "quick":
            bigs.append(65535)
        for n in bigs:
            yield ["big", n, 0, 0]
        yield ["big", 10921, 0, 1]

    def pairs_of(self, bits, rot):
        out = {}
        k = 0
        for i, pr in enumerate(KERN_UNIVERSE):
            if bits >> i & 1:
                out[pr] = KERN_VALUES[(k + rot) % 6]
                k += 1
        # insertion order deliberately not sorted
        return dict(reversed(list(out.items())))

    def check(self, case, rec):
        kind = case[0]
        apple = bool(case[3])
        nglyphs = 8
        if kind == "set":
            subs = [self.pairs_of(case[1], case[2])]
            covs = [1]
        elif kind == "two":
            subs = [self.pairs_of(case[1], 0), self.pairs_of(case[2], 2)]
            covs = [1, 1]
        elif kind == "cov":
            subs = [self.pairs_of(case[1], 1)]
            covs = [case[2]]
        else:
            n = case[1]
            nglyphs = 300
            subs = [{(1 + i // 256, i % 256): ((i * 37) % 2001) - 1000 for i in range(n)}]
            covs = [1]
        font = _kern_font(nglyphs)
        rec.nontrivial()
        table = newTable("kern")
        table.version = 1.0 if apple else 0
        table.kernTables = [_kern_sub(pr, apple, c, tuple_index=i) for i, (pr, c) in enumerate(zip(subs, covs))]
        cls = "%s:%s" % ("apple" if apple else "ms", kind if kind != "big" else "big%d" % case[1])
        data = table.compile(font)
        t2 = newTable("kern")
        t2.decompile(data, font)
        if t2.version != table.version or len(t2.kernTables) != len(subs):
            rec.violation("kern:decompile:header:" + cls, "version %r, %d subtables" % (t2.version, len(t2.kernTables)))
        for i, (pr, c) in enumerate(zip(subs, covs)):
            if i >= len(t2.kernTables):
                break
            st = t2.kernTables[i]
            want = {(gname(l), gname(r)): v for (l, r), v in pr.items()}
            if getattr(st, "kernTable", None) != want or st.coverage != c or (apple and st.tupleIndex != i):
                got = getattr(st, "kernTable", {})
                rec.violation("kern:decompile:" + cls, "subtable %d: %s; coverage %r tupleIndex %r" % (i, dict_diff(want, got), st.coverage, getattr(st, "tupleIndex", None)))
        try:
            ver, rsubs = R.kern(data)
        except R.ReadError as e:
            rec.violation("kern:reader:" + cls, "independent reader: %s" % e)
            return
        if ver != (1 if apple else 0) or len(rsubs) != len(subs):
            rec.violation("kern:reader:header:" + cls, "version %r, %d subtables" % (ver, len(rsubs)))
            return
        for i, (pr, c, rs) in enumerate(zip(subs, covs, rsubs)):
            want = sorted((l, r, v) for (l, r), v in pr.items())
            if rs["format"] != 0 or rs["coverage"] != c or rs.get("pairs") != want:
                rec.violation("kern:reader:" + cls, "subtable %d: format %r coverage %r, %d pairs (expected %d), first %r" % (
                    i, rs["format"], rs["coverage"], len(rs.get("pairs", ())), len(want), rs.get("pairs", [])[:3]))
                continue
            n = len(want)
            sf = R.search_fields(n, 6)
            if n and max(sf) > 0xFFFF:
                rec.count("search fields exceed uint16 (unspecified, not compared)")
            elif n and rs["search"] != sf:
                rec.violation("kern:reader:search-fields:" + cls, "searchRange/entrySelector/rangeShift %r, spec %r" % (rs["search"], sf))
            if apple and rs["tupleIndex"] != i:
                rec.violation("kern:reader:tupleIndex", "tupleIndex %r" % rs["tupleIndex"])
            if not apple and n <= 10920 and rs["length"] != 14 + 6 * n:
                rec.violation("kern:reader:length:" + cls, "length field %d for %d pairs" % (rs["length"], n))
            if n == 0:
                rec.witness("empty pair set")
            if n > 10920 and not apple:
                rec.witness("length field overflow (> 10920 pairs)")
            if n >= 16384:
                rec.witness("searchRange overflow (>= 16384 pairs)")
            if [(l, r) for l, r, _v in want] != list(pr):
                rec.witness("pairs re-sorted")
            if any(v == -32768 for _l, _r, v in want):
                rec.witness("value -32768")
            if any(v == 32767 for _l, _r, v in want):
                rec.witness("value 32767")
        if len(subs) == 2:
            rec.witness("two subtables")
        if apple:
            rec.witness("apple header")
        # HarfBuzz: shaping two glyphs applies the pair value of a horizontal, non-cross-stream table
        if nglyphs == 8 and all(c == 1 for c in covs):
            base = dict(base_tables())
            base["kern"] = data
            maxp = bytearray(base["maxp"])
            hb = hbridge.HBFont(R.sfnt_build(base))
            ng = R.u16(bytes(maxp), 4)
            merged = {}
            for pr in subs:
                for k, v in pr.items():
                    merged[k] = merged.get(k, 0) + v
            for (l, r), v in merged.items():
                if l >= ng or r >= ng or l == 0 or r == 0:
                    continue
                adv = hb.h_advance(l) + hb.h_advance(r)
                res = hb.shape(gids=[l, r], features={"kern": True})
                # HarfBuzz splits the value over the two advances; the pair's total advance carries all of it
                tot = sum(x[2] for x in res) - adv
                if len(res) != 2 or tot != v:
                    rec.violation("kern:harfbuzz:" + cls, "HarfBuzz kerning of (%d,%d) = %r, expected %d" % (l, r, tot, v))
                    break


# =============================================================================================
# post, OS/2
# =============================================================================================
# first entries of the Macintosh standard glyph order ('post' format 1), from the spec
STD_HEAD = [".notdef", ".null", "nonmarkingreturn", "space", "exclam", "quotedbl", "numbersign", "dollar", "percent", "ampersand"]
POST_HEADERS = (
    dict(italicAngle=0.0, underlinePosition=0, underlineThickness=0, isFixedPitch=0, minMemType42=0, maxMemType42=0, minMemType1=0, maxMemType1=0),
    dict(italicAngle=-12.5, underlinePosition=-32768, underlineThickness=32767, isFixedPitch=1, minMemType42=0xFFFFFFFF, maxMemType42=1, minMemType1=0x80000000, maxMemType1=0x7FFFFFFF),
    dict(italicAngle=-32768.0, underlinePosition=32767, underlineThickness=-32768, isFixedPitch=0xFFFFFFFF, minMemType42=2, maxMemType42=0xFFFFFFFF, minMemType1=3, maxMemType1=0xFFFFFFFF),
    dict(italicAngle=32767 + 65535 / 65536, underlinePosition=-1, underlineThickness=1, isFixedPitch=0, minMemType42=0, maxMemType42=0, minMemType1=0, maxMemType1=0),
)
# (glyph order, mapping glyphName -> psName, stale extraNames)
POST2_NAMES = (
    ([".notdef"], {}, []),
    ([".notdef", "space", "exclam"], {}, []),
    ([".notdef", "foo", "bar.alt", "a_b_c"], {}, []),
    ([".notdef", "exclam", "foo", "space", "foo2", ".null"], {}, []),
    ([".notdef", "A", "A.1", "A.2"], {"A.1": "A", "A.2": "A"}, []),
    ([".notdef", "foo", "foo.alt", "space.dup"], {"foo.alt": "foo", "space.dup": "space"}, []),
    ([".notdef", "foo", "bar"], {}, ["unused", "bar", "space"]),
    ([".notdef", "x" * 63, "y" * 255, "z"], {}, []),
    ([".notdef"] + ["n%03d" % i for i in range(300)], {}, []),
    ([".notdef", "b", "a", "c"], {"c": "a"}, ["a"]),
)
POST4_NAMES = ([".notdef", "A", "uni4E00", "foo", "space", "uniFFFE", "a#1"], [0xFFFF, 0x41, 0x4E00, 0xFFFF, 0x20, 0xFFFE, 0x61])


def std_names():
    n = _FIX.get("std")
    if n is None:
        from fontTools.ttLib.standardGlyphOrder import standardGlyphOrder

        n = list(standardGlyphOrder)
        assert len(n) == 258 and n[:10] == STD_HEAD and n[257] == "dcroat", "standard glyph order is not the spec's"
        _FIX["std"] = n
    return n


def _order_font(order):
    f = TTFont()
    f.setGlyphOrder(list(order))
    f["maxp"] = newTable("maxp")
    f["maxp"].numGlyphs = len(order)
    return f


class PostUnit(Unit):
    name = "post"
    rule = ("post formats 1 (1, 3, 258 glyphs), 2 (10 name lists: standard / custom / standard out of order / duplicate PostScript "
            "names through the mapping / stale extraNames / 63- and 255-byte names / 300 names), 3, 4 (AGL, uniXXXX, unencodable "
            "names) x 4 header value sets at the field limits; oracle: header fields and per-glyph PostScript names after decompile "
            "== input, struct reader reads the same header and the same name (format 2: index < 258 from the Macintosh order, else "
            "Pascal string) for every glyph id; distinct = each (format, header, names)")
    required_witnesses = ("format 1", "format 2 custom name", "format 2 standard index", "format 2 duplicate names", "format 3", "format 4", "255-byte name")
    chunk = 6

    def setup(self, tier, seed):
        std_names()

    def cases(self, tier, seed):
        for h in range(len(POST_HEADERS)):
            for n in (1, 3, 258):
                yield [1, h, n]
            for k in range(len(POST2_NAMES)):
                yield [2, h, k]
            yield [3, h, 0]
            yield [4, h, 0]

    def check(self, case, rec):
        fmt, h, k = case
        std = std_names()
        hdr = POST_HEADERS[h]
        mapping, extra = {}, []
        if fmt == 1:
            order = std[:k]
        elif fmt == 2:
            order, mapping, extra = POST2_NAMES[k]
        elif fmt == 3:
            order = [".notdef", "a", "b"]
        else:
            order = POST4_NAMES[0]
        font = _order_font(order)
        t = newTable("post")
        t.formatType = float(fmt)
        for a, v in hdr.items():
            setattr(t, a, v)
        if fmt == 2:
            t.mapping = dict(mapping)
            t.extraNames = list(extra)
        rec.nontrivial()
        cls = "format%d" % fmt
        data = t.compile(font)
        t2 = newTable("post")
        t2.decompile(data, font)
        for a, v in hdr.items():
            if getattr(t2, a) != v:
                rec.violation("post:decompile:header:" + a, "%s = %r, expected %r" % (a, getattr(t2, a), v))
        if t2.formatType != float(fmt):
            rec.violation("post:decompile:formatType", "formatType %r" % t2.formatType)
        ps = [mapping.get(n, n) for n in order]
        if fmt in (1, 2):
            got = [getattr(t2, "mapping", {}).get(n, n) for n in t2.glyphOrder]
            if got != ps:
                rec.violation("post:decompile:names:" + cls, "PostScript names %r, expected %r" % (got[:8], ps[:8]))
            if len(set(t2.glyphOrder)) != len(order):
                rec.violation("post:decompile:glyph-names-not-unique:" + cls, "glyph order %r" % (t2.glyphOrder[:8],))
        elif fmt == 3:
            if t2.glyphOrder is not None:
                rec.violation("post:decompile:format3", "glyphOrder %r" % (t2.glyphOrder,))
        else:
            got = [getattr(t2, "mapping", {}).get(n, n) for n in t2.glyphOrder]
            want = {1: "A", 2: "uni4E00", 4: "space", 5: "uniFFFE", 6: "a"}
            for i, nm in want.items():
                if got[i] != nm:
                    rec.violation("post:decompile:names:format4", "glyph %d reads back as %r, expected %r" % (i, got[i], nm))
        try:
            rh, rn = R.post(data, len(order), std)
        except R.ReadError as e:
            rec.violation("post:reader:" + cls, "independent reader: %s" % e)
            return
        want_hdr = dict(hdr)
        want_hdr["italicAngle"] = int(round(hdr["italicAngle"] * 65536))
        for a, v in want_hdr.items():
            if rh[a] != v:
                rec.violation("post:reader:header:" + a, "%s = %r, expected %r" % (a, rh[a], v))
        if rh["version"] != fmt << 16:
            rec.violation("post:reader:version", "version %#x" % rh["version"])
        if fmt in (1, 2) and rn != ps:
            rec.violation("post:reader:names:" + cls, "names %r, expected %r" % (rn[:8], ps[:8]))
        if fmt == 3 and rn is not None:
            rec.violation("post:reader:names:format3", "names present")
        if fmt == 4 and rn != POST4_NAMES[1]:
            rec.violation("post:reader:names:format4", "codes %r, expected %r" % (rn, POST4_NAMES[1]))
        rec.witness({1: "format 1", 3: "format 3", 4: "format 4"}.get(fmt, "format 2 custom name" if any(n not in std for n in ps) else "format 2 standard index"))
        if fmt == 2:
            if any(n in std for n in ps[1:]):
                rec.witness("format 2 standard index")
            if len(set(ps)) < len(ps):
                rec.witness("format 2 duplicate names")
            if any(len(n) == 255 for n in ps):
                rec.witness("255-byte name")
            if rh.get("numStrings", 0) != len({n for n in ps if n not in std}):
                rec.count("format 2 stores unused or repeated strings")


OS2_LIMITS = {"H": (0, 1, 0xFFFF), "h": (-32768, -1, 32767), "L": (0, 0x80000000, 0xFFFFFFFF)}


def os2_values(version, pattern, fidx):
    """field -> value for one pattern: 'min' / 'mid' / 'max' / 'distinct' / ('one', fidx) = field fidx at max, others distinct."""
    vals = {}
    fields = R.os2_fields(version)
    for i, (nm, c) in enumerate(fields):
        if nm == "version":
            vals[nm] = version
            continue
        if c == "10s":
            b = {"min": bytes(10), "mid": bytes(range(1, 11)), "max": b"\xff" * 10}.get(pattern, bytes((i * 7 + k) % 256 for k in range(10)))
            if pattern == "one" and i == fidx:
                b = b"\xff" * 10
            vals[nm] = b
            continue
        if c == "4s":
            vals[nm] = {"min": "    ", "mid": "ABCD", "max": "~~~~"}.get(pattern, "Ab1 ")
            continue
        lo, mid, hi = OS2_LIMITS[c]
        if pattern in ("min", "mid", "max"):
            v = {"min": lo, "mid": mid, "max": hi}[pattern]
        else:
            v = (i * 257 + 3) if c != "h" else (i * 257 + 3) * (-1) ** i
            if pattern == "one" and i == fidx:
                v = hi
        vals[nm] = v
    return vals


class OS2Unit(Unit):
    name = "OS/2"
    rule = ("OS/2 versions 0..5: all fields at their minimum / a middle value / their maximum / pairwise distinct values, and each "
            "single field at its maximum among distinct others (so that a swapped or truncated field shows), panose and achVendID "
            "included, version 5 optical sizes in twentieths of a point; oracle: every field after decompile == input, struct reader "
            "finds every field at the spec's offset and the spec's table length for the version; distinct = each (version, values)")
    required_witnesses = ("version 0", "version 1", "version 2", "version 3", "version 4", "version 5", "optical size in 1/20 pt")
    chunk = 20

    def cases(self, tier, seed):
        for v in range(6):
            for pat in ("min", "mid", "max", "distinct"):
                yield [v, pat, 0]
            for i in range(1, len(R.os2_fields(v))):
                yield [v, "one", i]

    def check(self, case, rec):
        from fontTools.ttLib.tables.O_S_2f_2 import Panose

        version, pat, fidx = case
        vals = os2_values(version, pat, fidx)
        t = newTable("OS/2")
        pan_names = ["bFamilyType", "bSerifStyle", "bWeight", "bProportion", "bContrast", "bStrokeVariation", "bArmStyle", "bLetterForm", "bMidline", "bXHeight"]
        for nm, v in vals.items():
            if nm == "panose":
                setattr(t, nm, Panose(**dict(zip(pan_names, v))))
            elif nm in ("usLowerOpticalPointSize", "usUpperOpticalPointSize"):
                setattr(t, nm, v / 20)
            else:
                setattr(t, nm, v)
        rec.nontrivial()
        rec.witness("version %d" % version)
        if version == 5:
            rec.witness("optical size in 1/20 pt")
        font = TTFont()
        data = t.compile(font)
        t2 = newTable("OS/2")
        t2.decompile(data, font)
        for nm, v in vals.items():
            g = getattr(t2, nm, None)
            if nm == "panose":
                g = bytes(getattr(g, k) for k in pan_names)
            elif nm in ("usLowerOpticalPointSize", "usUpperOpticalPointSize"):
                v = v / 20
            if g != v:
                rec.violation("OS/2:decompile:" + nm, "version %d: %s = %r, expected %r" % (version, nm, g, v))
        try:
            rd = R.os2(data)
        except R.ReadError as e:
            rec.violation("OS/2:reader:v%d" % version, "independent reader: %s" % e)
            return
        for nm, v in vals.items():
            w = v.encode("latin-1") if isinstance(v, str) else v
            if rd[nm] != w:
                rec.violation("OS/2:reader:" + nm, "version %d: %s = %r at the spec offset, expected %r" % (version, nm, rd[nm], w))


# =============================================================================================
# OpenType Layout pieces: Coverage, ClassDef, SingleSubst, ValueRecord
# =============================================================================================
from fontTools.ttLib.tables import otTables as ot
from fontTools.ttLib.tables.otBase import OTTableWriter, OTTableReader, ValueRecord

OTL_SPREADS = {"dense0": lambda i: i, "dense10": lambda i: 10 + i, "sparse": lambda i: 3 * i + 1, "high": lambda i: 65527 + i}


def otl_compile(t, font):
    w = OTTableWriter()
    t.compile(w, font)
    return w.getAllData()


def otl_decompile(cls, data, font):
    t = cls()
    t.decompile(OTTableReader(data), font)
    return t


def otl_table(tag, lookup_type, subtable):
    """A complete GSUB/GPOS table: script DFLT, feature 'test', one lookup holding `subtable`."""
    root = getattr(ot, tag)()
    root.Version = 0x00010000
    sr = ot.ScriptRecord()
    sr.ScriptTag = "DFLT"
    sr.Script = ot.Script()
    sr.Script.DefaultLangSys = ot.DefaultLangSys()
    sr.Script.DefaultLangSys.LookupOrder = None
    sr.Script.DefaultLangSys.ReqFeatureIndex = 0xFFFF
    sr.Script.DefaultLangSys.FeatureIndex = [0]
    sr.Script.DefaultLangSys.FeatureCount = 1
    sr.Script.LangSysRecord = []
    sr.Script.LangSysCount = 0
    root.ScriptList = ot.ScriptList()
    root.ScriptList.ScriptRecord = [sr]
    root.ScriptList.ScriptCount = 1
    fr = ot.FeatureRecord()
    fr.FeatureTag = "test"
    fr.Feature = ot.Feature()
    fr.Feature.FeatureParams = None
    fr.Feature.LookupListIndex = [0]
    fr.Feature.LookupCount = 1
    root.FeatureList = ot.FeatureList()
    root.FeatureList.FeatureRecord = [fr]
    root.FeatureList.FeatureCount = 1
    lk = ot.Lookup()
    lk.LookupType = lookup_type
    lk.LookupFlag = 0
    lk.SubTable = [subtable]
    lk.SubTableCount = 1
    root.LookupList = ot.LookupList()
    root.LookupList.Lookup = [lk]
    root.LookupList.LookupCount = 1
    t = newTable(tag)
    t.table = root
    return t


def otl_subtable_offset(data, tag):
    ltype, _flag, subs = R.otl_first_subtable(data)
    if len(subs) != 1:
        raise R.ReadError("%d subtables" % len(subs))
    ext = 7 if tag == "GSUB" else 9
    off = subs[0]
    if ltype == ext:
        ltype, off = R.otl_resolve_extension(data, off)
    return ltype, off


def otl_hb_font(tag, data):
    base = dict(base_tables())
    maxp = bytearray(base["maxp"])
    maxp[4:6] = struct.pack(">H", 65535)
    base["maxp"] = bytes(maxp)
    base[tag] = data
    return hbridge.HBFont(R.sfnt_build(base))


VR_NAMES = R.VALUE_FIELDS
VR_INTS = (-3, 7, -32768, 32767)


class OtlUnit(Unit):
    name = "otl-pieces"
    rule = ("Coverage: every subset of glyph ids {0..5} (quick) / {0..7} (thorough) x id spreads (dense from 0, dense from 10, every "
            "third id, top of the id range 65527+) x orders (sorted, reversed, rotated); ClassDef: every class assignment over "
            "{0,1,2} for 6 glyphs x the same spreads; SingleSubst inside a real GSUB: every non-empty subset of inputs "
            "{1,2,3,65533,65534} x outputs by constant delta {+1,-1,+5,+3 (wraps at 65536),-65530} or scattered; SinglePos "
            "format 1 inside a real GPOS: every ValueFormat mask 0..0xFF with limit values and Device (formats 1,2,3) / "
            "VariationIndex tables; oracle: decompiled glyph list / class dict / mapping / value record == input whichever format "
            "the writer chose, struct reader gets the same coverage indices / classes / substitutions / values from the bytes, "
            "HarfBuzz substitutes / positions accordingly; distinct = each input")
    required_witnesses = ("coverage format 1", "coverage format 2", "coverage unsorted input", "classdef format 1", "classdef format 2", "classdef empty",
                          "singlesubst format 1", "singlesubst format 2", "singlesubst delta wraps at 65536", "valuerecord with device table",
                          "valuerecord with VariationIndex", "valuerecord empty format")
    chunk = 60

    def setup(self, tier, seed):
        bigfont()
        base_tables()

    def cases(self, tier, seed):
        nb = 6 if tier == "quick" else 8
        for spread in OTL_SPREADS:
            for bits in range(1 << nb):
                for order in ("sorted", "reversed", "rotated"):
                    if order != "sorted" and bin(bits).count("1") < 2:
                        continue
                    yield ["cov", spread, bits, order]
        for spread in OTL_SPREADS:
            for a in range(3 ** 6):
                yield ["cls", spread, a]
        pool = (1, 2, 3, 65533, 65534)
        for bits in range(1, 32):
            for rule in ("+1", "-1", "+5", "+3", "-65530", "scatter"):
                yield ["ss", bits, rule]
        yield ["ss", 0, "+1"]
        for mask in range(256):
            for variant in range(3):
                yield ["vr", mask, variant]
        # Device tables on their own: every delta format x every count 1..17 (whole and partial last
        # words) x delta patterns, among them an all-zero partial last word
        for fmt in (1, 2, 3):
            for n in range(1, 18):
                for pat in ("zero", "lead", "last-word-zero", "alternating", "limits"):
                    yield ["dev", fmt, n, pat]
        # ItemVariationData rows: region count x word count (0..regions+2) x long-word flag
        for nreg in range(0, 5):
            for words in range(0, nreg + 3):
                for longw in (False, True):
                    yield ["vd", nreg, words, longw]

    def check(self, case, rec):
        getattr(self, "check_" + case[0])(case, rec)

    # ---- VarData rows ----------------------------------------------------------------------
    def check_vd(self, case, rec):
        """an ItemVariationData subtable on its own: region count x word count (NumShorts, also LARGER than
        the region count - the reader tolerates that as padding) x long-word flag; compile -> decompile and
        an independent reading of the row"""
        from fontTools.ttLib.tables.otBase import OTTableWriter, OTTableReader

        _k, nreg, words, longw = case
        rec.nontrivial()
        big = (1 << 20) if longw else 300
        small = 300 if longw else 5
        row = [(big + i if i < min(words, nreg) else small - i) * (-1 if i % 2 else 1) for i in range(nreg)]
        vd = ot.VarData()
        vd.ItemCount, vd.NumShorts, vd.VarRegionCount = 2, words | (0x8000 if longw else 0), nreg
        vd.VarRegionIndex = list(range(nreg))
        vd.Item = [list(row), [0] * nreg]
        font = bigfont()
        w = OTTableWriter()
        try:
            vd.compile(w, font)
            data = w.getAllData()
        except Exception as e:
            rec.violation("vardata:compile:%s" % type(e).__name__, "VarData with %d regions, NumShorts %d, longWords=%s does not compile: %r" % (nreg, words, longw, e))
            return
        if words > nreg:
            rec.witness("VarData with more words than regions")
        bsz, ssz = (4, 2) if longw else (2, 1)
        n1, n2 = min(nreg, words), max(nreg, words)
        rowlen = n1 * bsz + (n2 - n1) * ssz
        exp_len = 6 + 2 * nreg + 2 * rowlen
        if len(data) != exp_len:
            rec.violation("vardata:length", "VarData %d regions, NumShorts %d, longWords=%s: %d bytes, expected %d" % (nreg, words, longw, len(data), exp_len))
            return
        off = 6 + 2 * nreg
        got = []
        for i in range(nreg):
            if i < n1:
                got.append(int.from_bytes(data[off + i * bsz: off + (i + 1) * bsz], "big", signed=True))
            else:
                o = off + n1 * bsz + (i - n1) * ssz
                got.append(int.from_bytes(data[o: o + ssz], "big", signed=True))
        if got != row:
            rec.violation("vardata:reader", "independent reading of the first row gives %s, expected %s" % (got, row))
        vd2 = ot.VarData()
        vd2.decompile(OTTableReader(data), font)
        if [list(r) for r in vd2.Item] != [row, [0] * nreg] or vd2.NumShorts != vd.NumShorts:
            rec.violation("vardata:decompile", "decompile gives %r (NumShorts %r), expected %r" % (vd2.Item, vd2.NumShorts, [row, [0] * nreg]))

    # ---- Device --------------------------------------------------------------------------
    def check_dev(self, case, rec):
        from fontTools.ttLib.tables.otBase import OTTableWriter, OTTableReader

        _k, fmt, n, pat = case
        bits = {1: 2, 2: 4, 3: 8}[fmt]
        per = 16 // bits
        lo, hi = -(1 << (bits - 1)), (1 << (bits - 1)) - 1
        if pat == "zero":
            vals = [0] * n
        elif pat == "lead":
            vals = [hi] + [0] * (n - 1)
        elif pat == "last-word-zero":
            full = (n // per) * per
            vals = [lo if i % 2 else hi for i in range(full)] + [0] * (n - full)
        elif pat == "alternating":
            vals = [lo if i % 2 else hi for i in range(n)]
        else:
            vals = [(lo, -1, 0, 1, hi)[i % 5] for i in range(n)]
        d = ot.Device()
        d.StartSize, d.EndSize, d.DeltaFormat, d.DeltaValue = 12, 12 + n - 1, fmt, list(vals)
        font = bigfont()
        w = OTTableWriter()
        d.compile(w, font)
        data = w.getAllData()
        rec.nontrivial()
        words = -(-n // per)
        if n % per and not any(vals[(n // per) * per:]):
            rec.witness("Device with an all-zero partial last word")
        if len(data) != 6 + 2 * words:
            rec.violation("device:length:format%d:%s" % (fmt, pat), "Device format %d with %d deltas %s compiles to %d bytes, the specification asks for %d" % (fmt, n, vals, len(data), 6 + 2 * words))
            return
        # independent reading of the packed deltas
        st, en, f_ = struct.unpack(">HHH", data[:6])
        got = []
        for i in range(n):
            word = struct.unpack(">H", data[6 + 2 * (i // per): 8 + 2 * (i // per)])[0]
            v = (word >> (16 - bits * (i % per + 1))) & ((1 << bits) - 1)
            got.append(v - (1 << bits) if v >= (1 << (bits - 1)) else v)
        if (st, en, f_) != (12, 12 + n - 1, fmt) or got != vals:
            rec.violation("device:reader:format%d:%s" % (fmt, pat), "independent reader sees (%d, %d, %d) %s, expected %s" % (st, en, f_, got, vals))
        d2 = ot.Device()
        d2.decompile(OTTableReader(data), font)
        if (d2.StartSize, d2.EndSize, d2.DeltaFormat, list(d2.DeltaValue)) != (12, 12 + n - 1, fmt, vals):
            rec.violation("device:decompile:format%d:%s" % (fmt, pat), "decompiled %r, expected %r" % (list(d2.DeltaValue), vals))

    # ---- Coverage ------------------------------------------------------------------------
    def check_cov(self, case, rec):
        _k, spread, bits, order = case
        font = bigfont()
        gids = [OTL_SPREADS[spread](i) for i in range(8) if bits >> i & 1]
        if order == "reversed":
            gids.reverse()
        elif order == "rotated":
            gids = gids[1:] + gids[:1]
        rec.nontrivial()
        c = ot.Coverage()
        c.glyphs = [gname(g) for g in gids]
        data = otl_compile(c, font)
        c2 = otl_decompile(ot.Coverage, data, font)
        cls = "%s:%s" % (spread, order)
        if c2.glyphs != [gname(g) for g in gids]:
            rec.violation("coverage:decompile:" + cls, "glyphs %r, expected %r" % (c2.glyphs, [gname(g) for g in gids]))
        try:
            rd = R.coverage(data)
        except R.ReadError as e:
            rec.violation("coverage:reader:" + cls, "independent reader: %s" % e)
            return
        if rd != gids:
            rec.violation("coverage:reader:" + cls, "coverage order %r, expected %r" % (rd, gids))
        if order == "sorted":
            for err in R.coverage_sorted_errors(data):
                rec.violation("coverage:structure:" + cls, err)
        else:
            rec.witness("coverage unsorted input")
        rec.witness("coverage format %d" % R.u16(data, 0))

    # ---- ClassDef ------------------------------------------------------------------------
    def check_cls(self, case, rec):
        _k, spread, a = case
        font = bigfont()
        digits = _mixed(a, [3] * 6)
        assign = {OTL_SPREADS[spread](i): d for i, d in enumerate(digits)}
        rec.nontrivial()
        cd = ot.ClassDef()
        # class 0 listed explicitly for some glyphs: it is the default and may be dropped
        cd.classDefs = {gname(g): c for g, c in reversed(list(assign.items()))}
        data = otl_compile(cd, font)
        cd2 = otl_decompile(ot.ClassDef, data, font)
        want = {g: c for g, c in assign.items() if c}
        cls = spread
        if cd2.classDefs != {gname(g): c for g, c in want.items()}:
            rec.violation("classdef:decompile:" + cls, "classes %r, expected %r" % (cd2.classDefs, want))
        try:
            rd = R.classdef(data)
        except R.ReadError as e:
            rec.violation("classdef:reader:" + cls, "independent reader: %s" % e)
            return
        if rd != want:
            rec.violation("classdef:reader:" + cls, "classes %r, expected %r" % (rd, want))
        rec.witness("classdef format %d" % R.u16(data, 0))
        if not want:
            rec.witness("classdef empty")

    # ---- SingleSubst ---------------------------------------------------------------------
    def check_ss(self, case, rec):
        _k, bits, rule = case
        font = bigfont()
        pool = (1, 2, 3, 65533, 65534)
        ins = [g for i, g in enumerate(pool) if bits >> i & 1]
        if rule == "scatter":
            outs = [(g * 7 + 11) % 65000 + 1 for g in ins]
        else:
            outs = [(g + int(rule)) % 65536 for g in ins]
        if any(o >= 65535 for o in outs):
            rec.count("outside-domain:substitute is not a glyph id")
            return
        mapping = dict(zip(ins, outs))
        rec.nontrivial()
        ss = ot.SingleSubst()
        ss.mapping = {gname(a): gname(b) for a, b in reversed(list(mapping.items()))}
        t = otl_table("GSUB", 1, ss)
        data = t.compile(font)
        t2 = newTable("GSUB")
        t2.decompile(data, font)
        lk = t2.table.LookupList.Lookup[0]
        got = lk.SubTable[0]
        if lk.LookupType == 7:
            got = got.ExtSubTable
        cls = rule if rule in ("scatter",) else "delta"
        if got.mapping != {gname(a): gname(b) for a, b in mapping.items()}:
            rec.violation("singlesubst:decompile:" + cls, "mapping %r, expected %r" % (got.mapping, mapping))
        try:
            ltype, off = otl_subtable_offset(data, "GSUB")
            rd = R.single_subst(data, off)
        except R.ReadError as e:
            rec.violation("singlesubst:reader:" + cls, "independent reader: %s" % e)
            return
        if ltype != 1 or rd != mapping:
            rec.violation("singlesubst:reader:" + cls, "lookup type %d, substitutions %r, expected %r" % (ltype, rd, mapping))
        fmt = R.u16(data, off)
        rec.witness("singlesubst format %d" % fmt)
        if fmt == 1 and any(b < a for a, b in mapping.items()) and R.i16(data, off + 4) > 0:
            rec.witness("singlesubst delta wraps at 65536")
        if not mapping:
            return
        hb = otl_hb_font("GSUB", data)
        for a, b in mapping.items():
            res = hb.shape(gids=[a], features={"test": True})
            if [x[0] for x in res] != [b]:
                rec.violation("singlesubst:harfbuzz:" + cls, "HarfBuzz turns glyph %d into %r, expected %d" % (a, [x[0] for x in res], b))
                break
        probe = 5
        res = hb.shape(gids=[probe], features={"test": True})
        if [x[0] for x in res] != [mapping.get(probe, probe)]:
            rec.violation("singlesubst:harfbuzz:uncovered", "HarfBuzz substitutes uncovered glyph %d -> %r" % (probe, res))

    # ---- ValueRecord ---------------------------------------------------------------------
    def make_device(self, k):
        d = ot.Device()
        if k % 4 == 3:
            d.StartSize, d.EndSize, d.DeltaFormat, d.DeltaValue = 3 + k, 0xFFFF - k, 0x8000, []
            return d, ("varidx", 3 + k, 0xFFFF - k)
        fmt = k % 4 + 1
        lim = {1: (-2, 1), 2: (-8, 7), 3: (-128, 127)}[fmt]
        n = (3, 9, 1, 16)[k % 4]
        vals = [lim[0] if i % 3 == 0 else lim[1] if i % 3 == 1 else 0 for i in range(n)]
        d.StartSize, d.EndSize, d.DeltaFormat, d.DeltaValue = 9, 9 + n - 1, fmt, list(vals)
        return d, ("device", 9, 9 + n - 1, fmt, tuple(vals))

    def check_vr(self, case, rec):
        _k, mask, variant = case
        font = bigfont()
        rec.nontrivial()
        v = ValueRecord()
        want_ints, want_devs = {}, {}
        for bit, nm in enumerate(VR_NAMES):
            if not mask >> bit & 1:
                continue
            if bit < 4:
                val = VR_INTS[(bit + variant) % 4]
                setattr(v, nm, val)
                want_ints[nm] = val
            else:
                dev, desc = self.make_device(bit + variant)
                setattr(v, nm, dev)
                want_devs[nm] = desc
        sp = ot.SinglePos()
        sp.Format = 1
        sp.Coverage = ot.Coverage()
        sp.Coverage.glyphs = [gname(3)]
        sp.ValueFormat = mask
        sp.Value = v if mask else None
        t = otl_table("GPOS", 1, sp)
        data = t.compile(font)
        t2 = newTable("GPOS")
        t2.decompile(data, font)
        lk = t2.table.LookupList.Lookup[0]
        got = lk.SubTable[0]
        if lk.LookupType == 9:
            got = got.ExtSubTable
        cls = "devices" if mask & 0xF0 else "ints"
        gv = got.Value
        gd = dict(gv.__dict__) if gv is not None else {}
        gi = {k_: x for k_, x in gd.items() if k_ in VR_NAMES[:4]}
        gdev = {}
        for k_, x in gd.items():
            if k_ in VR_NAMES[4:] and x is not None:
                gdev[k_] = ("varidx", x.StartSize, x.EndSize) if x.DeltaFormat == 0x8000 else ("device", x.StartSize, x.EndSize, x.DeltaFormat, tuple(x.DeltaValue))
        if got.ValueFormat != mask or gi != want_ints or gdev != want_devs:
            rec.violation("valuerecord:decompile:" + cls, "ValueFormat %#x values %r devices %r; expected %#x %r %r" % (got.ValueFormat, gi, gdev, mask, want_ints, want_devs))
        try:
            ltype, off = otl_subtable_offset(data, "GPOS")
            cov, vf, recd, devs = R.single_pos1(data, off)
        except R.ReadError as e:
            rec.violation("valuerecord:reader:" + cls, "independent reader: %s" % e)
            return
        ri = {k_: x for k_, x in recd.items() if k_ in VR_NAMES[:4]}
        if ltype != 1 or cov != [3] or vf != mask or ri != want_ints or devs != want_devs:
            rec.violation("valuerecord:reader:" + cls, "coverage %r ValueFormat %#x values %r devices %r; expected %#x %r %r" % (cov, vf, ri, devs, mask, want_ints, want_devs))
        if any(d[0] == "device" for d in want_devs.values()):
            rec.witness("valuerecord with device table")
        if any(d[0] == "varidx" for d in want_devs.values()):
            rec.witness("valuerecord with VariationIndex")
        if mask == 0:
            rec.witness("valuerecord empty format")
        hb = otl_hb_font("GPOS", data)
        adv = hb.h_advance(3)
        res = hb.shape(gids=[3], features={"test": True})
        wantpos = (adv + want_ints.get("XAdvance", 0), want_ints.get("XPlacement", 0), want_ints.get("YPlacement", 0))
        gotpos = (res[0][2], res[0][4], res[0][5]) if res else None
        if gotpos != wantpos:
            rec.violation("valuerecord:harfbuzz:" + cls, "HarfBuzz (x_advance, x_offset, y_offset) = %r, expected %r" % (gotpos, wantpos))


# =============================================================================================
# tuple variation stores, gvar, cvar, fvar, avar
# =============================================================================================
from fontTools.ttLib.tables import TupleVariation as TV

TV_AXES = ["wght", "wdth"]
TV_REGIONS = (
    {"wght": (0.0, 1.0, 1.0)},
    {"wght": (-1.0, -1.0, 0.0)},
    {"wght": (0.25, 0.5, 0.75)},
    {"wght": (0.0, 1.0, 1.0), "wdth": (0.0, 1.0, 1.0)},
    {"wght": (0.0, 0.5, 1.0), "wdth": (-1.0, -0.5, 0.0)},
    {"wdth": (0.0, 0.5, 0.5)},
)
TV_DELTAS = (0, 1, -1, 127, -128, 128, -129, 32767, -32768, 5)
TV_MASKS12 = (0, 31, 1, 16, 5, 10, 21, 30, 15, 3, 24, 17)
TV_NPTS = 5


def f214(v):
    return int(round(v * 16384))


def tv_region_raw(region):
    """-> (peak, start|None, end|None) as F2Dot14 ints per axis, intermediate only when the
    region is not the default one implied by the peak (OpenType 'Tuple variation store')."""
    peak, start, end, inter = [], [], [], False
    for a in TV_AXES:
        lo, pk, hi = region.get(a, (0.0, 0.0, 0.0))
        peak.append(f214(pk))
        start.append(f214(lo))
        end.append(f214(hi))
        if (lo, hi) != (min(pk, 0.0), max(pk, 0.0)):
            inter = True
    return (peak, start, end) if inter else (peak, None, None)


def tv_make(ri, mask, width, salt):
    coords = []
    for i in range(TV_NPTS):
        if not mask >> i & 1:
            coords.append(None)
        elif width == 2:
            coords.append((TV_DELTAS[(i + salt) % 10], TV_DELTAS[(3 * i + salt + 1) % 10]))
        else:
            coords.append(TV_DELTAS[(i + salt) % 10])
    return TV.TupleVariation(dict(TV_REGIONS[ri]), coords)


class TupleStoreUnit(Unit):
    name = "tuple-store"
    rule = ("tuple variation stores over 2 axes and 5 points: variation = (region in {peak +1, peak -1, intermediate, two-axis corner, "
            "two-axis mixed intermediate, second axis only} x None-mask); singles: every mask (32) x gvar (x,y) / cvar (scalar) "
            "deltas x shared points on/off x peak found in the shared tuples or embedded; pairs: all ordered pairs over 12 masks "
            "(quick) / 32 masks (thorough); thorough also triples over 6 masks; whole cvar tables (singles, pairs over 6 masks) against a 5-value cvt; stores over 130 and 300 points with {1,2,126,127,128,129,n-1,n} points touched (first / last / spread) x shared points on/off x one or two variations; oracle: decompileTupleVariationStore(compile...) == "
            "the variations that have at least one delta, struct reader (packed points/deltas per the spec) finds the same regions "
            "(intermediate tuples exactly when needed) and the same explicit deltas; distinct = each (variations, options)")
    required_witnesses = ("shared point numbers used", "private point numbers", "all points (count 0)", "embedded peak", "shared peak tuple",
                          "intermediate region", "empty variation dropped", "cvar scalar deltas", "no variation left", "cvar table",
                          "127 of many points touched", "128 of many points touched", "129 of many points touched")
    chunk = 200

    def cases(self, tier, seed):
        yield from self.big_cases()
        for ri in range(6):
            for mask in range(32):
                for width in (2, 1):
                    for sp in (1, 0):
                        for st in (1, 0):
                            yield [[[ri, mask]], width, sp, st]
        for ri in range(6):
            for mask in range(32):
                yield ["cvartable", [[ri, mask]]]
        small = [(ri, m) for ri in range(6) for m in TV_MASKS12[:6]]
        for a in small:
            for b in small:
                yield ["cvartable", [list(a), list(b)]]
        masks = TV_MASKS12 if tier == "quick" else tuple(range(32))
        atoms = [(ri, m) for ri in range(6) for m in masks]
        for a in atoms:
            for b in atoms:
                for sp in (1, 0):
                    yield [[list(a), list(b)], 2, sp, 1]
        if tier != "quick":
            atoms = [(ri, m) for ri in range(6) for m in TV_MASKS12[:6]]
            for a in atoms:
                for b in atoms:
                    for c in atoms:
                        yield [[list(a), list(b), list(c)], 2 if (a[0] + b[0]) % 2 == 0 else 1, (a[1] + c[1]) % 2, 1]

    # ---- many points: the packed point-number count switches to two bytes at 128
    BIG_N = (130, 300)
    BIG_COUNTS = (1, 2, 126, 127, 128, 129)

    def big_cases(self):
        for npts in self.BIG_N:
            for cnt in self.BIG_COUNTS + (npts - 1, npts):
                for layout in ("first", "last", "spread"):
                    for sp in (1, 0):
                        for two in (0, 1):
                            yield ["big", npts, cnt, layout, sp, two]

    def check_big(self, case, rec):
        _k, npts, cnt, layout, use_shared_pts, two = case
        if layout == "first":
            touched = list(range(cnt))
        elif layout == "last":
            touched = list(range(npts - cnt, npts))
        else:
            step = max(1, npts // cnt)
            touched = sorted(set(range(0, npts, step)))[:cnt]
            touched += [i for i in range(npts) if i not in touched][: cnt - len(touched)]
            touched = sorted(touched)
        assert len(touched) == cnt

        def make(k):
            coords = [None] * npts
            for j, i in enumerate(touched):
                coords[i] = ((j * 7 + k) % 200 - 100, (j * 3 - k) % 50 - 25)
            return TV.TupleVariation(dict(TV_REGIONS[k % 2]), coords)

        variations = [make(0)] + ([make(1)] if two else [])
        rec.nontrivial()
        rec.witness("%d of many points touched" % cnt if cnt in (127, 128, 129) else "many points")
        count, tuples, data = TV.compileTupleVariationStore(variations, npts, TV_AXES, {}, useSharedPoints=bool(use_shared_pts))
        blob = bytes(tuples) + bytes(data)
        cls = "gvar-many-points:%s" % ("shared-points" if use_shared_pts else "private-points")
        try:
            got = TV.decompileTupleVariationStore("gvar", TV_AXES, count, npts, [], blob, 0, len(tuples))
        except Exception as e:
            rec.violation("tuple-store:decompile-raises:%s:%s" % (cls, type(e).__name__), "%d of %d points touched (%s): decompile raised %s: %s" % (cnt, npts, layout, type(e).__name__, e))
            return
        want = [make(k) for k in range(len(variations))]
        if len(got) != len(want) or any(not (g == w) for g, w in zip(got, want)):
            bad = [i for g, w in zip(got, want) for i in range(npts) if g.coordinates[i] != w.coordinates[i]][:5]
            rec.violation("tuple-store:decompile:" + cls, "%d of %d points touched (%s): decompiled variations differ at points %s" % (cnt, npts, layout, bad))
        try:
            rd = R.tuple_variation_store(blob, 0, len(tuples), count, 2, npts, [], 2)
        except R.ReadError as e:
            rec.violation("tuple-store:reader:" + cls, "%d of %d points touched (%s): independent reader: %s" % (cnt, npts, layout, e))
            return
        exp = []
        for k in range(len(variations)):
            peak, start, end = tv_region_raw(TV_REGIONS[k % 2])
            exp.append((peak, start, end, {i: c for i, c in enumerate(make(k).coordinates) if c is not None}))
        if rd != exp:
            rec.violation("tuple-store:reader:" + cls, "%d of %d points touched (%s): independent reader sees other deltas" % (cnt, npts, layout))

    def check_cvar_table(self, specs, rec):
        """the whole 'cvar' table: header + store, decompiled against a 5-value 'cvt '"""
        from fontTools.ttLib.tables._f_v_a_r import Axis

        font = _FIX.get("cvarfont")
        if font is None:
            font = TTFont()
            font["fvar"] = newTable("fvar")
            for t in TV_AXES:
                a = Axis()
                a.axisTag = t
                font["fvar"].axes.append(a)
            font["cvt "] = newTable("cvt ")
            font["cvt "].values = [0] * TV_NPTS
            _FIX["cvarfont"] = font
        rec.nontrivial()
        rec.witness("cvar table")
        t = newTable("cvar")
        t.variations = [tv_make(ri, m, 1, k) for k, (ri, m) in enumerate(specs)]
        data = t.compile(font)
        t2 = newTable("cvar")
        t2.decompile(data, font)
        kept = [(k, ri, m) for k, (ri, m) in enumerate(specs) if m]
        want = [tv_make(ri, m, 1, k) for k, ri, m in kept]
        if len(t2.variations) != len(want) or any(not (g == w) for g, w in zip(t2.variations, want)):
            rec.violation("cvar:decompile", "decompiled %r, expected %r" % (t2.variations, want))
        try:
            if (R.u16(data, 0), R.u16(data, 2)) != (1, 0):
                raise R.ReadError("cvar version %d.%d" % (R.u16(data, 0), R.u16(data, 2)))
            rd = R.tuple_variation_store(data, 8, R.u16(data, 6), R.u16(data, 4), 2, TV_NPTS, [], 1) if kept else []
        except R.ReadError as e:
            rec.violation("cvar:reader", "independent reader: %s" % e)
            return
        exp = []
        for k, ri, m in kept:
            peak, start, end = tv_region_raw(TV_REGIONS[ri])
            exp.append((peak, start, end, {i: (c,) for i, c in enumerate(tv_make(ri, m, 1, k).coordinates) if c is not None}))
        if rd != exp:
            rec.violation("cvar:reader", "independent reader sees %r, expected %r" % (rd, exp))

    def check(self, case, rec):
        if case[0] == "cvartable":
            return self.check_cvar_table(case[1], rec)
        if case[0] == "big":
            return self.check_big(case, rec)
        specs, width, use_shared_pts, shared_tuple = case
        variations = [tv_make(ri, m, width, k) for k, (ri, m) in enumerate(specs)]
        rec.nontrivial()
        shared_idx, shared_list, shared_raw = {}, [], []
        if shared_tuple:
            v0 = TV.TupleVariation(dict(TV_REGIONS[0]), [])
            shared_idx = {v0.compileCoord(TV_AXES): 0}
            shared_list = [{"wght": 1.0, "wdth": 0.0}]
            shared_raw = [[16384, 0]]
        tag = "gvar" if width == 2 else "cvar"
        count, tuples, data = TV.compileTupleVariationStore(variations, TV_NPTS, TV_AXES, shared_idx, useSharedPoints=bool(use_shared_pts))
        blob = bytes(tuples) + bytes(data)
        kept = [(k, ri, m) for k, (ri, m) in enumerate(specs) if m]
        if len(kept) < len(specs):
            rec.witness("empty variation dropped")
        if not kept:
            rec.witness("no variation left")
            if count != 0 or blob:
                rec.violation("tuple-store:empty", "store of empty variations compiled to count %r and %d bytes" % (count, len(blob)))
            return
        cls = "%s:%s" % (tag, "shared-points" if use_shared_pts else "private-points")
        got = TV.decompileTupleVariationStore(tag, TV_AXES, count, TV_NPTS, shared_list, blob, 0, len(tuples))
        want = [tv_make(ri, m, width, k) for k, ri, m in kept]
        if len(got) != len(want) or any(not (g == w) for g, w in zip(got, want)):
            rec.violation("tuple-store:decompile:" + cls, "decompiled %r, expected %r" % (got, want))
        try:
            rd = R.tuple_variation_store(blob, 0, len(tuples), count, 2, TV_NPTS, shared_raw, width)
        except R.ReadError as e:
            rec.violation("tuple-store:reader:" + cls, "independent reader: %s" % e)
            return
        exp = []
        for k, ri, m in kept:
            peak, start, end = tv_region_raw(TV_REGIONS[ri])
            v = tv_make(ri, m, width, k)
            d = {i: (c if width == 2 else (c,)) for i, c in enumerate(v.coordinates) if c is not None}
            exp.append((peak, start, end, d))
        if rd != exp:
            rec.violation("tuple-store:reader:" + cls, "independent reader sees %r, expected %r" % (rd, exp))
        # witnesses from the bytes
        if count & 0x8000:
            rec.witness("shared point numbers used")
        hp = 0
        for _ in range(count & 0xFFF):
            idx = R.u16(blob, hp + 2)
            hp += 4 + (4 if idx & 0x8000 else 0) + (8 if idx & 0x4000 else 0)
            rec.witness("embedded peak" if idx & 0x8000 else "shared peak tuple")
            if idx & 0x4000:
                rec.witness("intermediate region")
            if idx & 0x2000:
                rec.witness("private point numbers")
        if any(m == 31 for _k, _r, m in kept):
            rec.witness("all points (count 0)")
        if width == 1:
            rec.witness("cvar scalar deltas")


# ---------------------------------------------------------------------------------------------
# gvar inside a font (FontBuilder), read back by fontTools, the struct reader and HarfBuzz
GV_A = [(0, 0, 1), (100, 0, 1), (100, 100, 0), (0, 100, 1)]
GV_B = ([(0, 0, 1), (60, 0, 1), (200, 0, 1), (300, 100, 1), (200, 200, 0)], [1, 4])
GV_LOCS = [(w, d) for w in (-1.0, -0.5, 0.0, 0.25, 0.5, 0.75, 1.0) for d in (-1.0, -0.5, 0.0, 0.5, 1.0)]


GV_LOCS_QUICK = [(-1.0, 0.0), (-0.5, -0.5), (0.0, 0.0), (0.25, 0.0), (0.5, 0.0), (0.5, -0.5), (0.75, 0.5), (1.0, 0.0), (1.0, 1.0), (0.5, 1.0), (0.0, 0.5), (1.0, -1.0)]


def tent(loc, lo, pk, hi):
    if pk == 0:
        return Fraction(1)
    loc, lo, pk, hi = Fraction(loc), Fraction(lo), Fraction(pk), Fraction(hi)
    if loc < lo or loc > hi:
        return Fraction(0)
    if loc == pk:
        return Fraction(1)
    return (loc - lo) / (pk - lo) if loc < pk else (hi - loc) / (hi - pk)


def region_scalar(region, loc):
    s = Fraction(1)
    for a, x in zip(TV_AXES, loc):
        lo, pk, hi = region.get(a, (0.0, 0.0, 0.0))
        s *= tent(x, lo, pk, hi)
    return s


def iup_axis(coords, deltas, touched):
    """Inferred deltas of one contour and one coordinate (OpenType 'Inferred deltas for un-referenced points')."""
    n = len(coords)
    idx = [i for i in range(n) if touched[i]]
    if not idx:
        return [Fraction(0)] * n
    out = [Fraction(d) if d is not None else None for d in deltas]
    if len(idx) == 1:
        return [out[idx[0]]] * n
    for k, a in enumerate(idx):
        b = idx[(k + 1) % len(idx)]
        i = (a + 1) % n
        while i != b:
            ca, cb, c = coords[a], coords[b], coords[i]
            da, db = out[a], out[b]
            if ca == cb:
                out[i] = da if da == db else Fraction(0)
            else:
                if ca > cb:
                    ca, cb, da, db = cb, ca, db, da
                if c <= ca:
                    out[i] = da
                elif c >= cb:
                    out[i] = db
                else:
                    out[i] = da + (db - da) * Fraction(c - ca, cb - ca)
            i = (i + 1) % n
    return out


def apply_tuples(pts, ends, tuples, loc):
    """points (x,y,f) + list of (region, coordinates incl. 4 phantoms) at loc -> (varied points, phantom deltas)."""
    n = len(pts)
    acc = [[Fraction(x), Fraction(y)] for x, y, _f in pts] + [[Fraction(0), Fraction(0)] for _ in range(4)]
    for region, coords in tuples:
        if all(c is None for c in coords):
            continue
        s = region_scalar(region, loc)
        if s == 0:
            continue
        full = [None] * (n + 4)
        if None not in coords:
            full = [(Fraction(c[0]), Fraction(c[1])) for c in coords]
        else:
            dx, dy = [None] * (n + 4), [None] * (n + 4)
            st = 0
            for e in list(ends) + [n, n + 1, n + 2, n + 3]:
                rng = list(range(st, e + 1))
                st = e + 1
                touched = [coords[i] is not None for i in rng]
                xs = iup_axis([pts[i][0] if i < n else 0 for i in rng], [coords[i][0] if coords[i] is not None else None for i in rng], touched)
                ys = iup_axis([pts[i][1] if i < n else 0 for i in rng], [coords[i][1] if coords[i] is not None else None for i in rng], touched)
                for j, i in enumerate(rng):
                    dx[i], dy[i] = xs[j], ys[j]
            full = list(zip(dx, dy))
        for i in range(n + 4):
            acc[i][0] += s * full[i][0]
            acc[i][1] += s * full[i][1]
    return [(float(acc[i][0]), float(acc[i][1]), pts[i][2]) for i in range(n)], acc[n:]


def gv_tuple(ri, mask, npts, phantom, salt):
    coords = []
    for i in range(npts):
        coords.append((TV_DELTAS[(i + salt) % 8] % 200 - 64, TV_DELTAS[(2 * i + salt + 3) % 8] % 150 - 30) if mask >> i & 1 else None)
    if phantom == 0:
        coords += [None] * 4
    elif phantom == 1:
        coords += [(0, 0)] * 4
    else:
        coords += [(0, 0), (50 + salt, 0), (0, 0), (0, 0)]
    return (dict(TV_REGIONS[ri]), coords)


class GvarFontUnit(Unit):
    name = "gvar-font"
    rule = ("variable fonts built with FontBuilder (2 axes; glyph A 4 points, B two contours, C composite of A): A's variations = one "
            "tuple over 6 regions x every None-mask of the 4 outline points x phantom deltas {absent, zero, advance +50}, or two "
            "tuples over 6x6 regions x 6x6 masks (quick: the quarter named by the seed; thorough: 10x10 masks); B and C reuse the peaks (shared tuples across glyphs); plus fonts with 4095 / 4096 / 4098 / 4200 distinct peak tuples each used by two glyphs (the shared tuple list holds 4096); saved and reloaded; "
            "oracle: gvar.variations == input minus all-None tuples, struct reader of gvar (offsets, shared tuples, tuple stores) "
            "finds the same regions and explicit deltas, HarfBuzz outlines and advance at 35 normalized locations equal base + "
            "sum(scalar x delta) with un-referenced points inferred per the spec; distinct = each font")
    required_witnesses = ("shared tuple in gvar header", "inferred deltas (IUP)", "phantom advance delta", "composite offset delta", "glyph without variations",
                          "intermediate region scalar strictly between 0 and 1", "more than 4096 shareable peak tuples", "up to 4096 shareable peak tuples")
    chunk = 6

    def cases(self, tier, seed):
        for n in (4095, 4096, 4098, 4200):
            yield ["many-shared", n]
        for ri in range(6):
            for mask in range(16):
                for ph in range(3):
                    yield [[[ri, mask, ph]], tier]
        reps = (15, 1, 8, 5, 10, 7) if tier == "quick" else (15, 1, 2, 4, 8, 5, 10, 7, 3, 12)
        for r1 in range(6):
            for r2 in range(6):
                for m1 in reps:
                    for m2 in reps:
                        if tier == "quick" and (m1 * 7 + m2 + r1 + r2) % 4 != seed % 4 and not (m1 == 15 and m2 == 15):
                            continue
                        yield [[[r1, m1, 1], [r2, m2, 0]], tier]

    def check_many_shared(self, n, rec):
        """n distinct peak tuples, each used by exactly two glyphs (so each is a candidate for the
        shared tuple list, which holds at most 4096 entries): three glyphs with 2n/3 tuples each"""
        rec.nontrivial()
        peaks = [{"wght": (i % 128 + 1) / 128.0, "wdth": -((i // 128) + 1) / 64.0} for i in range(n)]
        third = n // 3
        use = {"A": peaks[: 2 * third], "B": peaks[third:], "D": peaks[:third] + peaks[2 * third:]}
        names = [".notdef", "A", "B", "D"]
        glyphs = {".notdef": G.Glyph(), "A": make_simple(GV_A, [3], b""), "B": make_simple(GV_A, [3], b""), "D": make_simple(GV_A, [3], b"")}
        fb = FontBuilder(1000, isTTF=True)
        fb.setupGlyphOrder(names)
        fb.setupCharacterMap({})
        fb.setupGlyf(glyphs)
        fb.setupHorizontalMetrics({g: (600, 0) for g in names})
        fb.setupHorizontalHeader(ascent=800, descent=-200)
        fb.setupNameTable({"familyName": "T", "styleName": "R"})
        fb.setupFvar([("wght", 100, 400, 900, "Weight"), ("wdth", 50, 100, 200, "Width")], [])

        def region(pk):
            return {a: ((0.0, v, v) if v > 0 else (v, v, 0.0)) for a, v in pk.items()}

        def mk(plist, salt):
            return [TV.TupleVariation(region(pk), [((k + salt) % 50 - 20, (k * 3) % 40 - 10), None, None, None] + [None] * 4) for k, pk in enumerate(plist)]

        want = {g: mk(pl, j) for j, (g, pl) in enumerate(use.items())}
        fb.setupGvar({g: list(v) for g, v in want.items()})
        fb.setupPost(keepGlyphNames=True)
        data = save_bytes(fb.font)
        gv2 = TTFont(io.BytesIO(data))["gvar"]
        for g in ("A", "B", "D"):
            got = list(gv2.variations.get(g, []))
            if len(got) != len(want[g]):
                rec.violation("gvar:many-shared-tuples:count", "%d peaks: glyph %s has %d variations, expected %d" % (n, g, len(got), len(want[g])))
                return
            bad = [k for k, (a, b) in enumerate(zip(got, want[g])) if not (a == b)]
            if bad:
                rec.violation("gvar:many-shared-tuples:decompile", "%d peaks: glyph %s: %d variations read back differently, first at #%d: %r, expected %r" % (n, g, len(bad), bad[0], got[bad[0]], want[g][bad[0]]))
                return
        tabs = R.sfnt_tables(data)
        shared, blobs, _long = R.gvar(tabs["gvar"], 2)
        if len(shared) > 4096:
            rec.violation("gvar:many-shared-tuples:header", "%d peaks: %d shared tuples in the gvar header (a tuple index has 12 bits)" % (n, len(shared)))
        rec.witness("more than 4096 shareable peak tuples" if n > 4096 else "up to 4096 shareable peak tuples")
        for gi, g in ((1, "A"), (2, "B"), (3, "D")):
            b = blobs[gi]
            try:
                rd = R.tuple_variation_store(b, 4, R.u16(b, 2), R.u16(b, 0), 2, 8, shared, 2)
            except R.ReadError as e:
                rec.violation("gvar:many-shared-tuples:reader", "%d peaks: glyph %s: independent reader: %s" % (n, g, e))
                return
            exp_peaks = [tv_region_raw(region(pk))[0] for pk in use[g]]
            if [r[0] for r in rd] != exp_peaks:
                k = [i for i, (x, y) in enumerate(zip([r[0] for r in rd], exp_peaks)) if x != y][:1]
                rec.violation("gvar:many-shared-tuples:reader", "%d peaks: glyph %s: independent reader resolves other peak tuples (first at #%s)" % (n, g, k))
                return

    def check(self, case, rec):
        if case[0] == "many-shared":
            return self.check_many_shared(case[1], rec)
        specs = case[0]
        locs = GV_LOCS_QUICK if case[1] == "quick" else GV_LOCS
        rec.nontrivial()
        tA = [gv_tuple(ri, m, 4, ph, k) for k, (ri, m, ph) in enumerate(specs)]
        r0 = specs[0][0]
        tB = [gv_tuple(r0, 0b01101, 5, 1, 2), gv_tuple((r0 + 1) % 6, 0b11111, 5, 1, 4)]
        tC = [(dict(TV_REGIONS[r0]), [(30, -20), None, None, None, None])]
        names = [".notdef", "A", "B", "C", "D"]
        comp = [dict(base="A", xy=(40, 10), t=None, flags=0)]
        glyphs = {".notdef": G.Glyph(), "A": make_simple(GV_A, [3], b""), "B": make_simple(GV_B[0], GV_B[1], b""),
                  "C": make_composite(comp, None), "D": make_simple(GV_A, [3], b"")}
        fb = FontBuilder(1000, isTTF=True)
        fb.setupGlyphOrder(names)
        fb.setupCharacterMap({})
        fb.setupGlyf(glyphs)
        fb.setupHorizontalMetrics({n: (600, getattr(glyphs[n], "xMin", 0)) for n in names})
        fb.setupHorizontalHeader(ascent=800, descent=-200)
        fb.setupNameTable({"familyName": "T", "styleName": "R"})
        fb.setupFvar([("wght", 100, 400, 900, "Weight"), ("wdth", 50, 100, 200, "Width")], [])
        mk = lambda tl: [TV.TupleVariation(dict(r), list(c)) for r, c in tl]
        fb.setupGvar({"A": mk(tA), "B": mk(tB), "C": mk(tC)})
        fb.setupPost(keepGlyphNames=True)
        data = save_bytes(fb.font)
        font2 = TTFont(io.BytesIO(data))
        gv2 = font2["gvar"]
        cls = "tuples=%d" % len(specs)
        for gn, tl in (("A", tA), ("B", tB), ("C", tC), ("D", [])):
            want = [TV.TupleVariation(dict(r), list(c)) for r, c in tl if any(x is not None for x in c)]
            got = list(gv2.variations.get(gn, []))
            if len(got) != len(want) or any(not (g == w) for g, w in zip(got, want)):
                rec.violation("gvar:decompile:" + cls, "glyph %s: %r, expected %r" % (gn, got, want))
        # the same variations through the GVAR flavour of the table (24-bit glyph count: the header is one
        # byte longer, so every offset parity differs from gvar's)
        from fontTools.ttLib import newTable

        big = newTable("GVAR")
        big.version, big.reserved = 1, 0
        big.variations = {"A": mk(tA), "B": mk(tB), "C": mk(tC)}
        try:
            raw = big.compile(fb.font)
            back = newTable("GVAR")
            back.decompile(raw, fb.font)
            rec.witness("GVAR flavour")
            for gn, tl in (("A", tA), ("B", tB), ("C", tC), ("D", [])):
                want = [TV.TupleVariation(dict(r), list(c)) for r, c in tl if any(x is not None for x in c)]
                got = list(back.variations.get(gn, []))
                if len(got) != len(want) or any(not (g == w) for g, w in zip(got, want)):
                    rec.violation("GVAR:decompile:" + cls, "glyph %s: %r, expected %r" % (gn, got, want))
        except Exception as e:
            rec.violation("GVAR:exception:%s:%s" % (type(e).__name__, cls), "GVAR compile/decompile of the same variations: %r" % (e,))
        # struct reader
        try:
            tabs = R.sfnt_tables(data)
            shared, blobs, _long = R.gvar(tabs["gvar"], 2)
            if len(blobs) != 5:
                raise R.ReadError("gvar glyphCount %d" % len(blobs))
            for gi, (gn, tl, npts) in enumerate((("A", tA, 8), ("B", tB, 9), ("C", tC, 5), ("D", [], 8)), start=1):
                b = blobs[gi]
                kept = [(r, c) for r, c in tl if any(x is not None for x in c)]
                if not kept:
                    if b:
                        rec.violation("gvar:reader:" + cls, "glyph %s without variations has %d bytes of data" % (gn, len(b)))
                    rec.witness("glyph without variations")
                    continue
                rd = R.tuple_variation_store(b, 4, R.u16(b, 2), R.u16(b, 0), 2, npts, shared, 2)
                exp = []
                for r, c in kept:
                    peak, st, en = tv_region_raw(r)
                    exp.append((peak, st, en, {i: tuple(x) for i, x in enumerate(c) if x is not None}))
                if rd != exp:
                    rec.violation("gvar:reader:" + cls, "glyph %s: reader sees %r, expected %r" % (gn, rd, exp))
            if shared:
                rec.witness("shared tuple in gvar header")
        except R.ReadError as e:
            rec.violation("gvar:reader:" + cls, "independent reader: %s" % e)
        # HarfBuzz
        hb = hbridge.HBFont(data)
        for loc in locs:
            hb.set_normalized(loc)
            pa, pha = apply_tuples(GV_A, [3], tA, loc)
            msg = geom.contours_close(ref_outline(pa, [3]), hb.outline(1), 0.02)
            if msg:
                rec.violation("gvar:harfbuzz:outline:" + cls, "glyph A at %r: %s" % (loc, msg))
                break
            adv = 600 + pha[1][0] - pha[0][0]
            if adv.denominator != 2 and hb.h_advance(1) != otround(adv):
                rec.violation("gvar:harfbuzz:advance:" + cls, "glyph A at %r: advance %r, expected %r" % (loc, hb.h_advance(1), float(adv)))
                break
            if pha[1][0] != 0:
                rec.witness("phantom advance delta")
            pb, _ph = apply_tuples(GV_B[0], GV_B[1], tB, loc)
            msg = geom.contours_close(ref_outline(pb, GV_B[1]), hb.outline(2), 0.02)
            if msg:
                rec.violation("gvar:harfbuzz:outline:" + cls, "glyph B at %r: %s" % (loc, msg))
                break
            s = region_scalar(TV_REGIONS[r0], loc)
            off = (40 + float(s * 30), 10 + float(s * -20))
            pc = [(x + off[0], y + off[1], f) for x, y, f in pa]
            msg = geom.contours_close(ref_outline(pc, [3]), hb.outline(3), 0.02)
            if msg:
                rec.violation("gvar:harfbuzz:composite:" + cls, "glyph C at %r: %s" % (loc, msg))
                break
            if s != 0:
                rec.witness("composite offset delta")
            if 0 < s < 1:
                rec.witness("intermediate region scalar strictly between 0 and 1")
        if any(None in c[:4] and any(x is not None for x in c[:4]) for _r, c in tA):
            rec.witness("inferred deltas (IUP)")


# ---------------------------------------------------------------------------------------------
# fvar / avar
FX_MAX = 0x7FFFFFFF / 65536
FVAR_AXES = (
    [("wght", 100.0, 400.0, 900.0, 0, 256)],
    [("wght", 100.0, 400.0, 900.0, 0, 256), ("wdth", 50.0, 100.0, 200.0, 1, 65535)],
    [("opsz", -32768.0, 0.0, FX_MAX, 0, 257), ("XTRA", 0.5, 0.5, 0.5, 1, 300)],
    [("wght", 1.0, 1.0 + 1 / 65536, 2.0, 0, 256), ("ital", 0.0, 0.0, 1.0, 0, 258), ("slnt", -90.0, 0.0, 90.0, 0, 259)],
)
FVAR_INSTANCES = ("none", "plain", "psnames-mixed", "psnames-all")
AVAR_KNOTS = (-0.5, -0.25, 0.25, 0.5, 0.75)
AVAR_RULES = ("identity", "square", "shift")


def avar_map(bits, rule):
    m = {-1.0: -1.0, 0.0: 0.0, 1.0: 1.0}
    for i, k in enumerate(AVAR_KNOTS):
        if bits >> i & 1:
            if rule == "identity":
                v = k
            elif rule == "square":
                v = k * abs(k)
            else:
                v = k + (0.125 if k > 0 else -0.125)
            m[k] = v
    return m


def piecewise(m, x):
    ks = sorted(m)
    if x <= ks[0]:
        return Fraction(m[ks[0]])
    for a, b in zip(ks, ks[1:]):
        if a <= x <= b:
            fa, fb = Fraction(m[a]), Fraction(m[b])
            return fa + (Fraction(x) - Fraction(a)) * (fb - fa) / (Fraction(b) - Fraction(a))
    return Fraction(m[ks[-1]])


class FvarAvarUnit(Unit):
    name = "fvar-avar"
    rule = ("fvar: 4 axis lists (1..3 axes, 16.16 limits -32768 / 32767.99998 / 1+2^-16, hidden flag, name ids up to 65535) x named "
            "instances {none, plain, PostScript name ids on some, on all}; avar: every subset of knots {-0.5,-0.25,0.25,0.5,0.75} "
            "added to the required three x value rule {identity, square, shift} on the first axis; oracle: decompiled axes / "
            "instances / segment maps == input, struct reader reads the same 16.16 / 2.14 numbers at the spec offsets (instance "
            "size 4+4n or 6+4n), HarfBuzz reports the same axis records and maps user values through avar to the piecewise-linear "
            "result; distinct = each (fvar, avar)")
    required_witnesses = ("instance with postscriptNameID", "instances without postscriptNameID", "mixed postscriptNameID", "avar extra knots", "avar required knots only",
                          "axis limit -32768", "hidden axis")
    chunk = 40

    def setup(self, tier, seed):
        base_tables()

    def cases(self, tier, seed):
        for ai in range(len(FVAR_AXES)):
            for ii in range(len(FVAR_INSTANCES)):
                for bits in range(32):
                    for rule in AVAR_RULES:
                        if bits == 0 and rule != "identity":
                            continue
                        if tier == "quick" and ai > 1 and bits not in (0, 5, 31):
                            continue
                        yield [ai, ii, bits, rule]

    def check(self, case, rec):
        from fontTools.ttLib.tables._f_v_a_r import Axis, NamedInstance

        ai, ii, bits, rule = case
        axes = FVAR_AXES[ai]
        rec.nontrivial()
        fvar = newTable("fvar")
        for tag, mn, df, mx, fl, nid in axes:
            a = Axis()
            a.axisTag, a.minValue, a.defaultValue, a.maxValue, a.flags, a.axisNameID = tag, mn, df, mx, fl, nid
            fvar.axes.append(a)
            if mn == -32768.0:
                rec.witness("axis limit -32768")
            if fl & 1:
                rec.witness("hidden axis")
        insts = []
        kind = FVAR_INSTANCES[ii]
        if kind != "none":
            for k in range(3):
                co = {t[0]: (t[1], t[2], t[3])[k % 3] for t in axes}
                ps = 0xFFFF
                if kind == "psnames-all" or (kind == "psnames-mixed" and k == 1):
                    ps = 300 + k
                insts.append((260 + k, k % 2, co, ps))
        for sub, fl, co, ps in insts:
            ni = NamedInstance()
            ni.subfamilyNameID, ni.flags, ni.coordinates, ni.postscriptNameID = sub, fl, dict(co), ps
            fvar.instances.append(ni)
        font = TTFont()
        font["fvar"] = fvar
        data = fvar.compile(font)
        f2 = newTable("fvar")
        f2.decompile(data, font)
        got_axes = [(a.axisTag, a.minValue, a.defaultValue, a.maxValue, a.flags, a.axisNameID) for a in f2.axes]
        if got_axes != list(axes):
            rec.violation("fvar:decompile:axes", "axes %r, expected %r" % (got_axes, axes))
        got_inst = [(i.subfamilyNameID, i.flags, i.coordinates, i.postscriptNameID) for i in f2.instances]
        if got_inst != insts:
            rec.violation("fvar:decompile:instances:" + kind, "instances %r, expected %r" % (got_inst, insts))
        fx = lambda v: int(round(v * 65536))
        try:
            raxes, rinst = R.fvar(data)
        except R.ReadError as e:
            rec.violation("fvar:reader:" + kind, "independent reader: %s" % e)
            return
        if raxes != [(t, fx(mn), fx(df), fx(mx), fl, nid) for t, mn, df, mx, fl, nid in axes]:
            rec.violation("fvar:reader:axes", "axes %r" % (raxes,))
        anyps = any(ps != 0xFFFF for _s, _f, _c, ps in insts)
        want_inst = [(sub, fl, [fx(co[t[0]]) for t in axes], ps if anyps else None) for sub, fl, co, ps in insts]
        if rinst != want_inst:
            rec.violation("fvar:reader:instances:" + kind, "instances %r, expected %r" % (rinst, want_inst))
        if insts:
            rec.witness("instance with postscriptNameID" if all(ps != 0xFFFF for *_x, ps in insts) else "mixed postscriptNameID" if anyps else "instances without postscriptNameID")
        # avar
        segs = {axes[0][0]: avar_map(bits, rule)}
        for t in axes[1:]:
            segs[t[0]] = {-1.0: -1.0, 0.0: 0.0, 1.0: 1.0}
        avar = newTable("avar")
        avar.segments = {k: dict(reversed(list(v.items()))) for k, v in segs.items()}
        adata = avar.compile(font)
        a2 = newTable("avar")
        a2.decompile(adata, font)
        if a2.segments != segs:
            rec.violation("avar:decompile:" + rule, "segments %r, expected %r" % (a2.segments, segs))
        try:
            rmaps = R.avar1(adata)
        except R.ReadError as e:
            rec.violation("avar:reader:" + rule, "independent reader: %s" % e)
            return
        want_maps = [sorted((f214(k), f214(v)) for k, v in segs[t[0]].items()) for t in axes]
        if rmaps != want_maps:
            rec.violation("avar:reader:" + rule, "segment maps %r, expected %r" % (rmaps, want_maps))
        rec.witness("avar extra knots" if bits else "avar required knots only")
        # HarfBuzz
        base = dict(base_tables())
        base["fvar"] = data
        base["avar"] = adata
        hb = hbridge.HBFont(R.sfnt_build(base))
        infos = [(i.tag, i.min_value, i.default_value, i.max_value, int(i.flags) & 1, i.name_id) for i in hb.face.axis_infos]
        f32 = lambda v: struct.unpack("f", struct.pack("f", v))[0]  # HarfBuzz reports floats
        want_infos = [(t, f32(mn), f32(df), f32(mx), fl & 1, nid) for t, mn, df, mx, fl, nid in axes]
        if infos != want_infos:
            rec.violation("fvar:harfbuzz:axes", "HarfBuzz axis records %r, expected %r" % (infos, want_infos))
            return
        tag, mn, df, mx = axes[0][:4]
        if mn < df < mx and ai < 2:
            for n0 in (-1.0, -0.75, -0.5, -0.375, -0.25, 0.0, 0.125, 0.25, 0.5, 0.625, 0.75, 1.0):
                user = df + n0 * (mx - df) if n0 >= 0 else df + n0 * (df - mn)
                hb.font.set_variations({tag: user})
                got = hb.font.get_var_coords_normalized()[0]
                want = piecewise(segs[tag], n0)
                if abs(round(got * 16384) - want * 16384) > 1:
                    rec.violation("avar:harfbuzz:" + rule, "HarfBuzz maps normalized %r to %r, the segment map gives %r" % (n0, got, float(want)))
                    break


# =============================================================================================
# COLR v1: buildCOLR <-> unbuildColrV1
# =============================================================================================
from fontTools.colorLib.builder import buildCOLR
from fontTools.colorLib.unbuilder import unbuildColrV1

COLR_ORDER = [".notdef", "a", "b", "c", "d", "e"]
P_F214 = (0.0, 0.5, 1.0, -1.0, -2.0, 32767 / 16384, 0.25)
P_ANGLE = (0.0, 45.0, -90.0, 180.0, -360.0, 32767 / 16384 * 180, 22.5)
P_SWEEP = (0.0, 45.0, 360.0, -180.0, (32767 / 16384 + 1) * 180, 180.0, 22.5)  # stored as angle/180 - 1
P_FWORD = (0, 1, -1, 32767, -32768, 100, -300)
P_UFWORD = (0, 1, 65535, 500)
P_FIXED = (0.0, 1.0, -1.0, 0.5, -32768.0, 32767 + 65535 / 65536, 1 / 65536)
P_PAL = (0, 1, 0xFFFF, 2)
P_VARIDX = (0, 0xFFFFFFFF, 70000)
P_EXTEND = ("pad", "repeat", "reflect")
P_MODES = (("clear", 0), ("src_over", 3), ("multiply", 23), ("hsl_luminosity", 27), ("xor", 11), ("plus", 12))
UNARY = {
    10: ("Glyph",), 12: ("Transform",), 14: ("dx", "dy"), 16: ("scaleX", "scaleY"), 18: ("scaleX", "scaleY", "centerX", "centerY"),
    20: ("scale",), 22: ("scale", "centerX", "centerY"), 24: ("angle",), 26: ("angle", "centerX", "centerY"),
    28: ("xSkewAngle", "ySkewAngle"), 30: ("xSkewAngle", "ySkewAngle", "centerX", "centerY"),
}
UNARY_KINDS = [(f, 0) for f in sorted(UNARY)] + [(f, 1) for f in sorted(UNARY) if f != 10]
LEAF_KINDS = [(2, 0), (4, 0), (6, 0), (8, 0), (11, 0), (2, 1), (4, 1), (6, 1), (8, 1)]


class _Salt:
    def __init__(self, n):
        self.n = n

    def pick(self, pool):
        self.n += 1
        return pool[self.n % len(pool)]


def colr_field(name, salt):
    if name in ("scaleX", "scaleY", "scale", "Alpha", "StopOffset"):
        return salt.pick(P_F214)
    if name in ("startAngle", "endAngle"):
        return salt.pick(P_SWEEP)
    if name in ("angle", "xSkewAngle", "ySkewAngle"):
        return salt.pick(P_ANGLE)
    if name in ("r0", "r1"):
        return salt.pick(P_UFWORD)
    return salt.pick(P_FWORD)


def colr_colorline(salt, var):
    stops = []
    for _ in range(1 + salt.pick((0, 1, 2))):
        st = {"StopOffset": colr_field("StopOffset", salt), "PaletteIndex": salt.pick(P_PAL), "Alpha": colr_field("Alpha", salt)}
        if var:
            st["VarIndexBase"] = salt.pick(P_VARIDX)
        stops.append(st)
    return {"Extend": salt.pick(P_EXTEND), "ColorStop": stops}


def colr_build(spec, salt):
    """spec -> paint dict in the vocabulary of colorLib (glyph names, enum names)."""
    kind = spec[0]
    if kind == "L":
        fmt, var = LEAF_KINDS[spec[1]]
        p = {"Format": fmt + var}
        if fmt == 2:
            p.update(PaletteIndex=salt.pick(P_PAL), Alpha=colr_field("Alpha", salt))
        elif fmt == 11:
            p.update(Glyph=salt.pick(("b", "c", "e")))
        else:
            p["ColorLine"] = colr_colorline(salt, var)
            names = {4: ("x0", "y0", "x1", "y1", "x2", "y2"), 6: ("x0", "y0", "r0", "x1", "y1", "r1"), 8: ("centerX", "centerY", "startAngle", "endAngle")}[fmt]
            for nme in names:
                p[nme] = colr_field(nme, salt)
        if var:
            p["VarIndexBase"] = salt.pick(P_VARIDX)
        return p
    if kind == "U":
        fmt, var = UNARY_KINDS[spec[1]]
        p = {"Format": fmt + var}
        for nme in UNARY[fmt]:
            if nme == "Glyph":
                p[nme] = salt.pick(("b", "c", "d"))
            elif nme == "Transform":
                p[nme] = {k: salt.pick(P_FIXED) for k in ("xx", "yx", "xy", "yy", "dx", "dy")}
                if var:
                    p[nme]["VarIndexBase"] = salt.pick(P_VARIDX)
            else:
                p[nme] = colr_field(nme, salt)
        if var and fmt != 12:
            p["VarIndexBase"] = salt.pick(P_VARIDX)
        p["Paint"] = colr_build(spec[2], salt)
        return p
    if kind == "C":
        return {"Format": 32, "SourcePaint": colr_build(spec[2], salt), "CompositeMode": P_MODES[spec[1]][0], "BackdropPaint": colr_build(spec[3], salt)}
    if kind == "Y":
        return {"Format": 1, "Layers": [colr_build(c, salt) for c in spec[1]]}
    if kind == "M":
        return {"Format": 1, "Layers": [{"Format": 10, "Glyph": "bcde"[i % 4], "Paint": {"Format": 2, "PaletteIndex": i % 7, "Alpha": 1.0}} for i in range(spec[1])]}
    raise KeyError(kind)


def colr_normal(p, gid=None):
    """Documented normalisation: nested PaintColrLayers are flattened, a single layer stands for
    itself.  With gid (name -> id) the result is in the struct reader's vocabulary."""
    if not isinstance(p, dict):
        return p
    out = {}
    for k, v in p.items():
        if k == "Layers":
            flat = []
            for c in v:
                c = colr_normal(c, gid)
                if c.get("Format") == 1:
                    flat.extend(c["Layers"])
                else:
                    flat.append(c)
            out[k] = flat
        elif k == "ColorStop":
            out[k] = [dict(st) for st in v]
        elif isinstance(v, dict):
            out[k] = colr_normal(v, gid)
        elif k == "Glyph" and gid is not None:
            out[k] = gid[v] if isinstance(v, str) else v
        elif k == "CompositeMode" and gid is not None:
            out[k] = dict(P_MODES)[v] if isinstance(v, str) else v
        else:
            out[k] = v
    if out.get("Format") == 1 and len(out["Layers"]) == 1:
        return out["Layers"][0]
    return out


def colr_specs(depth):
    """All paint tree shapes of depth <= `depth` in simplest-first order (nested lists)."""
    levels = [[["L", k] for k in range(len(LEAF_KINDS))]]
    for d in range(1, depth + 1):
        prev = levels[d - 1]
        below = [t for lv in levels[:d - 1] for t in lv]
        cur = []
        for k in range(len(UNARY_KINDS)):
            for t in prev:
                cur.append(["U", k, t])
        reps_prev = prev[:: max(1, len(prev) // 6)][:6]
        reps_all = (below[:3] if below else []) + reps_prev
        for mi in range(len(P_MODES)):
            for a in reps_prev:
                for b in reps_all:
                    if (mi + len(cur)) % 3 == 0 or d == 1:
                        cur.append(["C", mi, a, b])
                        cur.append(["C", mi, b, a])
        for a in reps_prev:
            for b in reps_all:
                cur.append(["Y", [a, b]])
                cur.append(["Y", [b, a, a]])
        if d >= 2:
            # layers inside layers (the builder may nest, the unbuilder flattens)
            for a in reps_prev:
                cur.append(["Y", [["Y", [["L", 0], ["L", 4]]], a]])
                cur.append(["Y", [a, ["Y", [["L", 1], a]], ["L", 0]]])
        levels.append(cur)
    for lv in levels:
        for t in lv:
            yield t


class ColrUnit(Unit):
    name = "COLR"
    rule = ("COLR v1 paint trees of depth <=2 (quick) / <=3 (thorough) from the paint grammar: leaves = Solid, Linear/Radial/Sweep "
            "gradient (1..3 stops, 3 extend modes), ColrGlyph and their Var forms; unary = Glyph, Transform, Translate, Scale*, "
            "Rotate*, Skew* (all 11 + Var forms) over every smaller tree; Composite (6 modes) and ColrLayers (2 and 3 layers, "
            "nested) over representative subtrees; 300-layer list; numeric fields cycle through F2Dot14 / Fixed / FWORD / UFWORD / "
            "angle limits; with/without clip boxes, a second base glyph sharing layers, layer reuse on/off; oracle: "
            "unbuildColrV1(decompile(compile(buildCOLR(tree)))) == tree after the documented flattening, struct reader of the COLR "
            "v1 binary decodes the same tree and clip boxes; distinct = each (tree, options)")
    required_witnesses = ("PaintColrLayers", "nested layers flattened", "PaintComposite", "Var paint", "gradient", "PaintTransform", "clip box", "clip box with varIndexBase",
                          "more than 255 layers", "two base glyphs")
    chunk = 50

    def cases(self, tier, seed):
        depth = 2 if tier == "quick" else 3
        for i, spec in enumerate(colr_specs(depth)):
            yield [spec, i % 4, i]
        for n in (255, 256, 300):
            yield [["M", n], 0, n]
            yield [["M", n], 3, n]

    def check(self, case, rec):
        spec, variant, idx = case
        font = _order_font(COLR_ORDER)
        gid = {n: i for i, n in enumerate(COLR_ORDER)}
        tree = colr_build(spec, _Salt(idx))
        glyphs = {"a": tree}
        if variant in (1, 3):
            # a second base glyph whose layers repeat part of the first: exercises layer reuse
            shared = tree["Layers"][:2] if tree.get("Format") == 1 else [tree, {"Format": 10, "Glyph": "b", "Paint": {"Format": 2, "PaletteIndex": 3, "Alpha": 0.5}}]
            glyphs["d"] = {"Format": 1, "Layers": list(shared) + [{"Format": 11, "Glyph": "e"}]}
            rec.witness("two base glyphs")
        clips = None
        if variant == 2:
            clips = {"a": (-32768, -1, 32767, 100)}
        elif variant == 3:
            clips = {"a": (0, 0, 10, 10, 70000), "d": (1, 2, 3, 4)}
        rec.nontrivial()
        self.witness_tree(spec, rec)
        cls = colr_class(spec)
        colr = buildCOLR(glyphs, version=1, glyphMap=gid, clipBoxes=clips, allowLayerReuse=variant != 2)
        data = colr.compile(font)
        c2 = newTable("COLR")
        c2.decompile(data, font)
        got = unbuildColrV1(c2.table.LayerList, c2.table.BaseGlyphList)
        want = {k: colr_normal(v) for k, v in glyphs.items()}
        if got != want:
            rec.violation("COLR:roundtrip:" + cls, "unbuildColrV1 differs: %s" % tree_diff(want, got), expected=want, observed=got)
        gotclips = {}
        if c2.table.ClipList is not None:
            for nme, box in c2.table.ClipList.clips.items():
                t = (box.xMin, box.yMin, box.xMax, box.yMax)
                gotclips[nme] = t + ((box.VarIndexBase,) if box.Format == 2 else ())
        if gotclips != (clips or {}):
            rec.violation("COLR:clipboxes", "clip boxes %r, expected %r" % (gotclips, clips))
        try:
            rd, rclips, v0 = R.colr_v1(data)
        except R.ReadError as e:
            rec.violation("COLR:reader:" + cls, "independent reader: %s" % e)
            return
        rwant = {gid[k]: colr_normal(v, gid) for k, v in glyphs.items()}
        rgot = {k: colr_normal(v) for k, v in rd.items()}
        if rgot != rwant:
            rec.violation("COLR:reader:" + cls, "struct reader decodes another tree: %s" % tree_diff(rwant, rgot), expected=rwant, observed=rgot)
        if rclips != {gid[k]: tuple(v) for k, v in (clips or {}).items()}:
            rec.violation("COLR:reader:clipboxes", "clip boxes %r, expected %r" % (rclips, clips))
        if v0:
            rec.violation("COLR:reader:v0-records", "unexpected v0 base glyph records %r" % (v0,))
        if clips:
            rec.witness("clip box")
            if any(len(v) == 5 for v in clips.values()):
                rec.witness("clip box with varIndexBase")

    def witness_tree(self, spec, rec):
        k = spec[0]
        if k == "M":
            rec.witness("PaintColrLayers")
            if spec[1] > 255:
                rec.witness("more than 255 layers")
            return
        if k == "Y":
            rec.witness("PaintColrLayers")
            for c in spec[1]:
                if c[0] == "Y":
                    rec.witness("nested layers flattened")
                self.witness_tree(c, rec)
        elif k == "C":
            rec.witness("PaintComposite")
            self.witness_tree(spec[2], rec)
            self.witness_tree(spec[3], rec)
        elif k == "U":
            fmt, var = UNARY_KINDS[spec[1]]
            if var:
                rec.witness("Var paint")
            if fmt == 12:
                rec.witness("PaintTransform")
            self.witness_tree(spec[2], rec)
        else:
            fmt, var = LEAF_KINDS[spec[1]]
            if var:
                rec.witness("Var paint")
            if fmt in (4, 6, 8):
                rec.witness("gradient")


def colr_class(spec):
    k = spec[0]
    if k == "L":
        return "format%d" % sum(LEAF_KINDS[spec[1]])
    if k == "U":
        return "format%d" % sum(UNARY_KINDS[spec[1]])
    return {"C": "composite", "Y": "layers", "M": "many-layers"}[k]


def tree_diff(a, b, path=""):
    if type(a) != type(b) and not (isinstance(a, (int, float)) and isinstance(b, (int, float))):
        return "%s: %r vs %r" % (path, a, b)
    if isinstance(a, dict):
        for k in sorted(set(a) | set(b), key=str):
            if k not in a or k not in b:
                return "%s/%s: present on one side only" % (path, k)
            d = tree_diff(a[k], b[k], "%s/%s" % (path, k))
            if d:
                return d
        return ""
    if isinstance(a, list):
        if len(a) != len(b):
            return "%s: %d vs %d items" % (path, len(a), len(b))
        for i, (x, y) in enumerate(zip(a, b)):
            d = tree_diff(x, y, "%s[%d]" % (path, i))
            if d:
                return d
        return ""
    return "" if a == b else "%s: %r vs %r" % (path, a, b)


def units():
    return [CmapUnit(), Cmap14Unit(), MetricsUnit(), GlyfSimpleUnit(), GlyfCompositeUnit(), LocaUnit(), NameUnit(), KernUnit(), PostUnit(), OS2Unit(), OtlUnit(), TupleStoreUnit(), GvarFontUnit(), FvarAvarUnit(), ColrUnit()]
