"""C13 - curve conversion stays within tolerance and keeps masters compatible.

Bounded exhaustive enumeration over control-point lattices (DESIGN.md section C13).  Every
unit enumerates a complete finite family of curves / splines / master pairs, runs the real
cu2qu / qu2cu code on each member and measures the result with an independent oracle
(oracles/c13_curves.py): the true maximum over the curve parameter of the distance between
the input and the output at the same parameter, from the real roots of the derivative of the
squared error polynomial (numpy), re-decided in exact rational arithmetic when the float value
is within 1e-6 of the tolerance.  Acceptance: error <= tolerance * (1 + 1e-9), end points
bit-identical, all splines of one call of equal length, ApproxNotFoundError only when the
MAX_N-segment candidate does not fit.
"""
from mc import env  # noqa: F401
from mc.kernel import Unit

import itertools
import types

from fontTools.cu2qu import cu2qu as _cu2qu
from fontTools.cu2qu.cu2qu import curve_to_quadratic, curves_to_quadratic
from fontTools.cu2qu.errors import (
    ApproxNotFoundError,
    IncompatibleFontsError,
    IncompatibleSegmentNumberError,
    IncompatibleSegmentTypesError,
)
from fontTools.cu2qu import ufo as _ufo
from fontTools.qu2cu.qu2cu import quadratic_to_curves
from fontTools.pens.cu2quPen import Cu2QuPen, Cu2QuPointPen, Cu2QuMultiPen
from fontTools.pens.qu2cuPen import Qu2CuPen
from fontTools.pens.recordingPen import RecordingPen, RecordingPointPen
from fontTools.pens.pointPen import SegmentToPointPen

from oracles import c13_curves as OC
from oracles import c13_pens as OP

LEVEL = "exploration"
ASSUMPTIONS = [
    "decides the property only for the enumerated lattices (control points on {0,100,200}^2, {0,..,300}^2 in thorough, their x0.01 / x100 / +10^4 images) and the tolerance set {0.001,0.5,1,10} (+25 for qu2cu); curves off the lattice are not covered",
    "the error measure is the one the library documents: distance at the same curve parameter (piece i of n equal-parameter pieces vs quadratic segment i; for qu2cu the returned cubic cut at the knot parameters given by the tangent-length ratios of the input spline), not Hausdorff distance; a sampled two-sided Hausdorff lower bound (parametrisation-free) decides only where the knot parameters are undefined and cross-checks the oracle on merged cubics near the bound",
    "cu2qu/qu2cu run as pure Python (COMPILED is False in this tree)",
    "numpy (eigvals/roots) is trusted to find critical points; every candidate parameter is evaluated, so a missed root can only hide a violation; near-tolerance decisions are exact (Fraction)",
    "ApproxNotFoundError is accepted when the MAX_N(=100)-segment spline of the documented tangent-preserving scheme, rebuilt by the oracle, does not fit; minimality of the returned segment count is not checked",
    "RecordingPen/RecordingPointPen/SegmentToPointPen are trusted as sinks and as the storage of the duck-typed glyphs (pen adapters are C14's subject)",
]

TOLS = (0.001, 0.5, 1, 10)
QTOLS = (0.001, 0.5, 1, 10, 25)
MAX_N = 100  # the bound the property names; deliberately not read from the module under test

L3 = OC.lattice_points(3)
L4 = OC.lattice_points(4)


def tup(pts):
    return [(p.real, p.imag) for p in pts]


def cplx(pts):
    return [complex(p[0], p[1]) for p in pts]


# ------------------------------------------------------------------ shared checking code
def V(rec, fkey, msg, ctx=None, **kw):
    """Violation on the current (shard-level) case, so that --replay re-runs exactly the
    enumeration block that contains it; `ctx` names the member of the block."""
    rec.violation(fkey, msg if ctx is None else "%s  [at %r]" % (msg, ctx), **kw)


def shape_witnesses(rec, cub):
    p0, p1, p2, p3 = cub
    if p0 == p1 == p2 == p3:
        rec.witness("shape: all four points coincide")
        return False
    if OC.is_collinear(cub):
        rec.witness("shape: collinear control polygon")
    elif OC.polygon_crosses(p0, p1, p2, p3):
        rec.witness("shape: crossing handles (loop/cusp)")
    else:
        rec.witness("shape: plain arch / S")
    if p0 == p1 or p2 == p3:
        rec.witness("shape: zero-length handle")
    if p0 == p3:
        rec.witness("shape: closed (p0 == p3)")
    return True


def valid_points(r):
    return isinstance(r, list) and all(
        isinstance(p, tuple) and len(p) == 2 and all(isinstance(v, float) and v == v and abs(v) != float("inf") for v in p)
        for p in r
    )


def judge_spline(rec, fk, cub, result, tol, all_quadratic, ctx, force_exact=False):
    """Oracle for one input cubic and the point list returned for it.  Returns n or None."""
    if not valid_points(result) or len(result) < 3:
        V(rec, fk + ":shape", "result is not a list of >= 3 finite 2-tuples: %r" % (result,), ctx=ctx)
        return None
    sp = cplx(result)
    if sp[0] != cub[0] or sp[-1] != cub[3]:
        V(rec, fk + ":endpoints", "end points not preserved: curve %r -> %r" % (tup(cub), result), ctx=ctx,
          observed=[result[0], result[-1]], expected=[tup(cub)[0], tup(cub)[3]])
        return None
    if not all_quadratic and len(sp) not in (3, 4):
        V(rec, fk + ":all_quadratic=False-length", "all_quadratic=False returned %d points" % len(sp), ctx=ctx)
        return None
    if not all_quadratic and len(sp) == 4:
        ok, err = OC.check_cubic_vs_cubic(cub, sp, tol)
        rec.witness("result: cubic kept (all_quadratic=False)")
        if not ok:
            V(rec, fk + ":tolerance-cubic", "returned cubic deviates by %r > tolerance %r from %r" % (err, tol, tup(cub)), ctx=ctx,
              observed=err, expected="<= %r" % tol)
        return 2
    res = OC.check_cubic_vs_spline(cub, sp, tol, force_exact=force_exact)
    if res["selfcheck"]:
        V(rec, "oracle-selfcheck", res["selfcheck"], ctx=ctx)
    if res["exact_used"]:
        rec.witness("oracle: exact rational evaluation used")
    if not res["ok"]:
        V(rec, fk + ":tolerance",
          "curve %r tolerance %r all_quadratic=%s: %d-segment result deviates by %r (segment %d, s=%.6f) > tolerance"
          % (tup(cub), tol, all_quadratic, res["n"], res["err"], res["seg"], res["s"]),
          ctx=ctx, observed=res["err"], expected="<= %r * (1+1e-9)" % tol)
        return res["n"]
    n = res["n"]
    if n == 1:
        rec.witness("result: single quadratic")
    elif n < 10:
        rec.witness("result: spline of 2..9 segments")
    else:
        rec.witness("result: spline of >= 10 segments")
    if n == MAX_N:
        rec.witness("result: exactly MAX_N segments")
    if res["err"] > 0.5 * tol:
        rec.witness("error above half the tolerance")
    if res["err"] > 0.9 * tol:
        rec.witness("error above 0.9 of the tolerance")
    return n


def raise_justified(cub, tol):
    """True when the MAX_N-segment candidate of the documented scheme does not fit comfortably."""
    ref = OC.reference_spline(cub, MAX_N)
    res = OC.check_cubic_vs_spline(cub, ref, tol * (1 - 1e-6))
    return (not res["ok"]), res["err"]


def run_single(rec, cub, tol, aq, ctx, force_exact=False):
    try:
        r = curve_to_quadratic(tup(cub), tol, aq)
    except ApproxNotFoundError:
        rec.witness("ApproxNotFoundError raised")
        if not aq:
            V(rec, "curve_to_quadratic:raise-unjustified", "all_quadratic=False raised although the cubic itself is an exact answer", ctx=ctx)
            return "raise"
        just, err = raise_justified(cub, tol)
        if just:
            rec.witness("raise justified: MAX_N-segment candidate misses the tolerance")
        else:
            V(rec, "curve_to_quadratic:raise-unjustified",
              "ApproxNotFoundError for %r tolerance %r, but the %d-segment spline fits with error %r" % (tup(cub), tol, MAX_N, err), ctx=ctx)
        return "raise"
    return judge_spline(rec, "curve_to_quadratic", cub, r, tol, aq, ctx, force_exact)


def run_multi(rec, cubs, tols, aq, ctx):
    try:
        rs = curves_to_quadratic([tup(c) for c in cubs], list(tols), aq)
    except ApproxNotFoundError:
        rec.witness("ApproxNotFoundError raised")
        if not aq:
            V(rec, "curves_to_quadratic:raise-unjustified", "all_quadratic=False raised although the cubics themselves are an exact answer", ctx=ctx)
            return "raise"
        js = [raise_justified(c, t) for c, t in zip(cubs, tols)]
        if any(j for j, _ in js):
            rec.witness("raise justified: MAX_N-segment candidate misses the tolerance")
        else:
            V(rec, "curves_to_quadratic:raise-unjustified",
              "ApproxNotFoundError for %r tolerances %r, but the %d-segment splines all fit (errors %r)" % ([tup(c) for c in cubs], tols, MAX_N, [e for _, e in js]), ctx=ctx)
        return "raise"
    if not isinstance(rs, list) or len(rs) != len(cubs):
        V(rec, "curves_to_quadratic:count", "%d curves in, %r out" % (len(cubs), rs), ctx=ctx)
        return None
    lens = [len(r) for r in rs]
    if len(set(lens)) != 1:
        V(rec, "curves_to_quadratic:length-mismatch", "splines of one call have %r points; curves %r tolerances %r all_quadratic=%s" % (lens, [tup(c) for c in cubs], tols, aq),
          ctx=ctx, observed=lens, expected="all equal")
    ns = []
    for c, r, t in zip(cubs, rs, tols):
        ns.append(judge_spline(rec, "curves_to_quadratic", c, r, t, aq, ctx))
    return ns


# ------------------------------------------------------------------ A: single cubics
class CubicLattice(Unit):
    name = "cubic-lattice"
    rule = ("every cubic with 4 control points on the 3x3 lattice {0,100,200}^2 (9^4=6561; thorough: 4x4 lattice {0..300}^2, 65536) x tolerance {0.001,0.5,1,10} x all_quadratic {T,F} through "
            "curve_to_quadratic: end points identical, true max same-parameter deviation of every segment (roots of the degree-5 derivative, exact re-decision near the bound) <= tol*(1+1e-9), "
            "all_quadratic=False gives 3 or 4 points; distinct = each (curve,tol,flag) that is not a single point")
    chunk = 6
    required_witnesses = (
        "shape: all four points coincide", "shape: collinear control polygon", "shape: crossing handles (loop/cusp)",
        "shape: plain arch / S", "shape: zero-length handle", "shape: closed (p0 == p3)",
        "result: single quadratic", "result: spline of 2..9 segments", "result: spline of >= 10 segments",
        "result: cubic kept (all_quadratic=False)", "error above 0.9 of the tolerance", "oracle: exact rational evaluation used",
    )

    def cases(self, tier, seed):
        k = 3 if tier == "quick" else 4
        for i0, i1, i2 in itertools.product(range(k * k), repeat=3):
            yield [k, i0, i1, i2]

    def bounds(self, tier, seed):
        k = 3 if tier == "quick" else 4
        return {"lattice": "%dx%d x100" % (k, k), "curves": (k * k) ** 4, "tolerances": list(TOLS), "all_quadratic": [True, False]}

    def check(self, case, rec):
        k, i0, i1, i2 = case
        L = L3 if k == 3 else L4
        n = nt = 0
        for i3 in range(k * k):
            cub = [L[i0], L[i1], L[i2], L[i3]]
            nontrivial = shape_witnesses(rec, cub)
            for ti, tol in enumerate(TOLS):
                for aq in (True, False):
                    n += 1
                    nt += nontrivial
                    # exercise the exact path on a fixed 1/8 of the curves as a self-check
                    fe = (i0 + 3 * i1 + 5 * i2 + 7 * i3 + ti) % 8 == 0
                    run_single(rec, cub, tol, aq, [k, i0, i1, i2, i3, tol, aq], force_exact=fe)
        rec.evals(n - 1)
        rec.nontrivial_n(nt)


FAMILIES = {
    "x0.01": (1, 0j),  # lattice {0,1,2}^2  (= the x100 lattice scaled by 0.01, exactly)
    "x100": (10000, 0j),
    "+1e4": (100, complex(10000, 10000)),
    "x100+1e6": (10000, complex(1000000, -1000000)),
    "-1e4": (100, complex(-10200, 300)),
}


class CubicFamilies(Unit):
    name = "cubic-families"
    rule = ("scale / translation images of the lattice cubics: x0.01, x100, +(10^4,10^4) (thorough: also x100+(10^6,-10^6), +(-10200,300)) of every cubic with p0=(0,0) and p1..p3 on the 3x3 lattice "
            "(729; thorough: p0 free, 6561) x tolerance set x all_quadratic: same oracle as cubic-lattice (the oracle translates by p0 exactly); ApproxNotFoundError accepted only when the "
            "100-segment candidate spline misses the tolerance; MAX_N boundary: per curve two tolerances placed (from the oracle's own error of the 99/100/101-segment candidates) so that exactly "
            "100 segments are needed / just not enough, single and in a pair; distinct = each (family,curve,tol,flag)")
    chunk = 4
    required_witnesses = ("ApproxNotFoundError raised", "raise justified: MAX_N-segment candidate misses the tolerance",
                          "result: single quadratic", "result: spline of >= 10 segments", "error above 0.9 of the tolerance",
                          "boundary: first fit with exactly MAX_N segments", "boundary: MAX_N segments miss, error raised",
                          "boundary: pair converted with exactly MAX_N segments")

    def fams(self, tier):
        return ["x0.01", "x100", "+1e4"] + (["x100+1e6", "-1e4"] if tier == "thorough" else [])

    def cases(self, tier, seed):
        for fam in self.fams(tier):
            for i0 in (range(9) if tier == "thorough" else (0,)):
                for i1, i2 in itertools.product(range(9), repeat=2):
                    yield [fam, i0, i1, i2]
        for i1, i2 in itertools.product(range(9), repeat=2):
            yield ["maxn", 0, i1, i2]

    def bounds(self, tier, seed):
        return {"families": self.fams(tier), "curves_per_family": 6561 if tier == "thorough" else 729, "tolerances": list(TOLS)}

    def check_maxn(self, case, rec):
        """Tolerances placed on both sides of the MAX_N boundary: with e_n the true error of the
        n-segment candidate (measured by the oracle), tol = sqrt(e_99*e_100) is met with exactly
        100 segments, tol = sqrt(e_100*e_101) only with 101 (so the call must raise)."""
        _, i0, i1, i2 = case
        n = 0
        for i3 in range(9):
            cub = [L3[i0], L3[i1], L3[i2], L3[i3]]
            e = {}
            for k in (MAX_N - 1, MAX_N, MAX_N + 1):
                e[k] = OC.check_cubic_vs_spline(cub, OC.reference_spline(cub, k), float("inf"))["err"]
            if not (e[MAX_N - 1] > 1.005 * e[MAX_N] > 1.005 * 1.005 * e[MAX_N + 1] > 0):
                continue  # degenerate curve (no cubic term) or non-monotone errors: no boundary to aim at
            hi = (e[MAX_N - 1] * e[MAX_N]) ** 0.5
            lo = (e[MAX_N] * e[MAX_N + 1]) ** 0.5
            n += 4
            r = run_single(rec, cub, hi, True, ["maxn-fit", i1, i2, i3, hi])
            if r == MAX_N:
                rec.witness("boundary: first fit with exactly MAX_N segments")
            if run_single(rec, cub, lo, True, ["maxn-miss", i1, i2, i3, lo]) == "raise":
                rec.witness("boundary: MAX_N segments miss, error raised")
            easy = [L3[0], L3[1], L3[4], L3[5]]
            r = run_multi(rec, [cub, easy], (hi, 10.0), True, ["maxn-fit-pair", i1, i2, i3, hi])
            if isinstance(r, list) and r[0] == MAX_N:
                rec.witness("boundary: pair converted with exactly MAX_N segments")
            run_multi(rec, [easy, cub], (10.0, lo), True, ["maxn-miss-pair", i1, i2, i3, lo])
        if n:
            rec.evals(n - 1)
            rec.nontrivial_n(n)

    def check(self, case, rec):
        fam, i0, i1, i2 = case
        if fam == "maxn":
            return self.check_maxn(case, rec)
        scale, off = FAMILIES[fam]
        L = [p / 100 * scale + off for p in L3]
        n = nt = 0
        for i3 in range(9):
            cub = [L[i0], L[i1], L[i2], L[i3]]
            nontrivial = not (cub[0] == cub[1] == cub[2] == cub[3])
            for tol in TOLS:
                for aq in (True, False):
                    n += 1
                    nt += nontrivial
                    run_single(rec, cub, tol, aq, [fam, i0, i1, i2, i3, tol, aq])
        rec.evals(n - 1)
        rec.nontrivial_n(nt)


# ------------------------------------------------------------------ B: several curves at once
def sub81(kind):
    """81-curve sub-lattices: end points fixed, both handles free on the 3x3 lattice."""
    p0, p3 = {"row": (L3[0], L3[2]), "diag": (L3[0], L3[8]), "closed": (L3[4], L3[4])}[kind]
    return [[p0, L3[i1], L3[i2], p3] for i1 in range(9) for i2 in range(9)]


S81 = {k: sub81(k) for k in ("row", "diag", "closed")}
S27_IDX = [i1 * 9 + i2 for i1 in (0, 4, 8) for i2 in range(9)]
TOL_PAIRS = [(a, b) for a in TOLS for b in TOLS]
TOL_DIAG = [(a, a) for a in TOLS]
TOL_MIXED = [(a, b) for a in TOLS for b in TOLS if a != b]


def tol_pairs(tier, seed):
    """thorough: all 16 per-curve tolerance pairs; quick: the 4 equal pairs + 6 of the 12 mixed
    pairs, the seed choosing which half (seeds 0 and 1 together cover all 16)."""
    if tier != "quick":
        return TOL_PAIRS
    return TOL_DIAG + [TOL_MIXED[(6 * seed + i) % 12] for i in range(6)]
TOL_TRIPLES = [(a, a, a) for a in TOLS] + [(0.001, 10, 1), (10, 0.001, 0.5), (1, 0.5, 0.001), (0.5, 10, 10),
                                          (10, 1, 0.001), (0.001, 0.001, 10), (1, 10, 0.5), (0.5, 1, 10)]


class CurvePairs(Unit):
    name = "curves-pairs"
    rule = ("curves_to_quadratic on every ordered pair of the 81-curve sub-lattice (p0=(0,0), p3=(200,0), handles free on the 3x3 lattice) x per-curve tolerance pairs (quick: 4 equal + 6 seed-chosen mixed of 12; thorough: all 16) x all_quadratic {T,F} "
            "(thorough: also the sub-lattices with p3=(200,200) and p0=p3=(100,100), and every ordered triple of a 27-curve subset x 12 tolerance triples); plus x100 images with tolerance 0.001 "
            "(no approximation within 100 segments) and x0.01 images x 4 tolerance pairs; every list [A, B, A] over the sub-lattice x 3 tolerance triples: all results of one call have the same number of points, each keeps its end points and stays within its own tolerance; "
            "ValueError on mismatched max_errors, [] for []; distinct = each (curves,tolerances,flag)")
    chunk = 2
    required_witnesses = ("pair needs more segments than one curve alone", "result: cubic kept (all_quadratic=False)", "result: single quadratic",
                          "result: spline of >= 10 segments", "ApproxNotFoundError raised", "raise justified: MAX_N-segment candidate misses the tolerance",
                          "error above 0.9 of the tolerance", "api: mismatched max_errors rejected", "list with a repeated curve")

    def cases(self, tier, seed):
        yield ["api"]
        tps = [list(t) for t in tol_pairs(tier, seed)]
        kinds = ("row",) if tier == "quick" else ("row", "diag", "closed")
        for kind in kinds:
            for a in range(81):
                for blk in range(9):
                    yield ["pair", kind, a, blk, tps]
        for a in range(81):
            yield ["raise", a]
        # lists with a repeated curve: [A, B, A] for every ordered pair (a duplicate that is not
        # adjacent to its twin, with a curve in between that may need more segments)
        for a in range(81):
            yield ["aba", a]
        for a in range(81):
            yield ["small", a]
        if tier == "thorough":
            for a in S27_IDX:
                for b in S27_IDX:
                    yield ["triple", a, b]

    def bounds(self, tier, seed):
        return {"sublattices": ["row"] if tier == "quick" else ["row", "diag", "closed"], "pairs_per_sublattice": 6561, "tolerance_pairs": [list(t) for t in tol_pairs(tier, seed)],
                "triples": 0 if tier == "quick" else 27 ** 3, "tolerance_triples": len(TOL_TRIPLES)}

    def check(self, case, rec):
        kind = case[0]
        n = 0
        if kind == "api":
            if curves_to_quadratic([], []) != []:
                V(rec, "curves_to_quadratic:empty", "curves_to_quadratic([], []) != []")
            for errs in ([], [1.0, 1.0]):
                try:
                    curves_to_quadratic([tup(S81["row"][5])], errs)
                    V(rec, "curves_to_quadratic:max_errors-length", "max_errors %r accepted for one curve" % (errs,))
                except ValueError:
                    rec.witness("api: mismatched max_errors rejected")
            rec.nontrivial_n(3)
            return
        if kind == "pair":
            _, sub, a, blk, tps = case
            S = S81[sub]
            for b in range(blk * 9, blk * 9 + 9):
                for ta, tb in tps:
                    for aq in (True, False):
                        n += 1
                        ns = run_multi(rec, [S[a], S[b]], (ta, tb), aq, [sub, a, b, ta, tb, aq])
                        if aq and isinstance(ns, list) and a != b and None not in ns:
                            # shape witness from outputs: the joint call used more segments than the
                            # coarser-tolerance curve needs alone (checked on one fixed slice only)
                            if ta == tb == 1 and b % 9 == 0:
                                alone = curve_to_quadratic(tup(S[a]), ta, True)
                                if len(alone) - 2 < ns[0]:
                                    rec.witness("pair needs more segments than one curve alone")
        elif kind == "small":
            a = case[1]
            S = [[p / 100 for p in c] for c in S81["row"]]
            for b in range(81):
                for tolp in ((0.001, 0.5), (0.5, 0.5), (10, 0.001), (1, 1)):
                    for aq in (True, False):
                        n += 1
                        run_multi(rec, [S[a], S[b]], tolp, aq, ["x0.01", a, b, tolp, aq])
        elif kind == "aba":
            a = case[1]
            S = S81["row"]
            for b in range(81):
                for tt in ((1, 1, 1), (1, 0.001, 1), (10, 1, 0.5)):
                    for aq in (True, False):
                        n += 1
                        run_multi(rec, [S[a], S[b], S[a]], tt, aq, ["aba", a, b, tt, aq])
            rec.witness("list with a repeated curve")
        elif kind == "raise":
            a = case[1]
            S = [[p * 100 for p in c] for c in S81["row"]]
            for b in range(81):
                for tolp in ((0.001, 10), (10, 0.001), (0.001, 0.001)):
                    n += 1
                    run_multi(rec, [S[a], S[b]], tolp, True, ["x100", a, b, tolp])
        else:
            _, a, b = case
            S = S81["row"]
            for c in S27_IDX:
                for tt in TOL_TRIPLES:
                    for aq in (True, False):
                        n += 1
                        run_multi(rec, [S[a], S[b], S[c]], tt, aq, ["triple", a, b, c, tt, aq])
        rec.evals(n - 1)
        rec.nontrivial_n(n)


# ------------------------------------------------------------------ C: quadratic -> cubic
def qu2cu_witnesses(rec, info, tol):
    if info["merged"]:
        rec.witness("cubic replaces >= 2 quadratic segments")
        if info["max_r"] >= 3:
            rec.witness("cubic replaces >= 3 quadratic segments")
        if info["max_err"] > 0.5 * tol:
            rec.witness("merge error above half the tolerance")
        if info["max_err"] > 0.9 * tol:
            rec.witness("merge error above 0.9 of the tolerance")
        if info["hausdorff"] > 0.5 * tol:
            rec.witness("Hausdorff cross-check evaluated near the bound")
    if info["quads"]:
        rec.witness("quadratic segment kept")
    if info["cubics"] > info["merged"]:
        rec.witness("single segment elevated to a cubic")


def run_qu2cu(rec, quads, tol, all_cubic, ctx, as_complex=False):
    """quads: list of splines of complex points."""
    arg = [list(sp) for sp in quads] if as_complex else [tup(sp) for sp in quads]
    curves = quadratic_to_curves(arg, tol, all_cubic)
    if not isinstance(curves, list):
        V(rec, "quadratic_to_curves:shape", "returned %r" % (curves,), ctx=ctx)
        return None
    if as_complex:
        if not all(isinstance(p, complex) for c in curves for p in c):
            V(rec, "quadratic_to_curves:point-format", "complex input but output %r" % (curves,), ctx=ctx)
            return None
        cv = [tuple(c) for c in curves]
    else:
        if not all(isinstance(c, tuple) and all(isinstance(p, tuple) and len(p) == 2 for p in c) for c in curves):
            V(rec, "quadratic_to_curves:point-format", "tuple input but output %r" % (curves,), ctx=ctx)
            return None
        cv = [tuple(complex(*p) for p in c) for c in curves]
    if all_cubic and any(len(c) != 4 for c in cv):
        V(rec, "quadratic_to_curves:all_cubic", "all_cubic=True returned a curve with %r points" % ([len(c) for c in cv],), ctx=ctx)
    probs, info = OC.check_qu2cu_output(quads, cv, tol)
    for key, msg in probs:
        V(rec, "quadratic_to_curves:" + key, "splines %r tolerance %r all_cubic=%s -> %r: %s" % ([tup(s) for s in quads], tol, all_cubic, curves, msg), ctx=ctx)
    if info["selfcheck"]:
        V(rec, "oracle-selfcheck", info["selfcheck"], ctx=ctx)
    if not probs:
        qu2cu_witnesses(rec, info, tol)
    return cv


class Qu2cuLattice(Unit):
    name = "qu2cu-lattice"
    rule = ("every quadratic B-spline with k off-curve points (k segments) and all k+2 points on the 3x3 lattice, k=1..3 complete (9^3+9^4+9^5), k=4 with first point (0,0) (thorough: k=4 complete, 9^6) "
            "x tolerance {0.001,0.5,1,10,25} x all_cubic {T,F} through quadratic_to_curves: curves connect, start/end identical, cover the segments in order, every cubic within tolerance of the "
            "segments it replaces at the knot parametrisation (exact near the bound; Hausdorff cross-check near the bound); tuple and complex input formats agree; distinct = each (spline,tol,flag)")
    chunk = 8
    required_witnesses = ("cubic replaces >= 2 quadratic segments", "cubic replaces >= 3 quadratic segments", "quadratic segment kept",
                          "single segment elevated to a cubic", "merge error above 0.9 of the tolerance", "Hausdorff cross-check evaluated near the bound",
                          "complex-number input format", "api: invalid input rejected")

    def cases(self, tier, seed):
        yield ["api"]
        for k in (1, 2, 3):
            for pre in itertools.product(range(9), repeat=k):
                yield [k, "all"] + list(pre)
        firsts = range(9) if tier == "thorough" else (0,)
        for i0 in firsts:
            for pre in itertools.product(range(9), repeat=3):
                yield [4, "all" if tier == "thorough" else "3tol", i0] + list(pre)

    def bounds(self, tier, seed):
        return {"k": [1, 2, 3, 4], "k4_first_points": 9 if tier == "thorough" else 1, "tolerances": list(QTOLS), "all_cubic": [True, False]}

    def check(self, case, rec):
        if case[0] == "api":
            bad = [
                ([[(0, 0), (1, 1)]], 1.0),
                ([[(0, 0), (1, 1), (2, 0)], [(5, 5), (6, 6), (7, 7)]], 1.0),
                ([[(0, 0), (1, 1), (2, 0)]], 0),
                ([[(0, 0), (1, 1), (2, 0)]], -1.0),
            ]
            for quads, tol in bad:
                try:
                    r = quadratic_to_curves(quads, tol)
                    V(rec, "quadratic_to_curves:invalid-accepted", "%r tolerance %r accepted -> %r" % (quads, tol, r))
                except ValueError:
                    rec.witness("api: invalid input rejected")
            if quadratic_to_curves([], 1.0) != []:
                V(rec, "quadratic_to_curves:empty", "[] -> non-empty")
            rec.nontrivial_n(5)
            return
        k, tolset, pre = case[0], case[1], case[2:]
        n = 0
        for rest in itertools.product(range(9), repeat=k + 2 - len(pre)):
            idx = list(pre) + list(rest)
            sp = [L3[i] for i in idx]
            alt = sum(idx) % 16 == 0
            for tol in (QTOLS if tolset == "all" else (0.001, 10, 25)):
                for ac in (False, True):
                    n += 1
                    cv = run_qu2cu(rec, [sp], tol, ac, [idx, tol, ac])
                    if alt and cv is not None:
                        cv2 = run_qu2cu(rec, [sp], tol, ac, [idx, tol, ac, "complex"], as_complex=True)
                        rec.witness("complex-number input format")
                        if cv2 is not None and cv2 != cv:
                            V(rec, "quadratic_to_curves:format-dependent", "tuple and complex inputs give different curves for %r" % (tup(sp),), ctx=[idx, tol, ac])
        rec.evals(n - 1)
        rec.nontrivial_n(n)


L23 = [complex(100 * x, 100 * y) for y in range(2) for x in range(3)]  # 2 rows x 3 columns


class Qu2cuMulti(Unit):
    name = "qu2cu-multi"
    rule = ("lists of 2..3 connecting quadratic splines (explicit on-curve joints, which may be corners) with off-curve counts (1,1),(1,2),(2,1),(1,1,1) (thorough: also (2,2)) and every point on the "
            "2x3 lattice {0,100,200}x{0,100} (quick: first point fixed for the shapes with >= 6 points) x tolerance {0.5,10,25} x all_cubic: same oracle as qu2cu-lattice; distinct = each (list,tol,flag)")
    chunk = 8
    required_witnesses = ("cubic replaces >= 2 quadratic segments", "cubic spans an explicit on-curve joint", "corner joint (tangent break) in the input",
                          "quadratic segment kept")
    SHAPES = {"11": (1, 1), "12": (1, 2), "21": (2, 1), "111": (1, 1, 1), "22": (2, 2)}

    def cases(self, tier, seed):
        shapes = ["11", "12", "21", "111"] + (["22"] if tier == "thorough" else [])
        for sh in shapes:
            npts = sum(self.SHAPES[sh]) + len(self.SHAPES[sh]) + 1
            free_first = tier == "thorough" or npts <= 5
            for pre in itertools.product(range(6), repeat=npts - 3):
                if not free_first and pre[0] != 0:
                    continue
                yield [sh] + list(pre)

    def bounds(self, tier, seed):
        return {"lattice": "3x2 x100", "shapes": ["11", "12", "21", "111"] + (["22"] if tier == "thorough" else []), "tolerances": [0.5, 10, 25]}

    def check(self, case, rec):
        sh, pre = case[0], case[1:]
        ks = self.SHAPES[sh]
        npts = sum(ks) + len(ks) + 1
        n = 0
        for rest in itertools.product(range(6), repeat=npts - len(pre)):
            idx = list(pre) + list(rest)
            pts = [L23[i] for i in idx]
            quads, pos = [], 0
            for kk in ks:
                quads.append(pts[pos : pos + kk + 2])
                pos += kk + 1
            K, O = OC.flatten_splines(quads)
            # joints between splines are explicit on-curve points: a corner when not collinear-and-between
            joints, acc = [], 0
            for kk in ks[:-1]:
                acc += kk
                joints.append(acc)
            corner = False
            for j in joints:
                a, b, c = O[j - 1], K[j], O[j]
                if abs(((b - a).conjugate() * (c - b)).imag) > 0 or ((b - a).conjugate() * (c - b)).real < 0:
                    corner = True
            if corner:
                rec.witness("corner joint (tangent break) in the input")
            for tol in (0.5, 10, 25):
                for ac in (False, True):
                    n += 1
                    cv = run_qu2cu(rec, quads, tol, ac, [sh, idx, tol, ac])
                    if cv and len(cv) < len(O) and any(len(c) == 4 for c in cv):
                        # a cubic spans a joint when no returned curve ends at it
                        ends = {c[-1] for c in cv}
                        if any(K[j] not in ends for j in joints):
                            rec.witness("cubic spans an explicit on-curve joint")
        rec.evals(n - 1)
        rec.nontrivial_n(n)


# ------------------------------------------------------------------ D: pens
FAR = complex(1000, 500)


def judge_curve_seg(rec, fk, cub, oseg, tol, aq, ctx):
    """oseg: (kind, points) of the output segment standing for input cubic `cub`."""
    kind, pts = oseg
    result = tup(pts)
    if kind == "curve":
        if len(pts) != 4:
            V(rec, fk + ":shape", "curve segment with %d points" % len(pts), ctx=ctx)
            return None
        if aq:
            V(rec, fk + ":cubic-left", "all_quadratic=True but a cubic segment was emitted: %r" % (result,), ctx=ctx)
            return None
        return judge_spline(rec, fk, cub, result, tol, False, ctx)
    if not aq and len(pts) != 3:
        V(rec, fk + ":all_quadratic=False-length", "all_quadratic=False emitted a %d-point quadratic spline" % len(pts), ctx=ctx)
        return None
    return judge_spline(rec, fk, cub, result, tol, True, ctx)


def check_contours(rec, fk, in_contours, out_contours, reverse, tols, aq, ctx):
    """in/out: canonical contours (per master a list).  tols: tolerance per master.
    Every input line must come back as the same line, every cubic as one qcurve/curve segment
    within tolerance; the point counts of corresponding segments agree across masters."""
    counts = []
    for m, (ins, outs) in enumerate(zip(in_contours, out_contours)):
        if len(ins) != len(outs):
            V(rec, fk + ":contour-count", "master %d: %d contours in, %d out" % (m, len(ins), len(outs)), ctx=ctx)
            return None
        mcounts = []
        for ci, (ic, oc) in enumerate(zip(ins, outs)):
            if ic["closed"] != oc["closed"]:
                V(rec, fk + ":open-closed", "master %d contour %d: closed=%s became closed=%s" % (m, ci, ic["closed"], oc["closed"]), ctx=ctx)
                return None
            if reverse:
                oc = OP.unreverse(oc)
            pairs = OP.match_cyclic(ic["segs"], oc["segs"], ic["closed"])
            if pairs is None:
                V(rec, fk + ":structure", "master %d contour %d: output segments %r do not correspond one-to-one (same on-curve points, in order%s) to input %r"
                              % (m, ci, [(k, tup(p)) for k, p in oc["segs"]], ", reversed" if reverse else "", [(k, tup(p)) for k, p in ic["segs"]]), ctx=ctx)
                return None
            for (ik, ip), oseg in pairs:
                if ik == "curve":
                    judge_curve_seg(rec, fk, ip, oseg, tols[m], aq, ctx)
                    mcounts.append((oseg[0], len(oseg[1])))
                elif ik == "qcurve":
                    if oseg[0] != "qcurve" or oseg[1] != ip:
                        V(rec, fk + ":qcurve-changed", "master %d: quadratic input segment %r came back as %r" % (m, tup(ip), (oseg[0], tup(oseg[1]))), ctx=ctx)
        counts.append(mcounts)
    if any(c != counts[0] for c in counts[1:]):
        V(rec, fk + ":masters-incompatible", "corresponding converted segments differ in kind/point count across masters: %r" % (counts,), ctx=ctx,
                      observed=counts, expected="identical lists")
        return None
    return counts


def draw_cubic_contour(pen, cubs, closed=True):
    """moveTo(c0.p0) curveTo(c0) [lineTo(start of next + shift) curveTo(next)...] lineTo(FAR) close/end."""
    shift = 0j
    first = True
    for c in cubs:
        pts = tup([p + shift for p in c])
        if first:
            pen.moveTo(pts[0])
            first = False
        else:
            pen.lineTo(pts[0])
        pen.curveTo(*pts[1:])
        shift += complex(1000, 0)
    pen.lineTo((FAR.real + shift.real, FAR.imag))
    if closed:
        pen.closePath()
    else:
        pen.endPath()


class Pens(Unit):
    name = "pens"
    rule = ("Cu2QuPen and Cu2QuPointPen on a closed and an open contour 'cubic, line, cubic, line' for every cubic with p0=(0,0), p1..p3 on the 3x3 lattice (729) x tolerance set x all_quadratic x reverse_direction; "
            "Cu2QuMultiPen on every ordered pair of the 27-curve subset (thorough: 81) x tolerance set x reverse; Qu2CuPen on 'spline, line' contours for every spline with 2..3 off-curve points "
            "(first point (0,0)) and on 'spline, spline, line' contours of two 2-off-curve splines joined at an explicit on-curve point (joint and its neighbours free on the 2x3 lattice) x {1,10,25} x all_cubic x reverse: lines unchanged, converted segment has the input's on-curve points, stays within tolerance, reversed output is the reversed "
            "contour, multi-pen outputs have equal point counts; distinct = each (pen,contour,options)")
    chunk = 2
    required_witnesses = ("pen: Cu2QuPen", "pen: Cu2QuPointPen", "pen: Cu2QuMultiPen", "pen: Qu2CuPen", "pen: Qu2CuPen with two splines", "reverse_direction", "open contour",
                          "result: cubic kept (all_quadratic=False)", "result: spline of >= 10 segments", "cubic replaces >= 2 quadratic segments")

    def cases(self, tier, seed):
        for i1, i2 in itertools.product(range(9), repeat=2):
            yield ["cu2qu", i1, i2]
        idx = S27_IDX if tier == "quick" else list(range(81))
        for a in idx:
            yield ["multi", a, tier]
        for k in (2, 3):
            for pre in itertools.product(range(9), repeat=k - 1):
                yield ["qu2cu", k] + list(pre)
        for o1 in (1, 4):
            for o4 in (1, 5):
                yield ["qu2cu2", o1, o4]

    def bounds(self, tier, seed):
        return {"cu2qu_curves": 729, "multipen_pairs": 27 ** 2 if tier == "quick" else 81 ** 2, "qu2cu_splines": 9 ** 3 + 9 ** 4}

    def check(self, case, rec):
        kind = case[0]
        n = 0
        if kind == "cu2qu":
            _, i1, i2 = case
            for i3 in range(9):
                cub = [L3[0], L3[i1], L3[i2], L3[i3]]
                cub2 = [L3[i2], L3[i3], L3[0], L3[i1]]  # a second, different lattice cubic after a line
                for tol in TOLS:
                    for aq in (True, False):
                        for rev in (False, True):
                            for closed in (True, False):
                                n += 2
                                ctx = ["Cu2QuPen", i1, i2, i3, tol, aq, rev, closed]
                                src = RecordingPen()
                                draw_cubic_contour(src, [cub, cub2], closed)
                                ins = OP.contours_from_pen(src.value)
                                out = RecordingPen()
                                src.replay(Cu2QuPen(out, tol, reverse_direction=rev, all_quadratic=aq))
                                outs = OP.contours_from_pen(out.value)
                                rec.witness("pen: Cu2QuPen")
                                if rev:
                                    rec.witness("reverse_direction")
                                if not closed:
                                    rec.witness("open contour")
                                check_contours(rec, "Cu2QuPen", [ins], [outs], rev, [tol], aq, ctx)
                                if closed and outs and outs[0]["start"] != ins[0]["start"]:
                                    V(rec, "Cu2QuPen:start-point", "closed contour starts at %r, input at %r" % (outs[0]["start"], ins[0]["start"]), ctx=ctx)
                                # point pen protocol
                                ctx = ["Cu2QuPointPen"] + ctx[1:]
                                psrc = RecordingPointPen()
                                src.replay(SegmentToPointPen(psrc, guessSmooth=False))
                                pins = OP.contours_from_pointpen(psrc.value)
                                pout = RecordingPointPen()
                                psrc.replay(Cu2QuPointPen(pout, tol, reverse_direction=rev, all_quadratic=aq))
                                pouts = OP.contours_from_pointpen(pout.value)
                                rec.witness("pen: Cu2QuPointPen")
                                check_contours(rec, "Cu2QuPointPen", [pins], [pouts], rev, [tol], aq, ctx)
        elif kind == "multi":
            a = case[1]
            S = S81["row"]
            idx = S27_IDX if case[2] == "quick" else range(81)
            for b in idx:
                for tol in TOLS:
                    for rev in (False, True):
                        n += 1
                        ctx = ["Cu2QuMultiPen", a, b, tol, rev]
                        outs = [RecordingPen(), RecordingPen()]
                        mp = Cu2QuMultiPen(outs, tol, reverse_direction=rev)
                        ca, cb = tup(S[a]), tup(S[b])
                        mp.moveTo([(ca[0],), (cb[0],)])
                        mp.curveTo([tuple(ca[1:]), tuple(cb[1:])])
                        mp.lineTo([((1000.0, 500.0),), ((1100.0, 600.0),)])
                        mp.closePath()
                        ins = []
                        for c, far in ((ca, (1000.0, 500.0)), (cb, (1100.0, 600.0))):
                            src = RecordingPen()
                            src.moveTo(c[0]); src.curveTo(*c[1:]); src.lineTo(far); src.closePath()
                            ins.append(OP.contours_from_pen(src.value))
                        rec.witness("pen: Cu2QuMultiPen")
                        if rev:
                            rec.witness("reverse_direction")
                        check_contours(rec, "Cu2QuMultiPen", ins, [OP.contours_from_pen(o.value) for o in outs], rev, [tol, tol], True, ctx)
        elif kind == "qu2cu2":
            # two consecutive qCurveTo splines of 2 off-curve points each, joined at an explicit
            # on-curve point K: P0 o1 o2 K | K o3 o4 P1 with o2, K, o3 free on the 2x3 lattice
            _, o1, o4 = case
            for i2, iK, i3 in itertools.product(range(6), repeat=3):
                s1 = [L23[0], L23[o1], L23[i2], L23[iK]]
                s2 = [L23[iK], L23[i3], L23[o4], L23[5]]
                for tol in (1, 10, 25):
                    for ac in (False, True):
                        for rev in (False, True):
                            n += 1
                            ctx = ["Qu2CuPen2", o1, i2, iK, i3, o4, tol, ac, rev]
                            out = RecordingPen()
                            pen = Qu2CuPen(out, tol, all_cubic=ac, reverse_direction=rev)
                            a, b = tup(s1), tup(s2)
                            pen.moveTo(a[0]); pen.qCurveTo(*a[1:]); pen.qCurveTo(*b[1:]); pen.lineTo((FAR.real, FAR.imag)); pen.closePath()
                            rec.witness("pen: Qu2CuPen with two splines")
                            self.check_qu2cu_pen(rec, [s1, s2], out.value, tol, ac, rev, ctx)
        else:
            k, pre = case[1], case[2:]
            for rest in itertools.product(range(9), repeat=k + 1 - len(pre)):
                idx = [0] + list(pre) + list(rest)
                sp = [L3[i] for i in idx]
                for tol in (1, 10, 25):
                    for ac in (False, True):
                        for rev in (False, True):
                            n += 1
                            ctx = ["Qu2CuPen", idx, tol, ac, rev]
                            out = RecordingPen()
                            pen = Qu2CuPen(out, tol, all_cubic=ac, reverse_direction=rev)
                            pts = tup(sp)
                            pen.moveTo(pts[0]); pen.qCurveTo(*pts[1:]); pen.lineTo((FAR.real, FAR.imag)); pen.closePath()
                            rec.witness("pen: Qu2CuPen")
                            if rev:
                                rec.witness("reverse_direction")
                            self.check_qu2cu_pen(rec, [sp], out.value, tol, ac, rev, ctx)
        rec.evals(max(0, n - 1))
        rec.nontrivial_n(n)

    def check_qu2cu_pen(self, rec, quads, value, tol, ac, rev, ctx):
        p_start, p_end = quads[0][0], quads[-1][-1]
        outs = OP.contours_from_pen(value)
        if len(outs) != 1 or not outs[0]["closed"]:
            V(rec, "Qu2CuPen:structure", "expected one closed contour, got %r" % (value,), ctx=ctx)
            return
        oc = OP.unreverse(outs[0]) if rev else outs[0]
        if outs[0]["start"] != p_start:
            V(rec, "Qu2CuPen:start-point", "contour starts at %r, input at %r" % (outs[0]["start"], p_start), ctx=ctx)
            return
        segs = oc["segs"]
        # expected tail: line end->FAR, line FAR->start ; everything before replaces the spline
        tail = [("line", [p_end, FAR]), ("line", [FAR, p_start])]
        for r0 in range(len(segs)):
            rot = segs[r0:] + segs[:r0]
            if rot[-2:] == tail and all(kk != "line" for kk, _ in rot[:-2]) and rot[0][1][0] == p_start:
                break
        else:
            V(rec, "Qu2CuPen:structure", "output %r is not 'curves from %r to %r, line, closing line'" % ([(kk, tup(p)) for kk, p in segs], p_start, p_end), ctx=ctx)
            return
        curves = []
        for kk, p in rot[:-2]:
            if kk == "curve":
                if len(p) != 4:
                    V(rec, "Qu2CuPen:shape", "curveTo with %d points" % (len(p) - 1), ctx=ctx)
                    return
                curves.append(tuple(p))
            else:
                if ac:
                    V(rec, "Qu2CuPen:all_cubic", "all_cubic=True emitted a qCurveTo", ctx=ctx)
                    return
                on0, offs, on1 = OC.spline_onoff(p)
                curves.extend((a, b, c) for a, b, c in zip(on0, offs, on1))
        probs, info = OC.check_qu2cu_output(quads, curves, tol)
        for key, msg in probs:
            V(rec, "Qu2CuPen:" + key, "splines %r tolerance %r all_cubic=%s reverse=%s -> %r: %s" % ([tup(q) for q in quads], tol, ac, rev, value, msg), ctx=ctx)
        if info["selfcheck"]:
            V(rec, "oracle-selfcheck", info["selfcheck"], ctx=ctx)
        if not probs:
            qu2cu_witnesses(rec, info, tol)


# ------------------------------------------------------------------ E: UFO masters
class DuckGlyph:
    """The glyph interface cu2qu.ufo uses: len(), drawPoints, clearContours, getPen, name."""

    def __init__(self, name):
        self.name = name
        self.rec = RecordingPointPen()

    def __len__(self):
        return sum(1 for op, _, _ in self.rec.value if op == "beginPath")

    def drawPoints(self, pen):
        self.rec.replay(pen)

    def clearContours(self):
        self.rec = RecordingPointPen()

    def getPen(self):
        return SegmentToPointPen(self.rec, guessSmooth=False)


class DuckFont(dict):
    def __init__(self, upem):
        super().__init__()
        self.lib = {}
        self.info = types.SimpleNamespace(unitsPerEm=upem)


def make_glyph(name, cubs, closed=True):
    g = DuckGlyph(name)
    draw_cubic_contour(g.getPen(), cubs, closed)
    return g


def make_mixed_glyph(name, cub, lead, closed=True):
    """a contour that mixes curve types: moveTo, qCurveTo ending where the cubic starts, curveTo
    DIRECTLY after it (no line in between), lineTo, close/end.  lead: the two points before the cubic."""
    g = DuckGlyph(name)
    pen = g.getPen()
    pts = tup(list(cub))
    pen.moveTo(lead[0])
    pen.qCurveTo(lead[1], pts[0])
    pen.curveTo(*pts[1:])
    pen.lineTo((FAR.real, FAR.imag))
    if closed:
        pen.closePath()
    else:
        pen.endPath()
    return g


class UfoMasters(Unit):
    name = "ufo-masters"
    rule = ("glyphs_to_quadratic on two-master glyphs 'cubic a, line, cubic b, line' / 'cubic b, line, cubic a, line' for every ordered pair (a,b) of the 27-curve subset (thorough: 81-curve "
            "sub-lattice) x max_err in {scalar from the tolerance set, per-master list} x reverse_direction x all_quadratic, closed and open, plus (for a+b even) the contour 'quadratic, cubic a|b, line' that mixes curve types with no line between them; fonts_to_quadratic on two duck-typed fonts of 9 such glyphs "
            "(+ one glyph missing from the last master, one missing from the first, one empty glyph) with max_err_em / max_err / per-font lists: every master's segments keep their on-curve points, each cubic becomes one segment "
            "within its master's tolerance, corresponding segments have the same kind and point count in both masters, return value / lib key as documented; incompatible masters raise; "
            "distinct = each (pair,options)")
    chunk = 2
    required_witnesses = ("glyphs_to_quadratic", "fonts_to_quadratic", "reverse_direction", "per-master tolerances", "result: cubic kept (all_quadratic=False)",
                          "result: spline of >= 10 segments", "masters forced to a common segment count", "incompatible masters rejected", "open contour", "empty master skipped",
                          "quadratic segment directly before a cubic one", "glyph missing from the first font")

    def cases(self, tier, seed):
        yield ["incompatible"]
        idx = S27_IDX if tier == "quick" else list(range(81))
        for a in idx:
            yield ["glyphs", a, tier]
        for a in idx:
            yield ["fonts", a]

    def bounds(self, tier, seed):
        return {"master_pairs": 27 ** 2 if tier == "quick" else 81 ** 2, "font_sets": 27 if tier == "quick" else 81}

    ERRS = [0.001, 0.5, 1, 10, (0.001, 10), (10, 0.5)]

    def check(self, case, rec):
        kind = case[0]
        S = S81["row"]
        n = 0
        if kind == "incompatible":
            g1 = make_glyph("a", [S[10]])
            g2 = make_glyph("a", [S[10], S[11]])
            try:
                _ufo.glyphs_to_quadratic([g1, g2])
                V(rec, "glyphs_to_quadratic:incompatible-accepted", "different segment numbers accepted")
            except IncompatibleSegmentNumberError:
                rec.witness("incompatible masters rejected")
            g3 = DuckGlyph("a")
            p = g3.getPen()
            p.moveTo((0.0, 0.0)); p.lineTo((100.0, 100.0)); p.lineTo((1000.0, 500.0)); p.closePath()
            try:
                _ufo.glyphs_to_quadratic([make_glyph("a", [S[10]]), g3])
                V(rec, "glyphs_to_quadratic:incompatible-accepted", "curve vs line accepted")
            except IncompatibleSegmentTypesError:
                rec.witness("incompatible masters rejected")
            f1, f2 = DuckFont(1000), DuckFont(1000)
            f1["a"] = make_glyph("a", [S[10]])
            f2["a"] = g3
            try:
                _ufo.fonts_to_quadratic([f1, f2])
                V(rec, "fonts_to_quadratic:incompatible-accepted", "curve vs line accepted")
            except IncompatibleFontsError:
                rec.witness("incompatible masters rejected")
            for bad in (0, -1, [1.0]):
                try:
                    _ufo.glyphs_to_quadratic([make_glyph("a", [S[10]]), make_glyph("a", [S[12]])], max_err=bad)
                    V(rec, "glyphs_to_quadratic:bad-max_err-accepted", "max_err=%r accepted" % (bad,))
                except ValueError:
                    pass
            rec.nontrivial_n(6)
            return
        if kind == "glyphs":
            a = case[1]
            idx = S27_IDX if case[2] == "quick" else range(81)
            for b in idx:
                for err in self.ERRS:
                    for rev in (False, True):
                        for aq in (True, False):
                            closed = (a + b) % 3 != 0
                            n += 1
                            ctx = ["glyphs", a, b, err, rev, aq, closed]
                            glyphs = [make_glyph("g", [S[a], S[b]], closed), make_glyph("g", [S[b], S[a]], closed)]
                            ins = [OP.contours_from_pointpen(g.rec.value) for g in glyphs]
                            before = [list(g.rec.value) for g in glyphs]
                            stats = {}
                            modified = _ufo.glyphs_to_quadratic(glyphs, max_err=list(err) if isinstance(err, tuple) else err,
                                                                reverse_direction=rev, stats=stats, all_quadratic=aq)
                            rec.witness("glyphs_to_quadratic")
                            if rev:
                                rec.witness("reverse_direction")
                            if isinstance(err, tuple):
                                rec.witness("per-master tolerances")
                            if not closed:
                                rec.witness("open contour")
                            tols = list(err) if isinstance(err, tuple) else [err, err]
                            self.judge(rec, "glyphs_to_quadratic", glyphs, ins, before, modified, rev, tols, aq, ctx)
                            if (a + b) % 2 == 0:
                                # mixed curve types: a quadratic segment immediately before the cubic one
                                n += 1
                                glyphs = [make_mixed_glyph("g", S[a], ((-400.0, -100.0), (-200.0, 150.0)), closed),
                                          make_mixed_glyph("g", S[b], ((-380.0, -120.0), (-210.0, 140.0)), closed)]
                                ins = [OP.contours_from_pointpen(g.rec.value) for g in glyphs]
                                before = [list(g.rec.value) for g in glyphs]
                                modified = _ufo.glyphs_to_quadratic(glyphs, max_err=list(err) if isinstance(err, tuple) else err,
                                                                    reverse_direction=rev, all_quadratic=aq)
                                rec.witness("quadratic segment directly before a cubic one")
                                self.judge(rec, "glyphs_to_quadratic", glyphs, ins, before, modified, rev, tols, aq, ctx + ["mixed"])
                            if isinstance(err, tuple) and b % 9 == 0:
                                # an empty master in front: documented to be skipped, the others keep their own tolerance
                                n += 1
                                glyphs = [DuckGlyph("g"), make_glyph("g", [S[a], S[b]], closed), make_glyph("g", [S[b], S[a]], closed)]
                                ins = [OP.contours_from_pointpen(g.rec.value) for g in glyphs[1:]]
                                before = [list(g.rec.value) for g in glyphs[1:]]
                                modified = _ufo.glyphs_to_quadratic(glyphs, max_err=[25.0] + list(err), reverse_direction=rev, all_quadratic=aq)
                                rec.witness("empty master skipped")
                                if len(glyphs[0]) != 0:
                                    V(rec, "glyphs_to_quadratic:empty-changed", "empty glyph got contours", ctx=ctx + ["empty-first"])
                                self.judge(rec, "glyphs_to_quadratic", glyphs[1:], ins, before, modified, rev, tols, aq, ctx + ["empty-first"])
        else:
            a = case[1]
            blk = [(a + 9 * j) % 81 for j in range(9)]
            for opt in ("em", "em-list", "abs", "abs-list", "abs-list-rev"):
                for rev in (False, True):
                    for aq in (True, False):
                        n += 1
                        ctx = ["fonts", a, opt, rev, aq]
                        fonts = [DuckFont(2000), DuckFont(1000)]
                        names = []
                        for j, b in enumerate(blk):
                            nm = "g%d" % j
                            names.append(nm)
                            fonts[0][nm] = make_glyph(nm, [S[a], S[b]])
                            fonts[1][nm] = make_glyph(nm, [S[b], S[a]])
                        fonts[0]["only0"] = make_glyph("only0", [S[a]])
                        # a glyph that the FIRST font lacks: its tolerance is the second font's
                        fonts[1]["only1"] = make_glyph("only1", [S[a]])
                        fonts[0]["empty"] = DuckGlyph("empty")
                        fonts[1]["empty"] = DuckGlyph("empty")
                        kw, tols = {
                            "em": ({"max_err_em": 0.001}, [2.0, 1.0]),
                            "em-list": ({"max_err_em": [0.00025, 0.01]}, [0.5, 10.0]),
                            "abs": ({"max_err": 0.5}, [0.5, 0.5]),
                            "abs-list": ({"max_err": [0.001, 10]}, [0.001, 10]),
                            "abs-list-rev": ({"max_err": [10, 0.001]}, [10, 0.001]),
                        }[opt]
                        ins = {nm: [OP.contours_from_pointpen(f[nm].rec.value) for f in fonts if nm in f] for nm in names + ["only0", "only1", "empty"]}
                        before = {nm: [list(f[nm].rec.value) for f in fonts if nm in f] for nm in ins}
                        modified = _ufo.fonts_to_quadratic(fonts, reverse_direction=rev, all_quadratic=aq, **kw)
                        rec.witness("fonts_to_quadratic")
                        if not isinstance(modified, set):
                            V(rec, "fonts_to_quadratic:return", "returned %r, a set of glyph names is documented" % (modified,), ctx=ctx)
                            continue
                        want = "quadratic" if aq else "mixed"
                        for f in fonts:
                            if f.lib.get(_ufo.CURVE_TYPE_LIB_KEY) != want:
                                V(rec, "fonts_to_quadratic:lib-key", "curve type key is %r, expected %r" % (f.lib.get(_ufo.CURVE_TYPE_LIB_KEY), want), ctx=ctx)
                        if "empty" in modified:
                            V(rec, "fonts_to_quadratic:empty-modified", "empty glyph reported modified", ctx=ctx)
                        for nm in names + ["only0", "only1"]:
                            gl = [f[nm] for f in fonts if nm in f]
                            t = tols if len(gl) == 2 else (tols[:1] if nm == "only0" else tols[1:])
                            if nm == "only1":
                                rec.witness("glyph missing from the first font")
                            self.judge(rec, "fonts_to_quadratic", gl, ins[nm], before[nm], nm in modified, rev, t, aq, ctx + [nm])
                        # second call: documented to skip fonts already marked converted
                        again = _ufo.fonts_to_quadratic(fonts, reverse_direction=rev, all_quadratic=aq, **kw)
                        if again:
                            V(rec, "fonts_to_quadratic:reconverted", "second call on converted fonts returned %r" % (again,), ctx=ctx)
        rec.evals(max(0, n - 1))
        rec.nontrivial_n(n)

    def judge(self, rec, fk, glyphs, ins, before, modified, rev, tols, aq, ctx):
        after = [list(g.rec.value) for g in glyphs]
        if not modified:
            if aq or rev:
                V(rec, fk + ":not-modified", "cubic glyphs reported unmodified with all_quadratic=%s reverse=%s" % (aq, rev), ctx=ctx)
            if after != before:
                V(rec, fk + ":modified-silently", "reported unmodified but the outline changed", ctx=ctx)
            return
        outs = [OP.contours_from_pointpen(v) for v in after]
        counts = check_contours(rec, fk, ins, outs, rev, tols, aq, ctx)
        if counts and len(glyphs) == 2 and aq:
            # did the joint conversion force a master to more segments than it needs alone?
            for m, g_in in enumerate(ins):
                cub = next(p for c in g_in for k, p in c["segs"] if k == "curve")
                try:
                    alone = curve_to_quadratic(tup(cub), tols[m], True)
                except ApproxNotFoundError:
                    continue
                if len(alone) < counts[m][0][1]:
                    rec.witness("masters forced to a common segment count")


def units():
    return [CubicLattice(), CubicFamilies(), CurvePairs(), Qu2cuLattice(), Qu2cuMulti(), Pens(), UfoMasters()]
