"""C16 - output is deterministic and saving does not disturb the font.

(a) histories: every operation sequence up to a depth bound over {touch(table), save, saveXML,
    getTableData(table), ensureDecompiled, edit_i} on a real TTFont; oracle: the bytes saved at
    the end equal the bytes of the *clean path* (fresh load, same edits, one save), and the TTX
    dump equals the clean path's dump.
(b) hash seed / process / wall clock: every pipeline on a fixed input set, in separate
    processes under PYTHONHASHSEED in {0,1,2,3} (thorough 0..11) and simulated clock offsets.
"""
from mc import env
from mc.kernel import Unit, h64

import io
import itertools
import json
import os
import subprocess
import sys

from fontTools.ttLib import TTFont

from oracles import corpus, tinyfont

LEVEL = "model_checking"
ASSUMPTIONS = [
    "histories are bounded by depth (3 quick / 4 thorough) over a fixed alphabet of operations and 3 edits per font",
    "hash-seed independence is decided on the seeds enumerated (0..3 quick, 0..11 thorough), not for all 2^32 seeds",
    "the wall clock is simulated by shifting time.time(); other environment inputs (locale, cwd, umask) are not varied",
]

_FONTS = {}
LAZY = (None, True, False)


def fixed_point(data):
    f = TTFont(io.BytesIO(data), recalcTimestamp=False)
    f.ensureDecompiled()
    b = io.BytesIO()
    f.save(b)
    f = TTFont(io.BytesIO(b.getvalue()), recalcTimestamp=False)
    f.ensureDecompiled()
    b = io.BytesIO()
    f.save(b)
    return b.getvalue()


def load_fonts():
    if _FONTS:
        return
    pool = tinyfont.pool()
    for k in ("ttf-mixed", "cff-mixed", "ttf-mark", "vf-ttf-2axis", "vf-cff2-1axis"):
        _FONTS["tiny:" + k] = fixed_point(tinyfont.build_bytes(pool[k]))
    want = ("ttLib/data/TestTTF-Regular.ttx", "ttLib/data/TestOTF-Regular.ttx", "subset/data/TestGVAR.ttx",
            "varLib/data/test_results/BuildMain.ttx", "subset/data/google_color.ttx", "subset/data/TestHVVAR.ttx")
    for n, d in corpus.compiled_ttx():
        if n in want:
            _FONTS["ttx:" + n] = fixed_point(d)
    for n, d, i in corpus.binary_faces():
        if n.endswith("aots/gpos2_2_font5.otf") or n.endswith("aots/gsub_chaining3_next_glyph_f1.otf") or n.endswith("TestTTC.ttc#0") and False:
            _FONTS["bin:" + n] = fixed_point(d)


TOUCH_PREF = ("GSUB", "GPOS", "GDEF", "glyf", "hmtx", "maxp", "head", "hhea", "post", "cmap", "CFF ", "CFF2", "name", "gvar", "HVAR", "OS/2", "loca", "COLR", "fvar", "STAT")


def alphabet(font, tier):
    tags = [t for t in TOUCH_PREF if t in font]
    n = 4 if tier == "quick" else 5
    ops = [["touch", t] for t in tags[:n]]
    ops += [["save"], ["saveXML"], ["ensureDecompiled"]]
    ops += [["getTableData", t] for t in tags[:2]]
    ops += [["edit", 0], ["edit", 1], ["edit", 2]]
    return ops


def apply_edit(font, i):
    order = font.getGlyphOrder()
    g = order[1] if len(order) > 1 else order[0]
    if i == 0:
        adv, lsb = font["hmtx"].metrics[g]
        font["hmtx"].metrics[g] = (adv + 10, lsb)
    elif i == 1:
        font["head"].fontRevision = 7.25
        if "OS/2" in font:
            font["OS/2"].usWeightClass = 650
    else:
        if "GPOS" in font and font["GPOS"].table.LookupList and font["GPOS"].table.LookupList.Lookup:
            lk = font["GPOS"].table.LookupList.Lookup[0]
            lk.LookupFlag ^= 0x0008
        elif "cmap" in font:
            for st in font["cmap"].tables:
                if st.format in (4, 12):
                    st.cmap[0x7A] = g
        else:
            font["maxp"].maxZones = 2 if getattr(font["maxp"], "maxZones", 1) == 1 else 1


def run_op(font, op):
    k = op[0]
    if k == "touch":
        t = font[op[1]]
        if hasattr(t, "ensureDecompiled"):
            t.ensureDecompiled(recurse=True)
    elif k == "save":
        font.save(io.BytesIO())
    elif k == "saveXML":
        font.saveXML(io.StringIO(), writeVersion=False)
    elif k == "ensureDecompiled":
        font.ensureDecompiled()
    elif k == "getTableData":
        font.getTableData(op[1])
    elif k == "edit":
        apply_edit(font, op[1])


def observe(font):
    # Derived fields (hhea/OS-2/maxp/head extents) are refreshed on save only for tables that
    # are loaded, so after an edit the bytes legitimately depend on the loaded *set*.  The
    # final observation therefore loads everything on both paths: what must not matter is the
    # history (order of touches, earlier saves, dumps, compiles).
    font.ensureDecompiled()
    b = io.BytesIO()
    font.save(b)
    x = io.StringIO()
    font.saveXML(x, writeVersion=False)
    return b.getvalue(), x.getvalue()


_CLEAN = {}


HB_OPT = "fontTools.ttLib.tables.otBase:USE_HARFBUZZ_REPACKER"


def clean_path(key, lazy_i, edits, purepy=False):
    """fresh load, the same edits in the same order, one save"""
    ck = (key, tuple(edits), purepy)
    if ck not in _CLEAN:
        if len(_CLEAN) > 200:
            _CLEAN.clear()
        f = TTFont(io.BytesIO(_FONTS[key]), lazy=False, recalcTimestamp=False)
        if purepy:
            f.cfg[HB_OPT] = False
        f.ensureDecompiled()
        for e in edits:
            apply_edit(f, e)
        _CLEAN[ck] = observe(f)
    return _CLEAN[ck]


class Histories(Unit):
    name = "save-histories"
    rule = ("explorer over operation histories on a real TTFont brought to its recompile fixed point: alphabet = touch(t) for 4 (thorough 5) tables, save, saveXML, ensureDecompiled, getTableData(t) x2, 3 edits (an advance width; head.fontRevision+OS/2 weight; a GPOS lookup flag or a cmap entry); "
            "ALL histories of length <= 3 (quick) / 4 (thorough) for one lazy mode per font (rotating with the seed) and length <= 2 / 3 for the other two lazy modes, plus all histories of length <= 2 / 3 with the layout tables packed by the pure-Python serializer (USE_HARFBUZZ_REPACKER=False); oracle at the end of every history: after loading all tables, save() bytes and saveXML() text equal those of the clean path (fresh load of all tables + the same edits + one save); histories without edits must also still save to the exact bytes they were loaded from with whatever set of tables is loaded, "
            "i.e. earlier saves/dumps/compiles/touch order left no trace; states = distinct (font, lazy, loaded-set, edit sequence, #saves so far), transitions = operations executed")
    chunk = 40
    required_witnesses = ("history with save before edit", "history with two saves", "history saveXML then save", "lazy history", "pure-Python packer history")

    def setup(self, tier, seed):
        load_fonts()

    def cases(self, tier, seed):
        depth = 3 if tier == "quick" else 4
        keys = sorted(_FONTS)
        if tier == "quick":
            # 5 of the fonts per run, rotating with the seed (always incl. one CFF, one VF)
            keys = [k for i, k in enumerate(keys) if (i + seed) % 2 == 0][:6]
        for key in keys:
            font = TTFont(io.BytesIO(_FONTS[key]), lazy=True)
            ops = alphabet(font, tier)
            for lazy_i in (0, 1, 2):
                # quick: depth 3 for lazy=None, depth 2 for the other lazy modes of each font
                main = lazy_i == (h64(key) + seed) % 3
                d = depth if main else depth - 1
                for n in range(0, d + 1):
                    for hist in itertools.product(range(len(ops)), repeat=n):
                        yield [key, lazy_i, [ops[i] for i in hist], False]
                # layout tables packed by the pure-Python serializer (USE_HARFBUZZ_REPACKER=False):
                # its writer state is a second place where a compile can leave a trace
                if main and ("GSUB" in font or "GPOS" in font):
                    for n in range(1, depth):
                        for hist in itertools.product(range(len(ops)), repeat=n):
                            yield [key, lazy_i, [ops[i] for i in hist], True]

    def bounds(self, tier, seed):
        return {"fonts": sorted(_FONTS), "depth": 3 if tier == "quick" else 4}

    def check(self, case, rec):
        key, lazy_i, hist = case[:3]
        purepy = bool(case[3]) if len(case) > 3 else False
        font = TTFont(io.BytesIO(_FONTS[key]), lazy=LAZY[lazy_i], recalcTimestamp=False)
        if purepy:
            font.cfg[HB_OPT] = False
            rec.witness("pure-Python packer history")
        edits = []
        saves = 0
        for op in hist:
            run_op(font, op)
            rec.transition()
            if op[0] == "edit":
                edits.append(op[1])
            if op[0] == "save":
                saves += 1
            loaded = sorted(t for t in font.keys() if t != "GlyphOrder" and font.isLoaded(t))
            rec.state([key, lazy_i, loaded, edits, saves])
        if not edits:
            # no edit: whatever was touched/saved/dumped, the font must still save to the
            # fixed-point bytes it was loaded from (pass-through + recompile of the loaded set)
            b0 = io.BytesIO()
            font.save(b0)
            rec.transition()
            if purepy:
                # the file was packed by the default serializer: the reference is the clean path
                # under the same configuration
                ref0 = clean_path(key, lazy_i, [], purepy)[0] if font.isLoaded("GSUB") or font.isLoaded("GPOS") else _FONTS[key]
            else:
                ref0 = _FONTS[key]
            if b0.getvalue() != ref0 and not (purepy and not all(font.isLoaded(t) for t in ("GSUB", "GPOS") if t in font)):
                rec.violation("history-noedit-bytes:" + hist_class(hist), "%s lazy=%r history %s (no edits): save() no longer reproduces the file the font was loaded from: tables %s" % (key, LAZY[lazy_i], hist, diff_tables(b0.getvalue(), _FONTS[key])))
        got = observe(font)
        rec.transition(3)
        exp = clean_path(key, lazy_i, edits, purepy)
        kinds = [op[0] for op in hist]
        if got[0] != exp[0]:
            rec.violation("history-bytes:" + hist_class(hist), "%s lazy=%r history %s: saved bytes differ from the clean path (same edits, one save): tables %s" % (key, LAZY[lazy_i], hist, diff_tables(got[0], exp[0])))
        elif got[1] != exp[1]:
            rec.violation("history-xml:" + hist_class(hist), "%s lazy=%r history %s: TTX dump differs from the clean path: %s" % (key, LAZY[lazy_i], hist, first_diff(exp[1], got[1])))
        rec.trace()
        rec.outcome(h64(got[0]))
        if hist:
            rec.nontrivial()
        if "save" in kinds and "edit" in kinds and kinds.index("save") < len(kinds) - 1 - kinds[::-1].index("edit"):
            rec.witness("history with save before edit")
        if kinds.count("save") >= 2:
            rec.witness("history with two saves")
        if "saveXML" in kinds:
            rec.witness("history saveXML then save")
        if lazy_i == 1 and hist:
            rec.witness("lazy history")


def hist_class(hist):
    ks = sorted(set(op[0] if op[0] != "touch" else "touch" for op in hist))
    return "+".join(ks)


def diff_tables(a, b):
    from engines.c01 import parse_sfnt

    try:
        ta, tb = parse_sfnt(a), parse_sfnt(b)
        return [t for t in sorted(set(ta) | set(tb)) if ta.get(t) != tb.get(t)] or "container only"
    except Exception:
        return "?"


def first_diff(a, b):
    la, lb = a.splitlines(), b.splitlines()
    for i, (x, y) in enumerate(zip(la, lb)):
        if x != y:
            return "line %d: clean %r / history %r" % (i, x.strip()[:160], y.strip()[:160])
    return "length %d vs %d lines" % (len(la), len(lb))


class Processes(Unit):
    name = "hashseed-process-clock"
    rule = ("every pipeline item (recompile x lazy, TTX import, TTX dump, feaLib compile of the corpus .fea files, subset x 4 option sets, every pair of characters of the fonts with AAT / colour / MATH tables with and without .notdef, generated multi-script feature files with aalt, a COLR v0+v1 font, generated AAT morx ligature subtables with several equally long action lists, instancer x 3 limit kinds, varLib.build of corpus + generated designspaces, merge, TTC save, WOFF/WOFF2 save; ~700 items) executed in separate processes under "
            "PYTHONHASHSEED in {0,1,2,3} (thorough: 0..11), plus seed 0 with the wall clock shifted by +1e6 s with SOURCE_DATE_EPOCH pinned, seed 0 under two TZ settings with daylight saving (northern / southern), SOURCE_DATE_EPOCH unset with recalcTimestamp=False at clock offsets 0 and +1e6 s, and SOURCE_DATE_EPOCH=0 at clock offsets 0 and +1e6 s: the sha256 of every output must be identical across all runs; "
            "distinct = pipeline items whose output is not an exception")
    in_parent = True
    chunk = 1
    required_witnesses = ("subset items", "instance items", "varlib-build items", "fea items", "merge items", "subset-pair items", "aat items", "SOURCE_DATE_EPOCH=0 runs")

    def cases(self, tier, seed):
        yield ["all"]

    def check(self, case, rec):
        nseeds = self._nseeds
        nsh = 4 if nseeds <= 4 else 2
        runs = []
        for s in range(nseeds):
            runs.append(("hashseed=%d" % s, {"PYTHONHASHSEED": str(s)}, []))
        runs.append(("hashseed=0,clock+1e6", {"PYTHONHASHSEED": "0"}, ["--clock-offset", "1000000"]))
        # the process time zone (POSIX rule strings: no zone database needed), with daylight saving on either hemisphere
        runs.append(("hashseed=0,tz=EST5EDT", {"PYTHONHASHSEED": "0", "TZ": "EST5EDT,M3.2.0,M11.1.0"}, []))
        runs.append(("hashseed=0,tz=AEST-10AEDT", {"PYTHONHASHSEED": "0", "TZ": "AEST-10AEDT,M10.1.0,M4.1.0/3"}, []))
        runs.append(("noepoch,norecalc,clock+0", {"PYTHONHASHSEED": "1", "SOURCE_DATE_EPOCH": None}, ["--no-recalc-timestamp"]))
        runs.append(("noepoch,norecalc,clock+1e6", {"PYTHONHASHSEED": "2", "SOURCE_DATE_EPOCH": None}, ["--no-recalc-timestamp", "--clock-offset", "1000000"]))
        # the timestamp pinned at the epoch itself (the value 0 is a value, not "unset")
        runs.append(("epoch0,clock+0", {"PYTHONHASHSEED": "3", "SOURCE_DATE_EPOCH": "0"}, []))
        runs.append(("epoch0,clock+1e6", {"PYTHONHASHSEED": "3", "SOURCE_DATE_EPOCH": "0"}, ["--clock-offset", "1000000"]))
        procs = []
        script = os.path.join(env.VERIF, "oracles", "pipelines.py")
        for label, envmod, extra in runs:
            for sh in range(nsh):
                e = dict(os.environ)
                e["PYTHONPATH"] = env.LIB + os.pathsep + env.VERIF
                e["VERIF_REPO"] = env.REPO
                for k, v in envmod.items():
                    if v is None:
                        e.pop(k, None)
                    else:
                        e[k] = v
                procs.append((label, sh, subprocess.Popen([sys.executable, script, str(sh), str(nsh)] + extra, env=e, stdout=subprocess.PIPE, stderr=subprocess.DEVNULL, text=True)))
                # at most 16 children at a time
                while sum(1 for _l, _s, p in procs if p.poll() is None) >= 16:
                    import time

                    time.sleep(0.2)
        results = {}
        for label, sh, p in procs:
            out, _ = p.communicate()
            line = [l for l in out.splitlines() if l.startswith("RESULT ")]
            if p.returncode != 0 or not line:
                rec.violation("pipeline-process-failed", "run %s shard %d exited %s without a result" % (label, sh, p.returncode), case=[label, sh])
                continue
            results.setdefault(label, {}).update(json.loads(line[-1][7:]))
            rec.transition()
        rec.evals(max(0, sum(len(v) for v in results.values()) - 1))
        # group A: SOURCE_DATE_EPOCH pinned -> everything identical across hash seeds and clocks
        # group B: SOURCE_DATE_EPOCH unset, recalcTimestamp=False -> identical across clocks for
        #          pipelines that transform existing fonts (fonts created from scratch by
        #          FontBuilder stamp head.created with the current time: not pinned, excluded)
        groupA = [l for l in sorted(results) if not l.startswith(("noepoch", "epoch0"))]
        groupB = [l for l in sorted(results) if l.startswith("noepoch")]
        groupC = [l for l in sorted(results) if l.startswith("epoch0")]
        if groupC:
            rec.witness("SOURCE_DATE_EPOCH=0 runs")
        for group, why in ((groupA, "hashseed"), (groupB, "clock"), (groupC, "epoch0")):
            if not group:
                continue
            ref_label = group[0]
            ref = results[ref_label]
            for name in sorted(ref):
                kind = name.split(":")[0]
                if why == "clock" and ("tiny" in name or kind in ("merge", "ttc", "flavor")):
                    continue
                if why == "epoch0" and kind not in ("recompile", "subset", "instance", "ttc", "flavor", "merge"):
                    continue  # only the pipelines that stamp head.modified on save
                if why == "hashseed":
                    rec.witness(kind + " items")
                    if not ref[name].startswith("EXC"):
                        rec.nontrivial(name)
                    rec.state(name)
                for label in group[1:]:
                    v = results[label].get(name)
                    if v != ref[name]:
                        cls = "clock" if ("clock" in label or why in ("clock", "epoch0")) else ("timezone" if "tz=" in label else "hashseed")
                        rec.violation("nondeterministic:%s:%s" % (kind, cls),
                                      "pipeline item %r: output digest %s under %s but %s under %s" % (name, ref[name], ref_label, v, label), case=[name, label])
        rec.trace(len(results))

    def setup(self, tier, seed):
        self._nseeds = 4 if tier == "quick" else 12


class CollectionHistories(Unit):
    name = "ttc-save-histories"
    rule = ("a TTCollection of 3 generated TrueType fonts (two different, one repeated) with every pattern of the members' recalcTimestamp flags (2^3) x lazy in {None, True}: ALL histories of length <= 2 over "
            "{collection.save(shareTables=True), collection.save(shareTables=False), member[i].save for i in 0..2}, then a final collection.save in both sharing modes; oracle: after every operation each member's "
            "recalcTimestamp flag is what it was, and the final bytes equal those of a fresh collection with the same flags saved once (a second save yields identical bytes; later operations behave as if the "
            "earlier saves had not happened); each member read back from the collection has the head.modified its flag demands (pinned epoch / original); distinct = each (flags, lazy, history)")
    chunk = 1
    required_witnesses = ("mixed flags", "unflagged member before a flagged one", "history of two saves", "member saved on its own")

    def cases(self, tier, seed):
        for flags in itertools.product((False, True), repeat=3):
            for lazy in (None, True):
                yield [list(flags), lazy]

    def setup(self, tier, seed):
        from oracles import tinyfont

        a = tinyfont.build_bytes({"kind": "ttf", "shapes": "mixed", "glyphs": ["a", "b", "c"], "fea": "feature liga { sub a b by c; } liga;"})
        b = tinyfont.build_bytes({"kind": "ttf", "shapes": "mixed", "glyphs": ["x", "y", "c"], "coef": 3, "fea": "feature kern { pos x y -20; } kern;"})
        # distinct, old 'modified' stamps so that a restamp is visible
        datas = []
        for i, d in enumerate((a, b, a)):
            f = TTFont(io.BytesIO(d), recalcTimestamp=False)
            f["head"].modified = 3000000000 + 1000 * i
            buf = io.BytesIO()
            f.save(buf)
            datas.append(buf.getvalue())
        self._datas = datas

    def _fresh(self, flags, lazy):
        from fontTools.ttLib import TTCollection

        c = TTCollection()
        c.fonts = [TTFont(io.BytesIO(d), recalcTimestamp=fl, lazy=lazy) for d, fl in zip(self._datas, flags)]
        return c

    OPS = ("C1", "C0", "M0", "M1", "M2")

    @staticmethod
    def _apply(c, op):
        buf = io.BytesIO()
        if op[0] == "C":
            c.save(buf, shareTables=op == "C1")
        else:
            c.fonts[int(op[1])].save(buf)
        return buf.getvalue()

    def check(self, case, rec):
        from fontTools.ttLib import TTCollection
        from fontTools.misc.timeTools import timestampNow

        flags, lazy = case
        if len(set(flags)) > 1:
            rec.witness("mixed flags")
        if any(not flags[i] and flags[j] for i in range(3) for j in range(i + 1, 3)):
            rec.witness("unflagged member before a flagged one")
        ref = {op: self._apply(self._fresh(flags, lazy), op) for op in ("C1", "C0")}
        now = timestampNow()
        for op, data in ref.items():
            back = TTCollection(io.BytesIO(data))
            for i, f in enumerate(back.fonts):
                want = now if flags[i] else 3000000000 + 1000 * i
                if f["head"].modified != want:
                    rec.violation("ttc:modified-stamp", "flags %s: member %d saved with head.modified %d, expected %d" % (flags, i, f["head"].modified, want), case=case)
        hists = [()] + [(a,) for a in self.OPS] + [(a, b) for a in self.OPS for b in self.OPS]
        for h in hists:
            for last in ("C1", "C0"):
                rec.evals()
                rec.nontrivial(key=[flags, lazy, h, last])
                c = self._fresh(flags, lazy)
                for k, op in enumerate(h):
                    self._apply(c, op)
                    rec.transition()
                    now_flags = [bool(f.recalcTimestamp) for f in c.fonts]
                    if now_flags != list(flags):
                        rec.violation("ttc:flags-changed", "flags %s lazy=%s: after %s the members' recalcTimestamp flags are %s" % (flags, lazy, list(h[:k + 1]), now_flags), case=case)
                if len(h) == 2:
                    rec.witness("history of two saves")
                if any(op[0] == "M" for op in h):
                    rec.witness("member saved on its own")
                out = self._apply(c, last)
                rec.state([flags, lazy, sorted(set(h)), last])
                if out != ref[last]:
                    rec.violation("ttc:second-save-differs", "flags %s lazy=%s: collection.save(shareTables=%s) after history %s differs from the same save on a fresh collection (%d vs %d bytes)"
                                  % (flags, lazy, last == "C1", list(h), len(out), len(ref[last])), case=case)


def _ligature_order_font():
    """GSUB ligature set that lists SHORTER ligatures before longer ones (legal: first match wins;
    feaLib never writes it): the Ligature offset array is reversed in the binary table"""
    import struct
    from fontTools.ttLib.tables.DefaultTable import DefaultTable

    data = tinyfont.build_bytes({"kind": "ttf", "shapes": "box", "glyphs": ["f", "i", "l", "f_i", "f_f_i", "f_l", "f_f_l", "f_f"],
                                 "fea": "feature liga { sub f f i by f_f_i; sub f f l by f_f_l; sub f f by f_f; sub f i by f_i; sub f l by f_l; } liga;"})
    font = TTFont(io.BytesIO(data), recalcTimestamp=False, lazy=True)
    gsub = bytearray(font.reader["GSUB"])
    (lookupList,) = struct.unpack_from(">H", gsub, 8)
    (lookup,) = struct.unpack_from(">H", gsub, lookupList + 2)
    lookup += lookupList
    lookupType, _flag, subCount, sub = struct.unpack_from(">HHHH", gsub, lookup)
    assert (lookupType, subCount) == (4, 1), (lookupType, subCount)
    sub += lookup
    fmt, _cov, setCount, ligSet = struct.unpack_from(">HHHH", gsub, sub)
    assert (fmt, setCount) == (1, 1)
    ligSet += sub
    (ligCount,) = struct.unpack_from(">H", gsub, ligSet)
    assert ligCount == 5
    offsets = struct.unpack_from(">5H", gsub, ligSet + 2)
    struct.pack_into(">5H", gsub, ligSet + 2, *reversed(offsets))
    raw = DefaultTable("GSUB")
    raw.data = bytes(gsub)
    font.tables["GSUB"] = raw
    out = io.BytesIO()
    font.save(out)
    check = TTFont(io.BytesIO(out.getvalue()))
    order = [l.LigGlyph for l in check["GSUB"].table.LookupList.Lookup[0].SubTable[0].ligatures["f"]]
    assert order == ["f_l", "f_i", "f_f", "f_f_l", "f_f_i"], order
    return out.getvalue()


def _untrimmed_hmtx_font(kind):
    """hmtx with numberOfHMetrics == numGlyphs although the trailing advances are equal (legal; the
    compiler would trim it): written as raw bytes"""
    import struct
    from fontTools.ttLib.tables.DefaultTable import DefaultTable

    f = tinyfont.build({"kind": kind, "shapes": "box", "glyphs": ["a", "b", "c"]})
    for g in ("a", "b", "c"):
        f["hmtx"].metrics[g] = (500, f["hmtx"].metrics[g][1])
    g = TTFont(io.BytesIO(tinyfont.to_bytes(f)), recalcTimestamp=False)
    order = g.getGlyphOrder()
    raw = b"".join(struct.pack(">Hh", *g["hmtx"].metrics[x]) for x in order)
    t = DefaultTable("hmtx")
    t.data = raw
    g.tables["hmtx"] = t
    g["hhea"].numberOfHMetrics = len(order)
    g.recalcBBoxes = False
    b = io.BytesIO()
    g.save(b)
    back = TTFont(io.BytesIO(b.getvalue()), lazy=True)
    assert back["hhea"].numberOfHMetrics == len(order) and len(back.reader["hmtx"]) == 4 * len(order)
    return b.getvalue()


class NonCanonical(Unit):
    name = "noncanonical-inputs"
    rule = ("inputs that are legal but NOT what the compiler itself would write (a ligature set listing shorter ligatures first; an untrimmed hmtx in a TrueType and in a CFF font) x lazy in {None, True, False} x "
            "every set of <= 2 decoded tables and the full set: the TTX dump of the decoded tables is taken, the font saved, the dump taken again, the font saved again; oracle: the two dumps are equal (modulo the derived counts numberOfHMetrics / numberOfVMetrics) "
            "(saving leaves the in-memory content unchanged) and the second save equals the first; distinct = each (input, lazy, table set)")
    chunk = 1
    required_witnesses = ("ligature order input", "untrimmed hmtx input", "two tables decoded", "all tables decoded")

    def setup(self, tier, seed):
        self._inputs = {"ligature-order": _ligature_order_font(), "untrimmed-hmtx-ttf": _untrimmed_hmtx_font("ttf"), "untrimmed-hmtx-cff": _untrimmed_hmtx_font("cff")}

    def cases(self, tier, seed):
        for name in ("ligature-order", "untrimmed-hmtx-ttf", "untrimmed-hmtx-cff"):
            for lazy in (None, True, False):
                yield [name, lazy]

    def check(self, case, rec):
        name, lazy = case
        data = self._inputs[name]
        rec.witness("ligature order input" if name == "ligature-order" else "untrimmed hmtx input")
        tags = [t for t in TTFont(io.BytesIO(data), lazy=True).keys() if t != "GlyphOrder"]
        sets = [()] + [(t,) for t in tags] + list(itertools.combinations(tags, 2)) + [tuple(tags)]
        for ts in sets:
            rec.evals()
            rec.nontrivial(key=[name, lazy, ts])
            if len(ts) == 2:
                rec.witness("two tables decoded")
            if len(ts) == len(tags):
                rec.witness("all tables decoded")
            font = TTFont(io.BytesIO(data), lazy=lazy, recalcTimestamp=False)
            for t in ts:
                font[t]
                if len(ts) == len(tags):
                    font[t].ensureDecompiled() if hasattr(font[t], "ensureDecompiled") else None

            def dump():
                if not ts:
                    return ""
                buf = io.StringIO()
                font.saveXML(buf, tables=list(ts), writeVersion=False)
                # derived header fields that compile refreshes from the loaded tables are not content
                return "\n".join(l for l in buf.getvalue().splitlines() if "<numberOfHMetrics " not in l and "<numberOfVMetrics " not in l)

            label = "+".join(x.strip() for x in ts) or "none"
            before = dump()
            b1 = io.BytesIO()
            font.save(b1)
            after = dump()
            b2 = io.BytesIO()
            font.save(b2)
            rec.transition(2)
            if before != after:
                rec.violation("noncanonical:dump-changed-by-save:%s:%s" % (name, label), "%s lazy=%s decoded %s: TTX dump of the decoded tables differs before / after save: %s" % (name, lazy, label, first_diff(before, after)), case=case)
            if b1.getvalue() != b2.getvalue():
                rec.violation("noncanonical:second-save-differs:%s:%s" % (name, label), "%s lazy=%s decoded %s: the second save differs from the first (%d vs %d bytes)" % (name, lazy, label, len(b1.getvalue()), len(b2.getvalue())), case=case)


def units():
    return [Histories(), Processes(), CollectionHistories(), NonCanonical()]
