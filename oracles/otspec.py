"""otspec - an independent reader of font containers and of the tables whose fields are derived.

Written from the OpenType 1.9 specification (sfnt wrapper, TTC header, head, hhea, vhea, maxp,
hmtx, vmtx, loca, glyf), the WOFF 1.0 recommendation and the WOFF2 recommendation.  Uses only
struct, zlib, brotli and fractions; it never imports fontTools.

Public API
----------
parse_container(data, font_index=0) -> Container
    Container.flavor        "sfnt" | "ttc" | "woff" | "woff2"
    Container.sfnt_version  4 bytes
    Container.header        dict of the raw header fields
    Container.records       [TableRecord] in directory order (tag, checksum, offset, length,
                            orig_length, flags, transformed, transform_length)
    Container.tables        {tag(str, latin-1): bytes}  decoded table data (for a TTC: of member
                            `font_index`; for WOFF2 transformed glyf/loca/hmtx: reconstructed)
    Container.physical      [tag] in the order of the data blocks in the file
    Container.problems      ["code: detail", ...]  every violated MUST of the container formats
    Container.codes()       set of the problem codes
    Container.fonts         [Container] members of a TTC
    Container.spans         {tag: (offset, length)} (sfnt / TTC members)
    Container.glyphs        [Glyph] decoded directly from a WOFF2 transformed glyf (else None)
    Container.meta / .private   bytes | None (WOFF, WOFF2: decompressed metadata, private block)
    Container.sfnt()        the face re-serialised as a plain sfnt by build_sfnt (tables in
                            physical order) - what a WOFF decoder produces
calc_checksum(data), search_fields(n), build_sfnt(tables, sfnt_version, order=None)
parse_head / parse_hhea / parse_vhea / parse_maxp (data) -> dict
parse_metrics(tables, "hmtx"|"vmtx", problems=None) -> [(advance, sidebearing)] per glyph
parse_loca(tables, problems=None) -> [offset]  (bytes into glyf)
glyf_glyphs(tables, problems=None) -> [Glyph]
    Glyph.ncontours, .bbox (stored), .end_pts, .points [(x, y)], .flags [keep bits: 1 on-curve,
    0x40 overlap], .instructions, .components [Component], .length (parsed bytes), .slack (bytes
    between the end of the glyph and the next loca offset), .key() (canonical content)
flatten(glyphs, gid) -> (points [(Fraction, Fraction)], on_curve [bool], end_pts)   composite
    flattening with transforms, scaled / unscaled offsets and point matching
glyph_bbox(glyphs, gid) -> (xMin, yMin, xMax, yMax) | None (glyph without data)
cff_num_glyphs(tables) -> int | None
recompute_derived(tables, glyphs=None, bboxes=None) -> dict   derived field values recomputed
    from glyf/loca/hmtx/vmtx (bboxes: per-glyph boxes to use instead of the recomputed ones)
stored_derived(tables) -> dict      the same keys read from head/maxp/hhea/vhea and glyph headers
ot_round(x)                          floor(x + 1/2) on exact rationals
"""
import struct
import zlib
from fractions import Fraction

try:
    import brotli
except ImportError:  # pragma: no cover
    brotli = None

SFNT_VERSIONS = (b"\x00\x01\x00\x00", b"OTTO", b"true", b"typ1")
MAGIC_ADJUST = 0xB1B0AFBA

# WOFF2 known table tags, section 4.1 of the WOFF2 recommendation
WOFF2_KNOWN_TAGS = (
    "cmap", "head", "hhea", "hmtx", "maxp", "name", "OS/2", "post", "cvt ", "fpgm", "glyf", "loca", "prep",
    "CFF ", "VORG", "EBDT", "EBLC", "gasp", "hdmx", "kern", "LTSH", "PCLT", "VDMX", "vhea", "vmtx", "BASE",
    "GDEF", "GPOS", "GSUB", "EBSC", "JSTF", "MATH", "CBDT", "CBLC", "COLR", "CPAL", "SVG ", "sbix", "acnt",
    "avar", "bdat", "bloc", "bsln", "cvar", "fdsc", "feat", "fmtx", "fvar", "gvar", "hsty", "just", "lcar",
    "mort", "morx", "opbd", "prop", "trak", "Zapf", "Silf", "Glat", "Gloc", "Feat", "Sill",
)
assert len(WOFF2_KNOWN_TAGS) == 63

# "Optimized table ordering" of the OpenType specification
RECOMMENDED_ORDER_TTF = ["head", "hhea", "maxp", "OS/2", "hmtx", "LTSH", "VDMX", "hdmx", "cmap", "fpgm", "prep",
                         "cvt ", "loca", "glyf", "kern", "name", "post", "gasp", "PCLT"]
RECOMMENDED_ORDER_CFF = ["head", "hhea", "maxp", "OS/2", "name", "cmap", "post", "CFF "]


class OTSpecError(Exception):
    pass


def pad4(n):
    return (n + 3) & ~3


def calc_checksum(data):
    """Sum of the big-endian uint32 words of data, zero padded to a multiple of 4, mod 2^32."""
    r = len(data) & 3
    if r:
        data = bytes(data) + b"\0" * (4 - r)
    n = len(data) // 4
    total = 0
    step = 16384
    for i in range(0, n, step):
        k = min(step, n - i)
        total += sum(struct.unpack_from(">%dL" % k, data, 4 * i))
    return total & 0xFFFFFFFF


def search_fields(n, item=16):
    """(searchRange, entrySelector, rangeShift) of the offset table for n >= 1 tables."""
    e = n.bit_length() - 1
    sr = (1 << e) * item
    return sr, e, n * item - sr


def tagstr(b):
    return b.decode("latin-1")


def ot_round(x):
    """Round half up, the rounding OpenType uses for coordinates."""
    x = Fraction(x)
    return (2 * x.numerator + x.denominator) // (2 * x.denominator)


def zero_head_adjust(head):
    if len(head) >= 12:
        return head[:8] + b"\0\0\0\0" + head[12:]
    return head


def table_checksum(tag, data):
    return calc_checksum(zero_head_adjust(data) if tag == "head" else data)


class TableRecord:
    __slots__ = ("tag", "checksum", "offset", "length", "orig_length", "flags", "transformed", "transform_length")

    def __init__(self, tag, checksum=None, offset=None, length=None, orig_length=None, flags=None,
                 transformed=False, transform_length=None):
        self.tag = tag
        self.checksum = checksum
        self.offset = offset
        self.length = length  # bytes occupied in the file (WOFF: compLength)
        self.orig_length = orig_length if orig_length is not None else length
        self.flags = flags
        self.transformed = transformed
        self.transform_length = transform_length

    def __repr__(self):
        return "<%s off=%s len=%s orig=%s>" % (self.tag, self.offset, self.length, self.orig_length)


class Container:
    def __init__(self, flavor, size):
        self.flavor = flavor
        self.size = size
        self.sfnt_version = b""
        self.header = {}
        self.records = []
        self.tables = {}
        self.physical = []
        self.problems = []
        self.fonts = []
        self.spans = {}
        self.glyphs = None
        self.meta = None
        self.private = None
        self.base = 0

    def problem(self, code, msg=""):
        self.problems.append("%s: %s" % (code, msg))

    def codes(self):
        return {p.split(":", 1)[0] for p in self.problems}

    def sfnt(self):
        return build_sfnt(self.tables, self.sfnt_version, order=self.physical)


# ------------------------------------------------------------------------------------ writer
def build_sfnt(tables, sfnt_version=b"\x00\x01\x00\x00", order=None):
    """Reference serialisation: directory sorted by tag, table data in `order` (default: by
    tag), 4-byte aligned and zero padded, checksums and head.checkSumAdjustment set."""
    tags = sorted(tables)
    order = [t for t in (order or tags) if t in tables]
    order += [t for t in tags if t not in order]
    n = len(tags)
    off = 12 + 16 * n
    offsets = {}
    body = []
    tables = dict(tables)
    if "head" in tables:
        tables["head"] = zero_head_adjust(tables["head"])
    for t in order:
        d = tables[t]
        offsets[t] = off
        body.append(d + b"\0" * (pad4(len(d)) - len(d)))
        off += pad4(len(d))
    sr, es, rs = search_fields(n) if n else (0, 0, 0)
    head = struct.pack(">4sHHHH", sfnt_version, n, sr, es, rs)
    for t in tags:
        head += struct.pack(">4sLLL", t.encode("latin-1"), calc_checksum(tables[t]), offsets[t], len(tables[t]))
    out = bytearray(head + b"".join(body))
    if "head" in tables and len(tables["head"]) >= 12:
        adj = (MAGIC_ADJUST - calc_checksum(out)) & 0xFFFFFFFF
        struct.pack_into(">L", out, offsets["head"] + 8, adj)
    return bytes(out)


# ------------------------------------------------------------------------------------ sfnt
def _check_version(c, ver):
    if ver not in SFNT_VERSIONS:
        c.problem("sfnt-version", "unknown sfnt version %r" % ver)


def _parse_sfnt(data, base, c, in_ttc):
    """Parse the offset table at `base` into container c; returns the end of the directory."""
    if len(data) < base + 12:
        c.problem("truncated", "no room for the offset table at %d" % base)
        return base
    ver, n, sr, es, rs = struct.unpack_from(">4sHHHH", data, base)
    c.sfnt_version = ver
    c.base = base
    c.header = {"sfntVersion": ver, "numTables": n, "searchRange": sr, "entrySelector": es, "rangeShift": rs}
    _check_version(c, ver)
    if n:
        exp = search_fields(n)
        if (sr, es, rs) != exp:
            c.problem("search-fields", "numTables=%d: (searchRange, entrySelector, rangeShift)=%r, expected %r" % (n, (sr, es, rs), exp))
    dir_end = base + 12 + 16 * n
    if len(data) < dir_end:
        c.problem("truncated", "table directory needs %d bytes" % dir_end)
        return base + 12
    prev = None
    for i in range(n):
        tag, cs, off, ln = struct.unpack_from(">4sLLL", data, base + 12 + 16 * i)
        t = tagstr(tag)
        c.records.append(TableRecord(t, cs, off, ln))
        if prev is not None and tag <= prev:
            c.problem("dir-duplicate" if tag == prev else "dir-order", "record %d %r follows %r" % (i, t, tagstr(prev)))
        prev = tag
        if off % 4:
            c.problem("align", "table %r at offset %d" % (t, off))
        if off + ln > len(data):
            c.problem("out-of-file", "table %r [%d, %d) file size %d" % (t, off, off + ln, len(data)))
            continue
        if not in_ttc and off < dir_end:
            c.problem("overlap-directory", "table %r at offset %d inside the directory" % (t, off))
        d = data[off : off + ln]
        if t not in c.tables:
            c.tables[t] = d
            c.spans[t] = (off, ln)
        if table_checksum(t, d) != cs:
            c.problem("checksum", "table %r: stored %08x computed %08x" % (t, cs, table_checksum(t, d)))
        pe = pad4(off + ln)
        if pe > len(data):
            c.problem("final-padding", "table %r ends at %d, file ends at %d before the 4-byte boundary" % (t, off + ln, len(data)))
        if any(data[off + ln : min(pe, len(data))]):
            c.problem("padding-nonzero", "after table %r: %s" % (t, data[off + ln : pe].hex()))
    c.physical = [r.tag for r in sorted(c.records, key=lambda r: (r.offset, r.length, r.tag))]
    return dir_end


def _coverage(c, data, blocks, start, end, what="table"):
    """blocks: [(offset, length, name)] that must tile [start, end) with padding to 4 only."""
    pos = start
    for off, ln, name in sorted(blocks, key=lambda b: (b[0], b[1])):
        if ln == 0:
            if off < start or off > end:
                c.problem("out-of-file", "empty %s %r at offset %d" % (what, name, off))
            continue
        if off < pos:
            c.problem("overlap", "%s %r at %d begins before the end (%d) of the preceding block" % (what, name, off, pos))
        elif off > pos:
            gap = data[pos:off]
            if off - pos > 3 or off != pad4(pos):
                c.problem("gap", "%d unreferenced bytes before %s %r at %d" % (off - pos, what, name, off))
            elif any(gap):
                c.problem("padding-nonzero", "before %s %r: %s" % (what, name, gap.hex()))
        pos = max(pos, off + ln)
    return pos


def _parse_plain_sfnt(data):
    c = Container("sfnt", len(data))
    dir_end = _parse_sfnt(data, 0, c, False)
    blocks = [(r.offset, r.length, r.tag) for r in c.records if r.offset + r.length <= len(data)]
    pos = _coverage(c, data, blocks, dir_end, len(data))
    if c.records:
        if len(data) > pad4(pos):
            c.problem("trailing-data", "%d bytes after the last table" % (len(data) - pad4(pos)))
        elif any(data[pos:]):
            c.problem("padding-nonzero", "after the last table: %s" % data[pos:].hex())
    # whole-file checksum
    if "head" in c.tables and len(c.tables["head"]) >= 12 and "head" in c.spans:
        off = c.spans["head"][0]
        stored = struct.unpack_from(">L", data, off + 8)[0]
        z = bytearray(data)
        z[off + 8 : off + 12] = b"\0\0\0\0"
        exp = (MAGIC_ADJUST - calc_checksum(z)) & 0xFFFFFFFF
        c.header["checkSumAdjustment"] = stored
        if stored != exp:
            c.problem("checksum-adjustment", "head.checkSumAdjustment %08x, 0xB1B0AFBA - sum(file) = %08x" % (stored, exp))
    return c


# ------------------------------------------------------------------------------------ TTC
def _parse_ttc(data, font_index):
    c = Container("ttc", len(data))
    if len(data) < 12:
        c.problem("truncated", "TTC header")
        return c
    tag, ver, n = struct.unpack_from(">4sLL", data, 0)
    c.header = {"ttcTag": tag, "version": ver, "numFonts": n}
    if ver not in (0x00010000, 0x00020000):
        c.problem("ttc-version", "%08x" % ver)
    hdr_end = 12 + 4 * n
    if len(data) < hdr_end:
        c.problem("truncated", "TTC offset array")
        return c
    offsets = list(struct.unpack_from(">%dL" % n, data, 12))
    c.header["offsets"] = offsets
    dsig = None
    if ver == 0x00020000:
        if len(data) < hdr_end + 12:
            c.problem("truncated", "TTC v2 DSIG fields")
            return c
        dtag, dlen, doff = struct.unpack_from(">4sLL", data, hdr_end)
        hdr_end += 12
        c.header.update(dsigTag=dtag, dsigLength=dlen, dsigOffset=doff)
        if dtag == b"\0\0\0\0":
            if dlen or doff:
                c.problem("ttc-dsig", "null DSIG tag with length %d offset %d" % (dlen, doff))
        elif dtag != b"DSIG":
            c.problem("ttc-dsig", "DSIG tag field is %r" % dtag)
        else:
            if doff % 4 or doff + dlen > len(data) or doff < hdr_end:
                c.problem("ttc-dsig", "DSIG block [%d, %d) file size %d" % (doff, doff + dlen, len(data)))
            else:
                dsig = (doff, dlen, "ttc-DSIG")
                c.header["dsig"] = data[doff : doff + dlen]
    blocks = {}
    dirs = []
    for i, off in enumerate(offsets):
        m = Container("sfnt", len(data))
        if off % 4 or off < hdr_end:
            c.problem("ttc-offset", "font %d offset table at %d" % (i, off))
        dir_end = _parse_sfnt(data, off, m, True)
        dirs.append((off, dir_end - off, "directory#%d" % i))
        for p in m.problems:
            c.problems.append("font[%d].%s" % (i, p))
        for r in m.records:
            if r.offset + r.length <= len(data):
                if r.offset < hdr_end:
                    c.problem("overlap-directory", "font %d table %r at %d inside the TTC header" % (i, r.tag, r.offset))
                blocks.setdefault((r.offset, r.length), []).append("%d:%s" % (i, r.tag))
        c.fonts.append(m)
    if len(set(offsets)) != len(offsets):
        c.problem("ttc-offset", "two members share an offset table: %r" % offsets)
    allb = [(o, l, ",".join(names)) for (o, l), names in blocks.items()] + dirs
    if dsig:
        allb.append(dsig)
    pos = _coverage(c, data, allb, hdr_end, len(data), "block")
    if len(data) > pad4(pos):
        c.problem("trailing-data", "%d bytes after the last block" % (len(data) - pad4(pos)))
    if 0 <= font_index < len(c.fonts):
        m = c.fonts[font_index]
        c.tables, c.records, c.spans, c.physical, c.sfnt_version = m.tables, m.records, m.spans, m.physical, m.sfnt_version
    return c


def shared_tables(ttc):
    """{(offset, length): [(font index, tag), ...]} for blocks referenced by more than one member."""
    seen = {}
    for i, m in enumerate(ttc.fonts):
        for t, (o, l) in m.spans.items():
            seen.setdefault((o, l), []).append((i, t))
    return {k: v for k, v in seen.items() if len({i for i, _t in v}) > 1}


# ------------------------------------------------------------------------------------ WOFF
def _meta_priv(c, data, pos, h, decompress, what):
    """Common WOFF / WOFF2 rules for the metadata and private blocks; pos = end of font data."""
    mo, ml, mol, po, pl = h["metaOffset"], h["metaLength"], h["metaOrigLength"], h["privOffset"], h["privLength"]
    if ml == 0 or mo == 0:
        if mo or ml or mol:
            c.problem(what + "-meta", "no metadata but offset/length/origLength = %d/%d/%d" % (mo, ml, mol))
    else:
        if mo != pad4(pos):
            c.problem(what + "-meta", "metadata at %d, font data ends at %d" % (mo, pos))
        if any(data[pos:mo]):
            c.problem("padding-nonzero", "before metadata")
        if mo + ml > len(data):
            c.problem("out-of-file", "metadata block")
        else:
            try:
                c.meta = decompress(data[mo : mo + ml])
                if len(c.meta) != mol:
                    c.problem(what + "-meta", "metaOrigLength %d, decompressed %d" % (mol, len(c.meta)))
            except Exception as e:
                c.problem(what + "-meta", "metadata does not decompress: %s" % e)
            pos = mo + ml
    if pl == 0 or po == 0:
        if po or pl:
            c.problem(what + "-private", "no private data but offset/length = %d/%d" % (po, pl))
    else:
        if po != pad4(pos):
            c.problem(what + "-private", "private data at %d, preceding block ends at %d" % (po, pos))
        if any(data[pos:po]):
            c.problem("padding-nonzero", "before private data")
        if po + pl > len(data):
            c.problem("out-of-file", "private block")
        else:
            c.private = data[po : po + pl]
            pos = po + pl
    return pos


def _parse_woff(data):
    c = Container("woff", len(data))
    if len(data) < 44:
        c.problem("truncated", "WOFF header")
        return c
    names = ("signature", "flavor", "length", "numTables", "reserved", "totalSfntSize", "majorVersion", "minorVersion",
             "metaOffset", "metaLength", "metaOrigLength", "privOffset", "privLength")
    h = dict(zip(names, struct.unpack_from(">4s4sLHHLHHLLLLL", data, 0)))
    c.header = h
    c.sfnt_version = h["flavor"]
    _check_version(c, h["flavor"])
    n = h["numTables"]
    if h["length"] != len(data):
        c.problem("woff-length", "header length %d, file size %d" % (h["length"], len(data)))
    if h["reserved"]:
        c.problem("woff-reserved", "%d" % h["reserved"])
    dir_end = 44 + 20 * n
    if len(data) < dir_end:
        c.problem("truncated", "WOFF directory")
        return c
    prev = None
    total = 12 + 16 * n
    for i in range(n):
        tag, off, cl, ol, cs = struct.unpack_from(">4sLLLL", data, 44 + 20 * i)
        t = tagstr(tag)
        r = TableRecord(t, cs, off, cl, ol)
        c.records.append(r)
        total += pad4(ol)
        if prev is not None and tag <= prev:
            c.problem("dir-duplicate" if tag == prev else "dir-order", "record %d %r follows %r" % (i, t, tagstr(prev)))
        prev = tag
        if off % 4:
            c.problem("align", "table %r at offset %d" % (t, off))
        if cl > ol:
            c.problem("woff-complength", "table %r compLength %d > origLength %d" % (t, cl, ol))
        if off + cl > len(data):
            c.problem("out-of-file", "table %r" % t)
            continue
        if off < dir_end:
            c.problem("overlap-directory", "table %r at %d" % (t, off))
        raw = data[off : off + cl]
        if cl != ol:
            try:
                d = zlib.decompress(raw)
            except Exception as e:
                c.problem("woff-zlib", "table %r: %s" % (t, e))
                continue
            if len(d) != ol:
                c.problem("woff-origlength", "table %r origLength %d, decompressed %d" % (t, ol, len(d)))
        else:
            d = raw
        if t not in c.tables:
            c.tables[t] = d
        if table_checksum(t, d) != cs:
            c.problem("checksum", "table %r: origChecksum %08x computed %08x" % (t, cs, table_checksum(t, d)))
        pe = pad4(off + cl)
        if pe > len(data):
            c.problem("final-padding", "table %r not padded to a 4-byte boundary at the end of the file" % t)
        if any(data[off + cl : min(pe, len(data))]):
            c.problem("padding-nonzero", "after table %r" % t)
    if h["totalSfntSize"] != total:
        c.problem("woff-totalsfntsize", "header %d, 12 + 16*numTables + sum(pad4(origLength)) = %d" % (h["totalSfntSize"], total))
    c.physical = [r.tag for r in sorted(c.records, key=lambda r: (r.offset, r.length, r.tag))]
    blocks = [(r.offset, r.length, r.tag) for r in c.records if r.offset + r.length <= len(data)]
    pos = _coverage(c, data, blocks, dir_end, len(data))
    pos = _meta_priv(c, data, pos, h, zlib.decompress, "woff")
    last_is_table = not (c.meta is not None or c.private is not None)
    end = pad4(pos) if last_is_table else pos
    if len(data) > end:
        c.problem("trailing-data", "%d bytes after the last block" % (len(data) - end))
    # the decoded sfnt (tables in the order of their data blocks) must carry a valid adjustment
    if "head" in c.tables and len(c.tables["head"]) >= 12:
        stored = struct.unpack_from(">L", c.tables["head"], 8)[0]
        ref = c.sfnt()
        offs = _sfnt_offsets(ref)
        exp = struct.unpack_from(">L", ref, offs["head"] + 8)[0]
        c.header["checkSumAdjustment"] = stored
        if stored != exp:
            c.problem("checksum-adjustment", "head.checkSumAdjustment %08x, decoded sfnt needs %08x" % (stored, exp))
    return c


def _sfnt_offsets(data):
    n = struct.unpack_from(">H", data, 4)[0]
    out = {}
    for i in range(n):
        tag, _cs, off, _ln = struct.unpack_from(">4sLLL", data, 12 + 16 * i)
        out[tagstr(tag)] = off
    return out


# ------------------------------------------------------------------------------------ WOFF2
def read_base128(data, pos):
    """UIntBase128 -> (value, new pos, problem or None)."""
    acc = 0
    prob = None
    for i in range(5):
        if pos >= len(data):
            raise OTSpecError("UIntBase128 runs off the data")
        b = data[pos]
        pos += 1
        if i == 0 and b == 0x80:
            prob = "leading zero"
        if acc & 0xFE000000:
            prob = "overflow"
        acc = (acc << 7) | (b & 0x7F)
        if not b & 0x80:
            return acc, pos, prob
    return acc, pos, "longer than 5 bytes"


def read_255(data, pos):
    """255UInt16 -> (value, new pos)."""
    c = data[pos]
    if c == 253:
        return struct.unpack_from(">H", data, pos + 1)[0], pos + 3
    if c == 255:
        return data[pos + 1] + 253, pos + 2
    if c == 254:
        return data[pos + 1] + 506, pos + 2
    return c, pos + 1


def _parse_woff2(data):
    c = Container("woff2", len(data))
    if len(data) < 48:
        c.problem("truncated", "WOFF2 header")
        return c
    names = ("signature", "flavor", "length", "numTables", "reserved", "totalSfntSize", "totalCompressedSize",
             "majorVersion", "minorVersion", "metaOffset", "metaLength", "metaOrigLength", "privOffset", "privLength")
    h = dict(zip(names, struct.unpack_from(">4s4sLHHLLHHLLLLL", data, 0)))
    c.header = h
    c.sfnt_version = h["flavor"]
    if h["flavor"] == b"ttcf":
        c.problem("unsupported", "WOFF2 collections are not read by otspec")
        return c
    _check_version(c, h["flavor"])
    if h["length"] != len(data):
        c.problem("woff2-length", "header length %d, file size %d" % (h["length"], len(data)))
    if h["reserved"]:
        c.problem("woff2-reserved", "%d" % h["reserved"])
    pos = 48
    n = h["numTables"]
    try:
        for i in range(n):
            flags = data[pos]
            pos += 1
            idx = flags & 0x3F
            if idx == 63:
                t = tagstr(data[pos : pos + 4])
                pos += 4
                if t in WOFF2_KNOWN_TAGS:
                    c.problem("woff2-knowntag", "table %r written with an explicit tag instead of index %d" % (t, WOFF2_KNOWN_TAGS.index(t)))
            else:
                t = WOFF2_KNOWN_TAGS[idx]
            tv = flags >> 6
            transformed = (tv != 3) if t in ("glyf", "loca") else (tv != 0)
            p0 = pos
            ol, pos, prob = read_base128(data, pos)
            if prob:
                c.problem("woff2-base128", "table %r origLength: %s" % (t, prob))
            elif pos - p0 != max(1, (ol.bit_length() + 6) // 7):
                c.problem("woff2-base128", "table %r origLength not minimal" % t)
            tl = None
            if transformed:
                tl, pos, prob = read_base128(data, pos)
                if prob:
                    c.problem("woff2-base128", "table %r transformLength: %s" % (t, prob))
                if t == "loca" and tl != 0:
                    c.problem("woff2-loca", "transformLength of loca is %d" % tl)
                if t in ("glyf", "loca") and tv != 0 or t == "hmtx" and tv != 1 or t not in ("glyf", "loca", "hmtx"):
                    c.problem("woff2-transform-version", "table %r transform version %d" % (t, tv))
            if any(r.tag == t for r in c.records):
                c.problem("dir-duplicate", "table %r" % t)
            c.records.append(TableRecord(t, None, None, tl if transformed else ol, ol, flags, transformed, tl))
    except (OTSpecError, IndexError, struct.error) as e:
        c.problem("truncated", "WOFF2 directory: %s" % e)
        return c
    tags = [r.tag for r in c.records]
    if tags != sorted(tags):
        c.problem("dir-order", "WOFF2 directory is not sorted by tag: %r" % tags)
    by = {r.tag: r for r in c.records}
    if "glyf" in by and "loca" in by:
        if by["glyf"].transformed != by["loca"].transformed:
            c.problem("woff2-glyf-loca", "glyf and loca must be transformed together")
        if tags.index("loca") < tags.index("glyf"):
            c.problem("woff2-glyf-loca", "loca precedes glyf")
    c.physical = list(tags)
    dir_end = pos
    tcs = h["totalCompressedSize"]
    if dir_end + tcs > len(data):
        c.problem("out-of-file", "compressed stream")
        return c
    try:
        stream = brotli.decompress(data[dir_end : dir_end + tcs])
    except Exception as e:
        c.problem("woff2-brotli", "stream of totalCompressedSize %d does not decompress: %s" % (tcs, e))
        return c
    if tcs:
        # a shorter prefix must not be a complete stream (totalCompressedSize is exact)
        try:
            brotli.decompress(data[dir_end : dir_end + tcs - 1])
            c.problem("woff2-compressedsize", "the stream is complete before totalCompressedSize bytes")
        except Exception:
            pass
    off = 0
    raw = {}
    for r in c.records:
        r.offset = off
        raw[r.tag] = stream[off : off + r.length]
        off += r.length
    if off != len(stream):
        c.problem("woff2-streamsize", "directory lengths add to %d, stream has %d bytes" % (off, len(stream)))
    # ---- reconstruct
    for r in c.records:
        if not r.transformed:
            c.tables[r.tag] = raw[r.tag]
            if len(raw[r.tag]) != r.orig_length:
                c.problem("woff2-origlength", "table %r" % r.tag)
    if "glyf" in by and by["glyf"].transformed:
        try:
            glyphs, index_format, prob = decode_woff2_glyf(raw["glyf"])
            for p in prob:
                c.problem("woff2-glyf", p)
            c.glyphs = glyphs
            glyf, loca = encode_glyf(glyphs, index_format)
            c.tables["glyf"], c.tables["loca"] = glyf, loca
            c.header["indexFormat"] = index_format
            if "loca" in by and by["loca"].orig_length != len(loca):
                c.problem("woff2-loca", "origLength of loca %d, (numGlyphs+1)*%d = %d" % (by["loca"].orig_length, 4 if index_format else 2, len(loca)))
            if "head" in c.tables and len(c.tables["head"]) >= 54:
                if struct.unpack_from(">h", c.tables["head"], 50)[0] != index_format:
                    c.problem("woff2-glyf", "indexFormat %d differs from head.indexToLocFormat" % index_format)
            if "maxp" in c.tables and len(c.tables["maxp"]) >= 6:
                if struct.unpack_from(">H", c.tables["maxp"], 4)[0] != len(glyphs):
                    c.problem("woff2-glyf", "numGlyphs %d differs from maxp.numGlyphs" % len(glyphs))
        except (OTSpecError, IndexError, struct.error) as e:
            c.problem("woff2-glyf", "transformed glyf does not decode: %s: %s" % (type(e).__name__, e))
    if "hmtx" in by and by["hmtx"].transformed:
        try:
            c.tables["hmtx"] = decode_woff2_hmtx(raw["hmtx"], c)
            if len(c.tables["hmtx"]) != by["hmtx"].orig_length:
                c.problem("woff2-hmtx", "origLength %d, reconstructed %d" % (by["hmtx"].orig_length, len(c.tables["hmtx"])))
        except (OTSpecError, IndexError, struct.error, KeyError) as e:
            c.problem("woff2-hmtx", "transformed hmtx does not decode: %s" % e)
    if "head" in c.tables and len(c.tables["head"]) >= 18:
        if not struct.unpack_from(">H", c.tables["head"], 16)[0] & 0x0800:
            c.problem("woff2-head-flag", "bit 11 of head.flags is not set")
    total = 12 + 16 * n + sum(pad4(r.orig_length) for r in c.records)
    if h["totalSfntSize"] != total:
        c.problem("woff2-totalsfntsize", "header %d, 12 + 16*numTables + sum(pad4(origLength)) = %d" % (h["totalSfntSize"], total))
    pos = dir_end + tcs
    pos2 = _meta_priv(c, data, pos, h, brotli.decompress, "woff2")
    if pos2 == pos:
        end = pad4(pos)
        if any(data[pos:end]):
            c.problem("padding-nonzero", "after the compressed stream")
    else:
        end = pos2
    if len(data) != end:
        c.problem("trailing-data" if len(data) > end else "final-padding", "file size %d, last block ends at %d" % (len(data), end))
    # checkSumAdjustment: only decidable when no table is transformed (a decoder must recompute it)
    if "head" in c.tables and len(c.tables["head"]) >= 12:
        c.header["checkSumAdjustment"] = struct.unpack_from(">L", c.tables["head"], 8)[0]
        if not any(r.transformed for r in c.records) and set(c.tables) == set(tags):
            ref = c.sfnt()
            exp = struct.unpack_from(">L", ref, _sfnt_offsets(ref)["head"] + 8)[0]
            if c.header["checkSumAdjustment"] != exp:
                c.problem("checksum-adjustment", "head.checkSumAdjustment %08x, decoded sfnt needs %08x" % (c.header["checkSumAdjustment"], exp))
    return c


def _with_sign(flag, v):
    return v if flag & 1 else -v


def decode_woff2_glyf(data):
    """Transformed glyf table (WOFF2 5.1) -> ([Glyph], indexFormat, [problem])."""
    problems = []
    if len(data) < 36:
        raise OTSpecError("transformed glyf header")
    _res, opt, n, index_format = struct.unpack_from(">HHHH", data, 0)
    sizes = struct.unpack_from(">7L", data, 8)
    if _res:
        problems.append("reserved field %d" % _res)
    if opt & ~1:
        problems.append("optionFlags %04x has reserved bits" % opt)
    if index_format not in (0, 1):
        problems.append("indexFormat %d" % index_format)
    pos = 36
    streams = []
    for s in sizes:
        streams.append(data[pos : pos + s])
        pos += s
    ncont, npts, flagst, glyphst, compst, bboxst, instrst = streams
    overlap = None
    if opt & 1:
        k = (n + 7) >> 3
        overlap = data[pos : pos + k]
        pos += k
    if pos != len(data):
        problems.append("stream sizes add to %d, table has %d bytes" % (pos, len(data)))
    if len(ncont) != 2 * n:
        raise OTSpecError("nContourStream has %d bytes for %d glyphs" % (len(ncont), n))
    bm = 4 * ((n + 31) >> 5)
    bitmap, bboxes = bboxst[:bm], bboxst[bm:]
    p_npts = p_flag = p_glyph = p_comp = p_bbox = p_instr = 0
    glyphs = []
    for gid in range(n):
        nc = struct.unpack_from(">h", ncont, 2 * gid)[0]
        g = Glyph()
        g.ncontours = nc
        has_bbox = bool(bitmap[gid >> 3] & (0x80 >> (gid & 7)))
        if nc == 0:
            if has_bbox:
                problems.append("glyph %d is empty but has an explicit bbox" % gid)
            glyphs.append(g)
            continue
        if nc > 0:
            end = -1
            for _ in range(nc):
                k, p_npts = read_255(npts, p_npts)
                end += k
                g.end_pts.append(end)
            total = end + 1
            x = y = 0
            for i in range(total):
                f = flagst[p_flag]
                p_flag += 1
                on = not f >> 7
                f &= 0x7F
                t = glyphst
                q = p_glyph
                if f < 10:
                    dx, dy, nb = 0, _with_sign(f, ((f & 14) << 7) + t[q]), 1
                elif f < 20:
                    dx, dy, nb = _with_sign(f, (((f - 10) & 14) << 7) + t[q]), 0, 1
                elif f < 84:
                    b0 = f - 20
                    dx = _with_sign(f, 1 + (b0 & 0x30) + (t[q] >> 4))
                    dy = _with_sign(f >> 1, 1 + ((b0 & 0x0C) << 2) + (t[q] & 0x0F))
                    nb = 1
                elif f < 120:
                    b0 = f - 84
                    dx = _with_sign(f, 1 + ((b0 // 12) << 8) + t[q])
                    dy = _with_sign(f >> 1, 1 + (((b0 % 12) >> 2) << 8) + t[q + 1])
                    nb = 2
                elif f < 124:
                    dx = _with_sign(f, (t[q] << 4) + (t[q + 1] >> 4))
                    dy = _with_sign(f >> 1, ((t[q + 1] & 0x0F) << 8) + t[q + 2])
                    nb = 3
                else:
                    dx = _with_sign(f, (t[q] << 8) + t[q + 1])
                    dy = _with_sign(f >> 1, (t[q + 2] << 8) + t[q + 3])
                    nb = 4
                p_glyph += nb
                x += dx
                y += dy
                g.points.append((x, y))
                g.flags.append(1 if on else 0)
            il, p_glyph = read_255(glyphst, p_glyph)
            g.instructions = instrst[p_instr : p_instr + il]
            if len(g.instructions) != il:
                raise OTSpecError("instruction stream exhausted at glyph %d" % gid)
            p_instr += il
            if overlap is not None and overlap[gid >> 3] & (0x80 >> (gid & 7)) and g.flags:
                g.flags[0] |= 0x40
            if has_bbox:
                g.bbox = struct.unpack_from(">hhhh", bboxes, p_bbox)
                p_bbox += 8
            else:
                xs = [p[0] for p in g.points]
                ys = [p[1] for p in g.points]
                g.bbox = (min(xs), min(ys), max(xs), max(ys)) if xs else (0, 0, 0, 0)
        else:
            if nc != -1:
                problems.append("glyph %d has numberOfContours %d" % (gid, nc))
            start = p_comp
            comps, p_comp, have_instr = _parse_components(compst, p_comp)
            g.components = comps
            g.comp_raw = compst[start:p_comp]
            if have_instr:
                il, p_glyph = read_255(glyphst, p_glyph)
                g.instructions = instrst[p_instr : p_instr + il]
                p_instr += il
            if not has_bbox:
                problems.append("composite glyph %d has no explicit bbox" % gid)
                g.bbox = (0, 0, 0, 0)
            else:
                g.bbox = struct.unpack_from(">hhhh", bboxes, p_bbox)
                p_bbox += 8
        glyphs.append(g)
    for name, used, st in (("nPoints", p_npts, npts), ("flag", p_flag, flagst), ("glyph", p_glyph, glyphst),
                           ("composite", p_comp, compst), ("bbox", p_bbox, bboxes), ("instruction", p_instr, instrst)):
        if used != len(st):
            problems.append("%sStream: %d of %d bytes consumed" % (name, used, len(st)))
    return glyphs, index_format, problems


def decode_woff2_hmtx(data, c):
    flags = data[0]
    if flags & 0xFC:
        c.problem("woff2-hmtx", "reserved flag bits %02x" % flags)
    if not flags & 3:
        c.problem("woff2-hmtx", "transformed hmtx with neither array omitted")
    nh = struct.unpack_from(">H", c.tables["hhea"], 34)[0]
    ng = struct.unpack_from(">H", c.tables["maxp"], 4)[0]
    glyphs = c.glyphs if c.glyphs is not None else glyf_glyphs(c.tables)
    xmins = [(g.bbox[0] if g.ncontours != 0 and g.bbox else 0) for g in glyphs]
    pos = 1
    adv = struct.unpack_from(">%dH" % nh, data, pos)
    pos += 2 * nh
    if flags & 1:
        lsb = xmins[:nh]
    else:
        lsb = struct.unpack_from(">%dh" % nh, data, pos)
        pos += 2 * nh
    if flags & 2:
        rest = xmins[nh:ng]
    else:
        rest = struct.unpack_from(">%dh" % (ng - nh), data, pos)
        pos += 2 * (ng - nh)
    if pos != len(data):
        c.problem("woff2-hmtx", "%d of %d bytes consumed" % (pos, len(data)))
    out = b"".join(struct.pack(">Hh", a, l) for a, l in zip(adv, lsb))
    return out + struct.pack(">%dh" % len(rest), *rest)


# ------------------------------------------------------------------------------------ entry
def parse_container(data, font_index=0):
    data = bytes(data)
    sig = data[:4]
    if sig == b"ttcf":
        return _parse_ttc(data, font_index)
    if sig == b"wOFF":
        return _parse_woff(data)
    if sig == b"wOF2":
        return _parse_woff2(data)
    return _parse_plain_sfnt(data)


# ------------------------------------------------------------------------------------ tables
def _unpack(names, fmt, data):
    size = struct.calcsize(fmt)
    if len(data) < size:
        raise OTSpecError("table too short: %d < %d" % (len(data), size))
    return dict(zip(names, struct.unpack_from(fmt, data, 0)))


def parse_head(data):
    names = ("majorVersion", "minorVersion", "fontRevision", "checkSumAdjustment", "magicNumber", "flags", "unitsPerEm",
             "created", "modified", "xMin", "yMin", "xMax", "yMax", "macStyle", "lowestRecPPEM", "fontDirectionHint",
             "indexToLocFormat", "glyphDataFormat")
    return _unpack(names, ">HHlLLHHqqhhhhHHhhh", data)


_HHEA = ("version", "ascender", "descender", "lineGap", "advanceMax", "minFirstSideBearing", "minSecondSideBearing",
         "maxExtent", "caretSlopeRise", "caretSlopeRun", "caretOffset", "r0", "r1", "r2", "r3", "metricDataFormat",
         "numberOfMetrics")


def parse_hhea(data):
    """hhea: advanceMax = advanceWidthMax, minFirstSideBearing = minLeftSideBearing,
    minSecondSideBearing = minRightSideBearing, maxExtent = xMaxExtent."""
    return _unpack(_HHEA, ">LhhhHhhhhhhhhhhhH", data)


def parse_vhea(data):
    """vhea: advanceMax = advanceHeightMax, minFirst = minTopSideBearing, minSecond =
    minBottomSideBearing, maxExtent = yMaxExtent."""
    return _unpack(_HHEA, ">LhhhHhhhhhhhhhhhH", data)


def parse_maxp(data):
    d = _unpack(("version", "numGlyphs"), ">LH", data)
    if d["version"] == 0x00010000:
        names = ("maxPoints", "maxContours", "maxCompositePoints", "maxCompositeContours", "maxZones", "maxTwilightPoints",
                 "maxStorage", "maxFunctionDefs", "maxInstructionDefs", "maxStackElements", "maxSizeOfInstructions",
                 "maxComponentElements", "maxComponentDepth")
        if len(data) != 32:
            raise OTSpecError("maxp 1.0 has %d bytes" % len(data))
        d.update(zip(names, struct.unpack_from(">13H", data, 6)))
    elif d["version"] == 0x00005000:
        if len(data) != 6:
            raise OTSpecError("maxp 0.5 has %d bytes" % len(data))
    else:
        raise OTSpecError("maxp version %08x" % d["version"])
    return d


def _note(problems, code, msg):
    if problems is not None:
        problems.append("%s: %s" % (code, msg))


def num_glyphs(tables):
    return parse_maxp(tables["maxp"])["numGlyphs"]


def parse_metrics(tables, tag="hmtx", problems=None):
    """[(advance, side bearing)] for every glyph; the length rule of the spec is checked."""
    hdr = parse_hhea(tables["hhea" if tag == "hmtx" else "vhea"])
    n = num_glyphs(tables)
    nm = hdr["numberOfMetrics"]
    data = tables[tag]
    if nm < 1 and n:
        _note(problems, tag + "-count", "numberOfMetrics is %d" % nm)
    if nm > n:
        _note(problems, tag + "-count", "numberOfMetrics %d > numGlyphs %d" % (nm, n))
        nm = n
    need = 4 * nm + 2 * (n - nm)
    if len(data) != need:
        _note(problems, tag + "-length", "%d bytes, 4*%d + 2*%d = %d" % (len(data), nm, n - nm, need))
        if len(data) < need:
            raise OTSpecError("%s too short" % tag)
    out = []
    for i in range(nm):
        out.append(struct.unpack_from(">Hh", data, 4 * i))
    last = out[-1][0] if out else 0
    for i in range(n - nm):
        out.append((last, struct.unpack_from(">h", data, 4 * nm + 2 * i)[0]))
    return out


def parse_loca(tables, problems=None):
    head = parse_head(tables["head"])
    fmt = head["indexToLocFormat"]
    data = tables["loca"]
    if fmt not in (0, 1):
        _note(problems, "loca-format", "indexToLocFormat %d" % fmt)
        raise OTSpecError("indexToLocFormat %d" % fmt)
    size = 4 if fmt else 2
    if len(data) % size:
        _note(problems, "loca-length", "%d bytes is not a multiple of %d" % (len(data), size))
    k = len(data) // size
    vals = struct.unpack_from(">%d%s" % (k, "L" if fmt else "H"), data, 0)
    offs = [v if fmt else 2 * v for v in vals]
    if "maxp" in tables:
        n = num_glyphs(tables)
        if k != n + 1:
            _note(problems, "loca-length", "%d entries, numGlyphs + 1 = %d" % (k, n + 1))
    for i in range(1, k):
        if offs[i] < offs[i - 1]:
            _note(problems, "loca-order", "offset %d (%d) < offset %d (%d)" % (i, offs[i], i - 1, offs[i - 1]))
            break
    if offs and "glyf" in tables and offs[-1] > len(tables["glyf"]):
        _note(problems, "loca-range", "last offset %d, glyf has %d bytes" % (offs[-1], len(tables["glyf"])))
    return offs


# glyf -------------------------------------------------------------------------------------
ARG_WORDS, ARGS_XY, ROUND_XY, HAVE_SCALE, MORE, HAVE_XY_SCALE, HAVE_2X2, HAVE_INSTR = 1, 2, 4, 8, 0x20, 0x40, 0x80, 0x100
USE_MY_METRICS, OVERLAP_COMPOUND, SCALED_OFFSET, UNSCALED_OFFSET = 0x200, 0x400, 0x800, 0x1000


class Component:
    __slots__ = ("flags", "glyph", "arg1", "arg2", "transform")

    def key(self):
        return (self.flags & ~(MORE | HAVE_INSTR), self.glyph, self.arg1, self.arg2, self.transform)


class Glyph:
    def __init__(self):
        self.ncontours = 0
        self.bbox = None
        self.end_pts = []
        self.points = []
        self.flags = []
        self.instructions = b""
        self.components = []
        self.comp_raw = b""
        self.length = 0
        self.slack = b""

    def is_composite(self):
        return self.ncontours < 0

    def key(self):
        """Canonical content (what WOFF2's transform must preserve): overlap bit of the first
        point only, no repeat/short-vector packing."""
        fl = [f & 0x81 for f in self.flags]
        if self.flags and self.flags[0] & 0x40:
            fl[0] |= 0x40
        return (self.ncontours, tuple(self.bbox) if self.bbox else None, tuple(self.end_pts), tuple(self.points), tuple(fl),
                bytes(self.instructions), tuple(c.key() for c in self.components))


def _f2dot14(v):
    return Fraction(v, 16384)


def _parse_components(data, pos):
    comps = []
    have_instr = False
    while True:
        flags, gid = struct.unpack_from(">HH", data, pos)
        pos += 4
        c = Component()
        c.flags, c.glyph = flags, gid
        if flags & ARG_WORDS:
            c.arg1, c.arg2 = struct.unpack_from(">hh" if flags & ARGS_XY else ">HH", data, pos)
            pos += 4
        else:
            c.arg1, c.arg2 = struct.unpack_from(">bb" if flags & ARGS_XY else ">BB", data, pos)
            pos += 2
        c.transform = None
        if flags & HAVE_SCALE:
            (s,) = struct.unpack_from(">h", data, pos)
            pos += 2
            c.transform = (_f2dot14(s), Fraction(0), Fraction(0), _f2dot14(s))
        elif flags & HAVE_XY_SCALE:
            sx, sy = struct.unpack_from(">hh", data, pos)
            pos += 4
            c.transform = (_f2dot14(sx), Fraction(0), Fraction(0), _f2dot14(sy))
        elif flags & HAVE_2X2:
            a, b, cc, d = struct.unpack_from(">hhhh", data, pos)
            pos += 8
            c.transform = (_f2dot14(a), _f2dot14(b), _f2dot14(cc), _f2dot14(d))  # xscale, scale01, scale10, yscale
        comps.append(c)
        if flags & HAVE_INSTR:
            have_instr = True
        if not flags & MORE:
            break
    return comps, pos, have_instr


def parse_glyph(data):
    g = Glyph()
    if not data:
        return g
    if len(data) < 10:
        raise OTSpecError("glyph of %d bytes" % len(data))
    nc, x0, y0, x1, y1 = struct.unpack_from(">hhhhh", data, 0)
    g.ncontours = nc
    g.bbox = (x0, y0, x1, y1)
    pos = 10
    if nc > 0:
        g.end_pts = list(struct.unpack_from(">%dH" % nc, data, pos))
        pos += 2 * nc
        (il,) = struct.unpack_from(">H", data, pos)
        pos += 2
        g.instructions = data[pos : pos + il]
        if len(g.instructions) != il:
            raise OTSpecError("instructions run off the glyph")
        pos += il
        n = g.end_pts[-1] + 1
        flags = []
        while len(flags) < n:
            f = data[pos]
            pos += 1
            flags.append(f)
            if f & 8:
                r = data[pos]
                pos += 1
                flags.extend([f] * r)
        if len(flags) != n:
            raise OTSpecError("flag repeat overruns the point count")
        xs = []
        v = 0
        for f in flags:
            if f & 2:
                d = data[pos]
                pos += 1
                v += d if f & 0x10 else -d
            elif not f & 0x10:
                v += struct.unpack_from(">h", data, pos)[0]
                pos += 2
            xs.append(v)
        ys = []
        v = 0
        for f in flags:
            if f & 4:
                d = data[pos]
                pos += 1
                v += d if f & 0x20 else -d
            elif not f & 0x20:
                v += struct.unpack_from(">h", data, pos)[0]
                pos += 2
            ys.append(v)
        if pos > len(data):
            raise OTSpecError("coordinates run off the glyph")
        g.points = list(zip(xs, ys))
        g.flags = [f & 0xC1 for f in flags]
    elif nc < 0:
        start = pos
        g.components, pos, have_instr = _parse_components(data, pos)
        g.comp_raw = data[start:pos]
        if have_instr:
            (il,) = struct.unpack_from(">H", data, pos)
            pos += 2
            g.instructions = data[pos : pos + il]
            if len(g.instructions) != il:
                raise OTSpecError("instructions run off the glyph")
            pos += il
    g.length = pos
    g.slack = data[pos:]
    return g


def glyf_glyphs(tables, problems=None):
    """Decode every glyph of glyf through loca."""
    offs = parse_loca(tables, problems)
    data = tables["glyf"]
    out = []
    for i in range(len(offs) - 1):
        a, b = offs[i], offs[i + 1]
        if b < a or b > len(data):
            _note(problems, "glyph-range", "glyph %d [%d, %d)" % (i, a, b))
            out.append(Glyph())
            continue
        try:
            g = parse_glyph(data[a:b])
        except (OTSpecError, struct.error, IndexError) as e:
            _note(problems, "glyph-parse", "glyph %d: %s" % (i, e))
            g = Glyph()
            g.broken = True
        if any(g.slack):
            _note(problems, "glyph-slack-nonzero", "glyph %d: %s" % (i, g.slack.hex()))
        out.append(g)
    return out


def encode_glyph(g):
    if g.ncontours == 0:
        return b""
    out = struct.pack(">hhhhh", g.ncontours, *g.bbox)
    if g.ncontours > 0:
        out += struct.pack(">%dH" % len(g.end_pts), *g.end_pts)
        out += struct.pack(">H", len(g.instructions)) + bytes(g.instructions)
        out += bytes((f & 0x41) for f in g.flags)
        px = py = 0
        xs, ys = [], []
        for x, y in g.points:
            xs.append(x - px)
            ys.append(y - py)
            px, py = x, y
        out += struct.pack(">%dh" % len(xs), *xs) + struct.pack(">%dh" % len(ys), *ys)
    else:
        out += bytes(g.comp_raw)
        if any(c.flags & HAVE_INSTR for c in g.components):
            out += struct.pack(">H", len(g.instructions)) + bytes(g.instructions)
    return out


def encode_glyf(glyphs, index_format):
    """A plain (unpacked flags, 4-byte aligned) glyf + loca for decoded glyphs."""
    parts, offs, pos = [], [], 0
    for g in glyphs:
        d = encode_glyph(g)
        d += b"\0" * (pad4(len(d)) - len(d))
        offs.append(pos)
        parts.append(d)
        pos += len(d)
    offs.append(pos)
    if index_format:
        loca = struct.pack(">%dL" % len(offs), *offs)
    else:
        if pos >= 0x20000:
            raise OTSpecError("short loca cannot address %d bytes" % pos)
        loca = struct.pack(">%dH" % len(offs), *[o // 2 for o in offs])
    return b"".join(parts), loca


def flatten(glyphs, gid, _stack=()):
    """All points of a glyph after composite flattening: ([(x, y)], [on], [end point])."""
    if gid in _stack:
        raise OTSpecError("component cycle through glyph %d" % gid)
    if len(_stack) > 64:
        raise OTSpecError("component nesting deeper than 64")
    if not 0 <= gid < len(glyphs):
        raise OTSpecError("component glyph %d does not exist" % gid)
    g = glyphs[gid]
    if g.ncontours > 0:
        return [(Fraction(x), Fraction(y)) for x, y in g.points], [bool(f & 1) for f in g.flags], list(g.end_pts)
    pts, ons, ends = [], [], []
    for c in g.components:
        cp, co, ce = flatten(glyphs, c.glyph, _stack + (gid,))
        t = c.transform
        def tr(p):
            if t is None:
                return p
            a, b, cc, d = t
            return (a * p[0] + cc * p[1], b * p[0] + d * p[1])
        if c.flags & ARGS_XY:
            off = (Fraction(c.arg1), Fraction(c.arg2))
            if t is not None and c.flags & SCALED_OFFSET and not c.flags & UNSCALED_OFFSET:
                off = tr(off)
            cp = [tr(p) for p in cp]
        else:
            cp = [tr(p) for p in cp]
            if c.arg1 >= len(pts) or c.arg2 >= len(cp):
                raise OTSpecError("glyph %d: point matching %d/%d out of range" % (gid, c.arg1, c.arg2))
            off = (pts[c.arg1][0] - cp[c.arg2][0], pts[c.arg1][1] - cp[c.arg2][1])
        base = len(pts)
        pts.extend((p[0] + off[0], p[1] + off[1]) for p in cp)
        ons.extend(co)
        ends.extend(e + base for e in ce)
    return pts, ons, ends


def glyph_bbox(glyphs, gid):
    """Bounding box of all (flattened) points, rounded half up; None for a glyph without data;
    (0, 0, 0, 0) for a glyph record without any point."""
    g = glyphs[gid]
    if g.ncontours == 0:
        return None
    pts = flatten(glyphs, gid)[0]
    if not pts:
        return (0, 0, 0, 0)
    xs = [p[0] for p in pts]
    ys = [p[1] for p in pts]
    return (ot_round(min(xs)), ot_round(min(ys)), ot_round(max(xs)), ot_round(max(ys)))


def _composite_profile(glyphs, gid, memo, stack=()):
    """(points, contours, depth) of a glyph for maxp; depth of a simple glyph is 0."""
    if gid in memo:
        return memo[gid]
    if gid in stack:
        raise OTSpecError("component cycle through glyph %d" % gid)
    g = glyphs[gid]
    if g.ncontours >= 0:
        r = (len(g.points), len(g.end_pts), 0)
    else:
        p = c = 0
        d = 1
        for comp in g.components:
            if not 0 <= comp.glyph < len(glyphs):
                raise OTSpecError("component glyph %d does not exist" % comp.glyph)
            sp, sc, sd = _composite_profile(glyphs, comp.glyph, memo, stack + (gid,))
            p += sp
            c += sc
            d = max(d, sd + 1)
        r = (p, c, d)
    memo[gid] = r
    return r


# CFF ---------------------------------------------------------------------------------------
def _cff_index_count(data, pos, cff2):
    if cff2:
        return struct.unpack_from(">L", data, pos)[0]
    return struct.unpack_from(">H", data, pos)[0]


def _cff_skip_index(data, pos):
    (count,) = struct.unpack_from(">H", data, pos)
    if count == 0:
        return pos + 2, []
    osz = data[pos + 2]
    offs = [int.from_bytes(data[pos + 3 + i * osz : pos + 3 + (i + 1) * osz], "big") for i in range(count + 1)]
    base = pos + 3 + (count + 1) * osz - 1
    return base + offs[-1], [(base + offs[i], base + offs[i + 1]) for i in range(count)]


def _dict_operator(data, want):
    """Operands of operator `want` in a CFF DICT."""
    pos, stack = 0, []
    while pos < len(data):
        b = data[pos]
        if b <= 27:
            op = b
            pos += 1
            if b == 12:
                op = (12, data[pos])
                pos += 1
            if op == want:
                return stack
            stack = []
        elif b == 28:
            stack.append(struct.unpack_from(">h", data, pos + 1)[0])
            pos += 3
        elif b == 29:
            stack.append(struct.unpack_from(">l", data, pos + 1)[0])
            pos += 5
        elif b == 30:
            pos += 1
            while True:
                v = data[pos]
                pos += 1
                if v & 0x0F == 0x0F or v >> 4 == 0x0F:
                    break
            stack.append(None)
        elif 32 <= b <= 246:
            stack.append(b - 139)
            pos += 1
        elif 247 <= b <= 250:
            stack.append((b - 247) * 256 + data[pos + 1] + 108)
            pos += 2
        elif 251 <= b <= 254:
            stack.append(-(b - 251) * 256 - data[pos + 1] - 108)
            pos += 2
        else:
            raise OTSpecError("DICT byte %d" % b)
    return None


def cff_num_glyphs(tables):
    """Count of the CharStrings INDEX of 'CFF ' or 'CFF2' (None when there is neither)."""
    if "CFF " in tables:
        data = tables["CFF "]
        pos = data[2]
        pos, _names = _cff_skip_index(data, pos)
        _end, tops = _cff_skip_index(data, pos)
        if not tops:
            raise OTSpecError("no Top DICT")
        a, b = tops[0]
        ops = _dict_operator(data[a:b], 17)
        if not ops:
            raise OTSpecError("Top DICT without CharStrings")
        return _cff_index_count(data, ops[-1], False)
    if "CFF2" in tables:
        data = tables["CFF2"]
        hdr = data[2]
        (tl,) = struct.unpack_from(">H", data, 3)
        ops = _dict_operator(data[hdr : hdr + tl], 17)
        if not ops:
            raise OTSpecError("Top DICT without CharStrings")
        return _cff_index_count(data, ops[-1], True)
    return None


# derived fields ----------------------------------------------------------------------------
def _union(boxes):
    boxes = [b for b in boxes if b is not None]
    if not boxes:
        return (0, 0, 0, 0)
    return (min(b[0] for b in boxes), min(b[1] for b in boxes), max(b[2] for b in boxes), max(b[3] for b in boxes))


def _side(metrics, boxes, lo, hi):
    """(advanceMax, minFirst, minSecond, maxExtent): sums over glyphs that have a glyph record
    with numberOfContours != 0 (the spec: 'glyphs with contours'; empty glyphs are ignored)."""
    out = {"advanceMax": max((m[0] for m in metrics), default=0)}
    rows = [(m, b) for m, b in zip(metrics, boxes) if b is not None] if boxes is not None else None
    if rows is None:
        return out
    if not rows:
        out.update(minFirstSideBearing=0, minSecondSideBearing=0, maxExtent=0)
        return out
    out["minFirstSideBearing"] = min(m[1] for m, b in rows)
    out["minSecondSideBearing"] = min(m[0] - m[1] - (b[hi] - b[lo]) for m, b in rows)
    out["maxExtent"] = max(m[1] + (b[hi] - b[lo]) for m, b in rows)
    return out


def recompute_derived(tables, glyphs=None, bboxes=None):
    """Every redundant field, recomputed from the glyph, location and metrics data alone
    (`bboxes`: use these per-glyph boxes instead of recomputing them from the points).

    keys: numGlyphs, glyph_bboxes [bbox | None], head.bbox, head.indexToLocFormat,
    head.flags.lsbIsXMin, maxp.<field> (maxPoints, maxContours, maxCompositePoints,
    maxCompositeContours, maxComponentElements, maxComponentDepth), hhea.<field> / vhea.<field>
    (advanceMax, minFirstSideBearing, minSecondSideBearing, maxExtent), problems [str]."""
    out = {"problems": []}
    boxes = None
    if "glyf" in tables and "loca" in tables and "head" in tables:
        if glyphs is None:
            glyphs = glyf_glyphs(tables, out["problems"])
        n = len(glyphs)
        out["numGlyphs"] = n
        boxes = []
        for i in range(n):
            if bboxes is not None:
                boxes.append(bboxes[i])
                continue
            try:
                boxes.append(glyph_bbox(glyphs, i))
            except OTSpecError as e:
                out["problems"].append("flatten: glyph %d: %s" % (i, e))
                boxes.append(None)
        out["glyph_bboxes"] = boxes
        out["head.bbox"] = _union(boxes)
        mp = mc = mcp = mcc = mce = mcd = 0
        memo = {}
        for i, g in enumerate(glyphs):
            if g.ncontours > 0:
                mp = max(mp, len(g.points))
                mc = max(mc, len(g.end_pts))
            elif g.ncontours < 0:
                try:
                    p, c, d = _composite_profile(glyphs, i, memo)
                except OTSpecError as e:
                    out["problems"].append("profile: glyph %d: %s" % (i, e))
                    continue
                mcp, mcc, mcd = max(mcp, p), max(mcc, c), max(mcd, d)
                mce = max(mce, len(g.components))
        out.update({"maxp.maxPoints": mp, "maxp.maxContours": mc, "maxp.maxCompositePoints": mcp,
                    "maxp.maxCompositeContours": mcc, "maxp.maxComponentElements": mce, "maxp.maxComponentDepth": mcd})
        try:
            offs = parse_loca(tables)
            out["head.indexToLocFormat"] = 0 if (max(offs, default=0) < 0x20000 and all(o % 2 == 0 for o in offs)) else 1
        except OTSpecError:
            pass
    else:
        try:
            n = cff_num_glyphs(tables)
            if n is not None:
                out["numGlyphs"] = n
        except (OTSpecError, struct.error, IndexError) as e:
            out["problems"].append("cff: %s" % e)
    for hdr, mtx, lo, hi in (("hhea", "hmtx", 0, 2), ("vhea", "vmtx", 1, 3)):
        if hdr in tables and mtx in tables and "maxp" in tables:
            try:
                metrics = parse_metrics(tables, mtx, out["problems"])
            except (OTSpecError, struct.error) as e:
                out["problems"].append("%s: %s" % (mtx, e))
                continue
            out[mtx] = metrics
            b = boxes if boxes is not None and len(boxes) == len(metrics) else None
            for k, v in _side(metrics, b, lo, hi).items():
                out["%s.%s" % (hdr, k)] = v
            if mtx == "hmtx" and b is not None:
                out["head.flags.lsbIsXMin"] = all(m[1] == bb[0] for m, bb in zip(metrics, b) if bb is not None)
    return out


def stored_derived(tables, glyphs=None):
    """The stored counterparts of recompute_derived (same keys)."""
    out = {}
    if "maxp" in tables:
        mx = parse_maxp(tables["maxp"])
        out["numGlyphs"] = mx["numGlyphs"]
        for k in ("maxPoints", "maxContours", "maxCompositePoints", "maxCompositeContours", "maxComponentElements", "maxComponentDepth"):
            if k in mx:
                out["maxp." + k] = mx[k]
    if "head" in tables:
        h = parse_head(tables["head"])
        out["head.bbox"] = (h["xMin"], h["yMin"], h["xMax"], h["yMax"])
        out["head.indexToLocFormat"] = h["indexToLocFormat"]
        out["head.flags.lsbIsXMin"] = bool(h["flags"] & 2)
    if "glyf" in tables and "loca" in tables and "head" in tables:
        if glyphs is None:
            glyphs = glyf_glyphs(tables)
        out["glyph_bboxes"] = [tuple(g.bbox) if g.ncontours != 0 and g.bbox else None for g in glyphs]
    for hdr in ("hhea", "vhea"):
        if hdr in tables:
            h = parse_hhea(tables[hdr])
            for k in ("advanceMax", "minFirstSideBearing", "minSecondSideBearing", "maxExtent"):
                out["%s.%s" % (hdr, k)] = h[k]
    return out
