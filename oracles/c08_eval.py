"""C08 helpers: limit-spec lattice, observation of a (variable or static) font at a user
location through fontTools (floats) and HarfBuzz, and the rounding budgets.

Nothing here imports fontTools.varLib.instancer: the observers are the *reading* side of
fontTools (glyf/gvar decoding, supportScalar, iup_delta, VarStoreInstancer, glyphSet) and
HarfBuzz; the budgets are computed from the variation data actually stored in a font.
"""
from mc import env  # noqa: F401

import io
import itertools
import math

from fontTools.ttLib import TTFont
from fontTools.ttLib.tables._g_l_y_f import GlyphCoordinates
from fontTools.varLib.iup import iup_delta
from fontTools.varLib.models import supportScalar, piecewiseLinearMap
from fontTools.varLib.varStore import VarStoreInstancer
from fontTools.varLib.mvar import MVAR_ENTRIES

from . import geom, hbridge

F14 = 1.0 / 16384

FEATURES = {"kern": True, "mark": True, "mkmk": True, "liga": True, "calt": True, "rvrn": True, "rlig": True, "ccmp": True}


# --------------------------------------------------------------------------- lattice
def axis_points(lo, df, hi, quarters=False):
    """Lattice P of one axis in user space: min, mid-, default, mid+, max (+ quarter points)."""
    n = 4 if quarters else 2
    pts = [lo + (df - lo) * i / n for i in range(n)] + [df] + [df + (hi - df) * i / n for i in range(1, n + 1)]
    out = []
    for p in pts:
        if p not in out:
            out.append(p)
    return sorted(out)


def axis_restrictions(lo, df, hi, extra_forms=False):
    """Every restriction of one axis over P: ['pin', p] for each p, ['drop'] (pin at default by
    None), ['range', a, b] (2-tuple API form, a <= default <= b, a < b), ['triple', a, d, b]
    for every a <= d <= b over P with a < b (incl. unmoved default and the identity).
    extra_forms adds ['range', a, b] whose range excludes the default (documented: default is
    clamped to the nearer end)."""
    P = axis_points(lo, df, hi)
    out = [["drop"]]
    for p in P:
        out.append(["pin", p])
    for a, b in itertools.combinations(P, 2):
        if a <= df <= b:
            out.append(["range", a, b])
        elif extra_forms:
            out.append(["range", a, b])
    for a, b in itertools.combinations(P, 2):
        for d in P:
            if a <= d <= b:
                out.append(["triple", a, d, b])
    return out


def restriction_value(r):
    """API value passed to instantiateVariableFont for one axis."""
    k = r[0]
    if k == "drop":
        return None
    if k == "pin":
        return r[1]
    if k == "range":
        return (r[1], r[2])
    return (r[1], r[2], r[3])


def restriction_triple(r, lo, df, hi):
    """(min, default, max) in user space the instance must have for this axis (pinned: all equal)."""
    k = r[0]
    if k == "drop":
        return (df, df, df)
    if k == "pin":
        return (r[1], r[1], r[1])
    if k == "range":
        return (r[1], min(max(df, r[1]), r[2]), r[2])
    return (r[1], r[2], r[3])


def is_simple(r, lo, df, hi):
    """restrictions that are not moved-default triples (used by the quick tier's pair product)"""
    return r[0] != "triple"


def locations(axes, new_triples, quarters=False):
    """All lattice points of P^axes (user space) inside the new limits.  axes: [(tag, lo, df,
    hi)] of the ORIGINAL font; new_triples: {tag: (a, d, b)} for restricted axes."""
    per = []
    for tag, lo, df, hi in axes:
        P = axis_points(lo, df, hi, quarters)
        if tag in new_triples:
            a, d, b = new_triples[tag]
            pts = [p for p in P if a <= p <= b]
            for v in (a, d, b):  # always the new corner points themselves
                if v not in pts:
                    pts.append(v)
            P = sorted(pts)
        per.append([(tag, p) for p in P])
    for combo in itertools.product(*per):
        yield dict(combo)


# --------------------------------------------------------------------------- normalisation
def norm_location(font, uloc):
    """normalised (post-avar) location of a user location, fontTools floats; {} for static"""
    if "fvar" not in font:
        return {}
    full = {a.axisTag: uloc.get(a.axisTag, a.defaultValue) for a in font["fvar"].axes}
    n = font.normalizeLocation(full)
    return {a.axisTag: n.get(a.axisTag, 0.0) for a in font["fvar"].axes}


def avar_max_slope(font):
    """largest slope of any avar v1 segment (1 without avar)"""
    s = 1.0
    if "avar" in font:
        for seg in font["avar"].segments.values():
            ks = sorted(seg)
            for a, b in zip(ks, ks[1:]):
                if b > a:
                    s = max(s, abs(seg[b] - seg[a]) / (b - a))
    return s


# --------------------------------------------------------------------------- budgets
def _tent_lip(axes):
    """Lipschitz constant of the scalar of a region {tag: (lo, peak, hi)} w.r.t. an equal
    perturbation of every normalised coordinate (sum of the steepest slopes)."""
    t = 0.0
    for lo, pk, hi in axes.values():
        if pk == 0:
            continue
        w = [x for x in (pk - lo, hi - pk) if x > 0]
        t += 1.0 / min(w) if w else 0.0
    return t


def region_axes(store, fvar_axes):
    return [r.get_support(fvar_axes) for r in store.VarRegionList.Region]


class StoreInfo:
    """ItemVariationStore summary: per item rounding budget at a location and Lipschitz bound."""

    def __init__(self, store, fvar_axes):
        self.store = store
        self.regions = region_axes(store, fvar_axes) if store is not None else []
        self.lips = [_tent_lip(r) for r in self.regions]

    def scalars(self, nloc):
        return [supportScalar(nloc, r) for r in self.regions]

    def item_budget(self, varidx, scalars):
        """0.5 * sum of the scalars of the regions that hold a delta column for this item"""
        if self.store is None or varidx == 0xFFFFFFFF:
            return 0.0
        major, minor = varidx >> 16, varidx & 0xFFFF
        if major >= len(self.store.VarData):
            return 0.0
        vd = self.store.VarData[major]
        return 0.5 * sum(scalars[ri] for ri in vd.VarRegionIndex)

    def item_lip(self, varidx):
        if self.store is None or varidx == 0xFFFFFFFF:
            return 0.0
        major, minor = varidx >> 16, varidx & 0xFFFF
        if major >= len(self.store.VarData):
            return 0.0
        vd = self.store.VarData[major]
        if minor >= len(vd.Item):
            return 0.0
        return sum(abs(d) * self.lips[ri] for d, ri in zip(vd.Item[minor], vd.VarRegionIndex))

    def max_budget(self, scalars):
        if self.store is None:
            return 0.0
        return max([0.0] + [0.5 * sum(scalars[ri] for ri in vd.VarRegionIndex) for vd in self.store.VarData])

    def max_lip(self):
        if self.store is None:
            return 0.0
        m = 0.0
        for vd in self.store.VarData:
            for item in vd.Item:
                m = max(m, sum(abs(d) * self.lips[ri] for d, ri in zip(item, vd.VarRegionIndex)))
        return m


# --------------------------------------------------------------------------- the observer
class Observer:
    """One saved font (bytes) seen through fontTools and HarfBuzz."""

    def __init__(self, data, shape_alphabet=None):
        self.data = data
        self.font = TTFont(io.BytesIO(data))
        self.hb = hbridge.HBFont(data)
        f = self.font
        self.order = f.getGlyphOrder()
        self.variable = "fvar" in f
        self.axes = [(a.axisTag, a.minValue, a.defaultValue, a.maxValue) for a in f["fvar"].axes] if self.variable else []
        self.fvar_axes = f["fvar"].axes if self.variable else []
        self.is_glyf = "glyf" in f
        self.is_cff2 = "CFF2" in f
        self.gvar = f["gvar"] if "gvar" in f else None
        self.hvar = f["HVAR"].table if "HVAR" in f and self.variable else None
        self.vvar = f["VVAR"].table if "VVAR" in f and self.variable else None
        self.mvar = f["MVAR"].table if "MVAR" in f and self.variable else None
        self.hvar_info = StoreInfo(self.hvar.VarStore, self.fvar_axes) if self.hvar is not None else None
        self.vvar_info = StoreInfo(self.vvar.VarStore, self.fvar_axes) if self.vvar is not None else None
        self.mvar_info = StoreInfo(self.mvar.VarStore, self.fvar_axes) if self.mvar is not None else None
        gdef = f["GDEF"].table if "GDEF" in f else None
        vs = getattr(gdef, "VarStore", None) if gdef is not None and gdef.Version >= 0x00010003 else None
        self.gdef_info = StoreInfo(vs, self.fvar_axes) if vs is not None and self.variable else None
        cff2vs = None
        if self.is_cff2:
            top = f["CFF2"].cff.topDictIndex[0]
            cff2vs = getattr(top, "VarStore", None)
            cff2vs = cff2vs.otVarStore if cff2vs is not None else None
        self.cff2_info = StoreInfo(cff2vs, self.fvar_axes) if cff2vs is not None and self.variable else None
        self.cubic_glyf = False
        if self.is_glyf:
            glyf = f["glyf"]
            for gn in self.order:
                g = glyf[gn]
                if g.numberOfContours > 0 and any(fl & 0x80 for fl in g.flags):
                    self.cubic_glyf = True
        self.n_gpos_lookups = len(f["GPOS"].table.LookupList.Lookup) if "GPOS" in f and f["GPOS"].table.LookupList else 0
        self.has_layout = "GSUB" in f or "GPOS" in f
        cmap = f.getBestCmap() or {}
        if shape_alphabet is None:
            shape_alphabet = sorted(cmap)[:8]
        self.alphabet = [c for c in shape_alphabet if c in cmap]
        self._gvar_lip = {}

    # ---- raw gvar evaluation in floats (points + 4 phantoms), no rounding anywhere
    def raw_points(self, gn, nloc):
        f = self.font
        glyf = f["glyf"]
        hm = f["hmtx"].metrics
        vm = f["vmtx"].metrics if "vmtx" in f else None
        coords, ctrl = glyf._getCoordinatesAndControls(gn, hm, vm)
        coords = GlyphCoordinates([(float(x), float(y)) for x, y in coords])
        if self.gvar is not None and nloc:
            orig = None
            for var in self.gvar.variations.get(gn, []):
                s = supportScalar(nloc, var.axes)
                if not s:
                    continue
                delta = var.coordinates
                if None in delta:
                    if orig is None:
                        orig, control = glyf._getCoordinatesAndControls(gn, hm, vm)
                        endpts = control[1] if control[0] >= 1 else list(range(len(control[1])))
                    delta = iup_delta(delta, orig, endpts)
                coords += GlyphCoordinates(delta) * s
        return [(x, y) for x, y in coords]

    def gvar_own_budget(self, gn, nloc, optimize):
        """rounding budget of the glyph's own points at nloc: 0.5 for the rounded default
        coordinates + per stored tuple scalar * (0.5 rounding + 0.5 IUP tolerance if optimised)"""
        b = 0.5
        if self.gvar is not None and nloc:
            per = 0.5 + (0.5 if optimize else 0.0)
            for var in self.gvar.variations.get(gn, []):
                b += per * supportScalar(nloc, var.axes)
        return b

    def gvar_lip(self, gn):
        """Lipschitz bound of any coordinate of the glyph w.r.t. the normalised location"""
        if gn not in self._gvar_lip:
            t = 0.0
            if self.gvar is not None:
                for var in self.gvar.variations.get(gn, []):
                    m = 0.0
                    for d in var.coordinates:
                        if d is not None:
                            m = max(m, abs(d[0]), abs(d[1]))
                    t += m * _tent_lip(var.axes)
            self._gvar_lip[gn] = t
        return self._gvar_lip[gn]

    def components(self, gn):
        """[(component glyph, scale)] for glyf composites"""
        if not self.is_glyf:
            return []
        g = self.font["glyf"][gn]
        if not g.isComposite():
            return []
        out = []
        for c in g.components:
            s = 1.0
            if hasattr(c, "transform"):
                (xx, xy), (yx, yy) = c.transform
                s = max(abs(xx) + abs(yx), abs(xy) + abs(yy), 1.0)
            out.append((c.glyphName, s))
        return out

    def draw_budget(self, gn, nloc, optimize, depth=0):
        """(budget, lipschitz) of a drawn outline coordinate, composites resolved recursively"""
        b, l = self.gvar_own_budget(gn, nloc, optimize), self.gvar_lip(gn)
        comps = self.components(gn) if depth < 8 else []
        if comps:
            sub = [self.draw_budget(c, nloc, optimize, depth + 1) for c, _s in comps]
            b += max(s * sb for (_c, s), (sb, _sl) in zip(comps, sub))
            l += max(s * sl for (_c, s), (_sb, sl) in zip(comps, sub))
        return b, l

    # ---- observation of everything at one user location
    def observe(self, uloc, want_hb_outlines=True, glyphs=None):
        f = self.font
        nloc = norm_location(f, uloc)
        obs = {"nloc": nloc}
        loc_for_gs = {t: v for t, v in nloc.items()}
        gs = f.getGlyphSet(location=loc_for_gs, normalized=True) if self.variable else f.getGlyphSet()
        if self.variable:
            self.hb.set_location({t: float(v) for t, v in uloc.items() if any(t == a[0] for a in self.axes)})
        names = self.order if glyphs is None else glyphs
        G = {}
        for gn in names:
            gid = f.getGlyphID(gn)
            rec = {}
            if self.is_glyf:
                rec["raw"] = self.raw_points(gn, nloc)
            pen = geom.SegPen(gs)
            g = gs[gn]
            g.draw(pen)
            pen._flush(False)
            rec["ft"] = geom.canon_contours(pen.contours)
            rec["ftw"] = g.width
            if want_hb_outlines:
                rec["hb"] = self.hb.outline(gid)
            rec["hbw"] = self.hb.h_advance(gid)
            if "vmtx" in f:
                rec["hbv"] = self.hb.v_advance(gid)
            G[gn] = rec
        obs["glyphs"] = G
        # font-wide metrics: MVAR tags, spec meaning: table field + delta
        M = {}
        inst = VarStoreInstancer(self.mvar.VarStore, self.fvar_axes, nloc) if self.mvar is not None else None
        obs["mvar_tags"] = {}
        if self.mvar is not None:
            for r in self.mvar.ValueRecord:
                obs["mvar_tags"][r.ValueTag] = r.VarIdx
        for tag, (table, field) in sorted(MVAR_ENTRIES.items()):
            if table not in f or not hasattr(f[table], field):
                continue
            v = float(getattr(f[table], field))
            if inst is not None and tag in obs["mvar_tags"]:
                v += inst[obs["mvar_tags"][tag]]
            M[tag] = v
        obs["metrics"] = M
        # HarfBuzz metrics (rounded by HarfBuzz)
        H = {}
        for tag in HB_METRIC_TAGS:
            try:
                H[tag] = self.hb.font.get_metric_position(_hb_tag(tag))
            except Exception:
                H[tag] = None
        obs["hbmetrics"] = H
        try:
            fe = self.hb.font.get_font_extents("ltr")
            obs["hbextents"] = (fe.ascender, fe.descender, fe.line_gap)
        except Exception:
            obs["hbextents"] = None
        # shaping: every single character and ordered pair of the alphabet
        S = {}
        if self.has_layout and self.alphabet:
            for n in (1, 2):
                for s in itertools.product(self.alphabet, repeat=n):
                    text = "".join(chr(c) for c in s)
                    res = self.hb.shape(text=text, features=FEATURES)
                    S[text] = [(self.order[g] if g < len(self.order) else g, cl, xa, ya, xo, yo) for g, cl, xa, ya, xo, yo in res]
        obs["shape"] = S
        return obs


HB_METRIC_TAGS = ("hasc", "hdsc", "hlgp", "hcla", "hcld", "xhgt", "cpht", "undo", "unds", "stro", "strs", "sbxo", "sbyo", "sbxs", "sbys", "spxo", "spyo", "spxs", "spys", "hcrs", "hcrn", "hcof")


def _hb_tag(tag):
    import uharfbuzz as hb

    for m in hb.OTMetricsTag:
        v = m.value
        if isinstance(v, int):
            s = bytes([(v >> 24) & 255, (v >> 16) & 255, (v >> 8) & 255, v & 255]).decode("latin-1")
        else:
            s = str(v)
        if s == tag:
            return m
    raise KeyError(tag)


def int_tol(b):
    """two values within b of each other, each rounded to an integer, differ by at most this"""
    return math.ceil(b - 1e-9)


# --------------------------------------------------------------------------- comparison
def _max_point_diff(a, b):
    m = 0.0
    for (x0, y0), (x1, y1) in zip(a, b):
        m = max(m, abs(x0 - x1), abs(y0 - y1))
    return m


def contour_diff(ca, cb):
    """(structure-equal, max |dx|, max |dy|) between two canonical contour lists of the same
    point structure (same order: the instancer never reorders points); None if the structure
    differs"""
    if len(ca) != len(cb):
        return None
    mx = my = 0.0
    for (cla, sa), (clb, sb) in zip(ca, cb):
        if cla != clb or len(sa) != len(sb):
            return None
        for x, y in zip(sa, sb):
            if x[0] != y[0] or len(x) != len(y):
                return None
            for p, q in zip(x[1:], y[1:]):
                mx = max(mx, abs(p[0] - q[0]))
                my = max(my, abs(p[1] - q[1]))
    return mx, my


def outline_close(ca, cb, tolx, toly):
    """None if equal within (tolx, toly), else message.  Tries the order-preserving comparison
    first and falls back to the order-insensitive one of oracles.geom (canonical sorting and
    rotation may differ under rounding noise)."""
    d = contour_diff(ca, cb)
    if d is not None and d[0] <= tolx and d[1] <= toly:
        return None
    if tolx == toly or d is None:
        msg = geom.contours_close(ca, cb, max(tolx, toly))
        if msg is None:
            return None
        if d is None:
            return msg
    return "coordinates differ by dx=%.3f dy=%.3f (budget %.3f / %.3f)" % (d[0], d[1], tolx, toly)
