"""C08 helpers: limit-spec lattice, observation of a (variable or static) font at a user
location through fontTools (floats) and HarfBuzz, and the rounding budgets.

Nothing here imports fontTools.varLib.instancer: the observers are the *reading* side of
fontTools (glyf/gvar decoding, supportScalar, iup_delta, VarStoreInstancer, glyphSet) and
HarfBuzz; the budgets are computed from the variation data actually stored in a font.
"""
from mc import env  # noqa: F401

import io
import itertools
import math

from fontTools.ttLib import TTFont
from fontTools.ttLib.tables._g_l_y_f import GlyphCoordinates
from fontTools.varLib.iup import iup_delta
from fontTools.varLib.models import supportScalar, piecewiseLinearMap
from fontTools.varLib.varStore import VarStoreInstancer
from fontTools.varLib.mvar import MVAR_ENTRIES

from . import geom, hbridge

F14 = 1.0 / 16384

FEATURES = {"kern": True, "mark": True, "mkmk": True, "liga": True, "calt": True, "rvrn": True, "rlig": True, "ccmp": True}


# --------------------------------------------------------------------------- lattice
def axis_points(lo, df, hi, quarters=False):
    """Lattice P of one axis in user space: min, mid-, default, mid+, max (+ quarter points)."""
    n = 4 if quarters else 2
    pts = [lo + (df - lo) * i / n for i in range(n)] + [df] + [df + (hi - df) * i / n for i in range(1, n + 1)]
    out = []
    for p in pts:
        if p not in out:
            out.append(p)
    return sorted(out)


def axis_restrictions(lo, df, hi, extra_forms=False):
    """Every restriction of one axis over P: ['drop'] (pin at default through None), ['pin', p]
    for each p, ['range', a, b] (2-tuple API form, a <= default <= b, a < b: default kept),
    ['triple', a, d, b] for every a <= d <= b over P with a < b and d != default (moved
    default) plus the identity triple.  extra_forms adds ['range', a, b] whose range excludes
    the default (documented: the default is clamped to the nearer end)."""
    P = axis_points(lo, df, hi)
    out = [["drop"]]
    for p in P:
        out.append(["pin", p])
    for a, b in itertools.combinations(P, 2):
        if a <= df <= b or extra_forms:
            out.append(["range", a, b])
    out.append(["triple", lo, df, hi])
    for a, b in itertools.combinations(P, 2):
        for d in P:
            if a <= d <= b and d != df:
                out.append(["triple", a, d, b])
    return out


def simple_restrictions(lo, df, hi):
    return [r for r in axis_restrictions(lo, df, hi) if r[0] != "triple"]


def reduced_restrictions(lo, df, hi):
    """a small representative set: pins at the ends / a mid point / default, one-sided and
    two-sided ranges, one moved default on each side"""
    P = axis_points(lo, df, hi)
    i = P.index(df)
    out = [["drop"], ["pin", P[0]], ["pin", P[-1]]]
    mids = [p for p in P if p not in (lo, df, hi)]
    if mids:
        out.append(["pin", mids[-1]])
    if lo < df:
        out.append(["range", lo, df])
    if df < hi:
        out.append(["range", df, hi])
    if i > 0 and i < len(P) - 1:
        out.append(["range", P[i - 1], P[i + 1]])
    if i > 0:
        out.append(["triple", lo, P[i - 1], hi])
    if i < len(P) - 1:
        out.append(["triple", df, P[i + 1], hi])
    res = []
    for r in out:
        if r not in res:
            res.append(r)
    return res


def restriction_value(r):
    """API value passed to instantiateVariableFont for one axis."""
    k = r[0]
    if k == "drop":
        return None
    if k == "pin":
        return r[1]
    if k == "range":
        return (r[1], r[2])
    return (r[1], r[2], r[3])


def restriction_triple(r, lo, df, hi):
    """(min, default, max) in user space the instance must have for this axis (pinned: all equal)."""
    k = r[0]
    if k == "drop":
        return (df, df, df)
    if k == "pin":
        return (r[1], r[1], r[1])
    if k == "range":
        return (r[1], min(max(df, r[1]), r[2]), r[2])
    return (r[1], r[2], r[3])


def locations(axes, new_triples, quarters=False, dev_axes=()):
    """Lattice points of P^axes (user space) inside the new limits.  axes: [(tag, lo, df, hi)]
    of the ORIGINAL font; new_triples: {tag: (a, d, b)} for restricted axes.  Up to 3 axes:
    the full product.  Beyond: restricted axes take every lattice value (product); untouched
    axes stay at default, or all go to min / to max, or one of `dev_axes` goes to min or max."""
    per = {}
    for tag, lo, df, hi in axes:
        P = axis_points(lo, df, hi, quarters)
        if tag in new_triples:
            a, d, b = new_triples[tag]
            pts = [p for p in P if a <= p <= b]
            for v in (a, d, b):  # always the new corner points themselves
                if v not in pts:
                    pts.append(v)
            P = sorted(pts)
        per[tag] = P
    tags = [a[0] for a in axes]
    if len(axes) <= 3:
        for combo in itertools.product(*[per[t] for t in tags]):
            yield dict(zip(tags, combo))
        return
    free = [a for a in axes if a[0] not in new_triples]
    variants = [{a[0]: a[2] for a in free}, {a[0]: a[1] for a in free}, {a[0]: a[3] for a in free}]
    for t in dev_axes:
        for a in free:
            if a[0] == t:
                for v in (a[1], a[3]):
                    if v != a[2]:
                        d = {b[0]: b[2] for b in free}
                        d[t] = v
                        variants.append(d)
    seen = set()
    rtags = [t for t in tags if t in new_triples]
    for combo in itertools.product(*[per[t] for t in rtags]):
        for var in variants:
            u = dict(var)
            u.update(zip(rtags, combo))
            k = tuple(u[t] for t in tags)
            if k not in seen:
                seen.add(k)
                yield {t: u[t] for t in tags}


# --------------------------------------------------------------------------- normalisation
def norm_location(font, uloc):
    """normalised (post-avar) location of a user location, fontTools floats; {} for static"""
    if "fvar" not in font:
        return {}
    full = {a.axisTag: uloc.get(a.axisTag, a.defaultValue) for a in font["fvar"].axes}
    n = font.normalizeLocation(full)
    return {a.axisTag: n.get(a.axisTag, 0.0) for a in font["fvar"].axes}


def avar_max_slope(font):
    """largest slope of any avar v1 segment (1 without avar)"""
    s = 1.0
    if "avar" in font:
        for seg in font["avar"].segments.values():
            ks = sorted(seg)
            for a, b in zip(ks, ks[1:]):
                if b > a:
                    s = max(s, abs(seg[b] - seg[a]) / (b - a))
    return s


# --------------------------------------------------------------------------- budgets
def _tent_lip(axes):
    """Lipschitz constant of the scalar of a region {tag: (lo, peak, hi)} w.r.t. an equal
    perturbation of every normalised coordinate (sum of the steepest slopes)."""
    t = 0.0
    for lo, pk, hi in axes.values():
        if pk == 0:
            continue
        w = [x for x in (pk - lo, hi - pk) if x > 0]
        t += 1.0 / min(w) if w else 0.0
    return t


def region_axes(store, fvar_axes):
    return [r.get_support(fvar_axes) for r in store.VarRegionList.Region]


class LimitCtx:
    """What a limit specification does to the tents of the ORIGINAL font.

    The instancer documents (solver.rebaseTent) that one tent on one restricted axis becomes
    an always-on 'gain' share (non-zero iff the tent is non-zero at the new default) plus, on
    each side of the new default, at most two overlapping tents whose scalars sum to <= 1.
    Every resulting delta set is rounded once (0.5 x its scalar); the share that has no axis
    left is added to the default value, which is rounded once (the leading 0.5 of a budget).
    Delta sets that round to zero disappear from the instance, so the count has to come from
    the original.  weight(region) bounds sum(scalars at x of the delta sets made from it)."""

    def __init__(self, font, axes, new_triples):
        self.status = {}
        self.newdef = {}
        lo_u, d_u, hi_u = {}, {}, {}
        for tag, lo, df, hi in axes:
            if tag in new_triples:
                a, d, b = new_triples[tag]
                self.status[tag] = "pinned" if a == b else "restricted"
                lo_u[tag], d_u[tag], hi_u[tag] = a, d, b
                self.newdef[tag] = d
            else:
                self.status[tag] = "free"
                lo_u[tag], d_u[tag], hi_u[tag] = lo, df, hi
        self.n_lo = norm_location(font, lo_u)
        self.n_d = norm_location(font, d_u)
        self.n_hi = norm_location(font, hi_u)
        self.nx = None
        self.u = None
        self._memo = {}

    def at(self, u, nx):
        self.u, self.nx = u, nx
        self._memo = {}
        return self

    def weight(self, axes):
        key = tuple(sorted(axes.items()))
        w = self._memo.get(key)
        if w is None:
            w = self._memo[key] = self._weight(axes)
        return w

    def _weight(self, axes):
        s_free, prod, allgain = 1.0, 1.0, 1.0
        has_free = touched = False
        for tag, (lo, pk, hi) in axes.items():
            if pk == 0:
                continue
            st = self.status.get(tag, "free")
            tent = {tag: (lo, pk, hi)}
            if st == "free":
                has_free = True
                s_free *= supportScalar({tag: self.nx.get(tag, 0.0)}, tent)
                if not s_free:
                    return 0.0
                continue
            touched = True
            g = 1.0 if supportScalar({tag: self.n_d[tag]}, tent) else 0.0
            if st == "pinned":
                if not g:
                    return 0.0
                continue
            a, b = sorted((self.n_lo[tag], self.n_hi[tag]))
            overlaps = max(lo, a) <= min(hi, b) + 1e-4
            t = 1.0 if (overlaps and self.u[tag] != self.newdef[tag]) else 0.0
            prod *= t + g
            allgain *= g
        if not touched:
            return 0.0  # integer deltas kept as they are
        return s_free * max(prod - (0.0 if has_free else allgain), 0.0)


class StoreInfo:
    """ItemVariationStore summary: regions, Lipschitz bounds, per-item rounding weights."""

    def __init__(self, store, fvar_axes):
        self.store = store
        self.regions = region_axes(store, fvar_axes) if store is not None else []
        self.lips = [_tent_lip(r) for r in self.regions]

    def scalars(self, nloc):
        return [supportScalar(nloc, r) for r in self.regions]

    def _item(self, varidx):
        if self.store is None or varidx == 0xFFFFFFFF:
            return None, None
        major, minor = varidx >> 16, varidx & 0xFFFF
        if major >= len(self.store.VarData):
            return None, None
        vd = self.store.VarData[major]
        if minor >= len(vd.Item):
            return None, None
        return vd, vd.Item[minor]

    def item_weight(self, varidx, ctx):
        """sum of ctx.weight over the regions that hold a non-zero delta for the item"""
        vd, item = self._item(varidx)
        if vd is None:
            return 0.0
        return sum(ctx.weight(self.regions[ri]) for d, ri in zip(item, vd.VarRegionIndex) if d)

    def item_lip(self, varidx):
        vd, item = self._item(varidx)
        if vd is None:
            return 0.0
        return sum(abs(d) * self.lips[ri] for d, ri in zip(item, vd.VarRegionIndex))

    def max_weight(self, ctx, all_regions=False):
        """largest item weight of the store (all_regions: the deltas live elsewhere, as in
        CFF2 charstrings: every region of a VarData counts)"""
        if self.store is None:
            return 0.0
        m = 0.0
        for vd in self.store.VarData:
            if all_regions:
                m = max(m, sum(ctx.weight(self.regions[ri]) for ri in vd.VarRegionIndex))
            else:
                for item in vd.Item:
                    m = max(m, sum(ctx.weight(self.regions[ri]) for d, ri in zip(item, vd.VarRegionIndex) if d))
        return m

    def max_lip(self):
        if self.store is None:
            return 0.0
        m = 0.0
        for vd in self.store.VarData:
            for item in vd.Item:
                m = max(m, sum(abs(d) * self.lips[ri] for d, ri in zip(item, vd.VarRegionIndex)))
        return m


# --------------------------------------------------------------------------- the observer
class Observer:
    """One saved font (bytes) seen through fontTools and HarfBuzz."""

    def __init__(self, data, shape_alphabet=None):
        self.data = data
        self.font = TTFont(io.BytesIO(data))
        self.hb = hbridge.HBFont(data)
        f = self.font
        self.order = f.getGlyphOrder()
        self.variable = "fvar" in f
        self.axes = [(a.axisTag, a.minValue, a.defaultValue, a.maxValue) for a in f["fvar"].axes] if self.variable else []
        self.fvar_axes = f["fvar"].axes if self.variable else []
        self.is_glyf = "glyf" in f
        self.is_cff2 = "CFF2" in f
        self.gvar = f["gvar"] if "gvar" in f else None
        self.hvar = f["HVAR"].table if "HVAR" in f and self.variable else None
        self.vvar = f["VVAR"].table if "VVAR" in f and self.variable else None
        self.mvar = f["MVAR"].table if "MVAR" in f and self.variable else None
        self.hvar_info = StoreInfo(self.hvar.VarStore, self.fvar_axes) if self.hvar is not None else None
        self.vvar_info = StoreInfo(self.vvar.VarStore, self.fvar_axes) if self.vvar is not None else None
        self.mvar_info = StoreInfo(self.mvar.VarStore, self.fvar_axes) if self.mvar is not None else None
        gdef = f["GDEF"].table if "GDEF" in f else None
        vs = getattr(gdef, "VarStore", None) if gdef is not None and gdef.Version >= 0x00010003 else None
        self.gdef_info = StoreInfo(vs, self.fvar_axes) if vs is not None and self.variable else None
        cff2vs = None
        if self.is_cff2:
            top = f["CFF2"].cff.topDictIndex[0]
            cff2vs = getattr(top, "VarStore", None)
            cff2vs = cff2vs.otVarStore if cff2vs is not None else None
        self.cff2_info = StoreInfo(cff2vs, self.fvar_axes) if cff2vs is not None and self.variable else None
        self.cubic_glyf = False
        if self.is_glyf:
            glyf = f["glyf"]
            for gn in self.order:
                g = glyf[gn]
                if g.numberOfContours > 0 and any(fl & 0x80 for fl in g.flags):
                    self.cubic_glyf = True
        self.n_gpos_lookups = len(f["GPOS"].table.LookupList.Lookup) if "GPOS" in f and f["GPOS"].table.LookupList else 0
        self.has_layout = "GSUB" in f or "GPOS" in f
        cmap = f.getBestCmap() or {}
        if shape_alphabet is None:
            shape_alphabet = sorted(cmap)[:8]
        self.alphabet = [c for c in shape_alphabet if c in cmap]
        self._gvar_lip = {}
        self._cff2_lip = None
        mtags = [r.ValueTag for r in self.mvar.ValueRecord] if self.mvar is not None else []
        self.mvar_sorted = mtags == sorted(mtags)
        self.slope = avar_max_slope(f)
        self.avar2 = "avar" in f and getattr(f["avar"], "majorVersion", 1) >= 2
        self.fv_bounds = fv_boundaries(f)
        os2, hhea = f.get("OS/2"), f.get("hhea")
        self.typo_synced = False
        if os2 is not None and hhea is not None:
            use_typo = bool(getattr(os2, "fsSelection", 0) & 0x80)
            synced = [getattr(os2, a, None) for a in ("sTypoAscender", "sTypoDescender", "sTypoLineGap")] == [hhea.ascender, hhea.descender, hhea.lineGap]
            self.typo_synced = use_typo or synced

    def cff2_lip(self, gn):
        if self.cff2_info is None:
            return 0.0
        if self._cff2_lip is None:
            self._cff2_lip = cff2_operand_lip(self.font, self.cff2_info)
        return self._cff2_lip.get(gn, 0.0)

    # ---- raw gvar evaluation in floats (points + 4 phantoms), no rounding anywhere
    def raw_points(self, gn, nloc):
        f = self.font
        glyf = f["glyf"]
        hm = f["hmtx"].metrics
        vm = f["vmtx"].metrics if "vmtx" in f else None
        coords, ctrl = glyf._getCoordinatesAndControls(gn, hm, vm)
        coords = GlyphCoordinates([(float(x), float(y)) for x, y in coords])
        if self.gvar is not None and nloc:
            orig = None
            for var in self.gvar.variations.get(gn, []):
                s = supportScalar(nloc, var.axes)
                if not s:
                    continue
                delta = var.coordinates
                if None in delta:
                    if orig is None:
                        orig, control = glyf._getCoordinatesAndControls(gn, hm, vm)
                        endpts = control[1] if control[0] >= 1 else list(range(len(control[1])))
                    delta = iup_delta(delta, orig, endpts)
                coords += GlyphCoordinates(delta) * s
        return [(x, y) for x, y in coords]

    def gvar_round_weight(self, gn, ctx):
        """ORIGINAL side: bound on sum(scalars) of the rounded delta sets made from this glyph's
        tuples under the limits of ctx, at ctx's location"""
        if self.gvar is None:
            return 0.0
        return sum(ctx.weight(var.axes) for var in self.gvar.variations.get(gn, []))

    def gvar_iup_weight(self, gn, nloc):
        """INSTANCE side: sum(scalars) of the stored tuples (each is IUP-optimised with
        tolerance 0.5 when optimize=True)"""
        if self.gvar is None or not nloc:
            return 0.0
        return sum(supportScalar(nloc, var.axes) for var in self.gvar.variations.get(gn, []))

    def gvar_lip(self, gn):
        """Lipschitz bound of any coordinate of the glyph w.r.t. the normalised location"""
        if gn not in self._gvar_lip:
            t = 0.0
            if self.gvar is not None:
                for var in self.gvar.variations.get(gn, []):
                    m = 0.0
                    for d in var.coordinates:
                        if d is not None:
                            m = max(m, abs(d[0]), abs(d[1]))
                    t += m * _tent_lip(var.axes)
            self._gvar_lip[gn] = t
        return self._gvar_lip[gn]

    def components(self, gn):
        """[(component glyph, scale)] for glyf composites"""
        if not self.is_glyf:
            return []
        g = self.font["glyf"][gn]
        if not g.isComposite():
            return []
        out = []
        for c in g.components:
            s = 1.0
            if hasattr(c, "transform"):
                (xx, xy), (yx, yy) = c.transform
                s = max(abs(xx) + abs(yx), abs(xy) + abs(yy), 1.0)
            out.append((c.glyphName, s))
        return out

    def draw_lip(self, gn, depth=0):
        """Lipschitz bound of a drawn outline coordinate, composites resolved recursively"""
        l = self.gvar_lip(gn)
        comps = self.components(gn) if depth < 8 else []
        if comps:
            l += max(s * self.draw_lip(c, depth + 1) for c, s in comps)
        return l

    # ---- observation of everything at one user location
    def observe(self, uloc, want_hb_outlines=True, glyphs=None):
        f = self.font
        nloc = norm_location(f, uloc)
        obs = {"nloc": nloc}
        loc_for_gs = {t: v for t, v in nloc.items()}
        gs = f.getGlyphSet(location=loc_for_gs, normalized=True) if self.variable else f.getGlyphSet()
        if self.variable:
            self.hb.set_location({t: float(v) for t, v in uloc.items() if any(t == a[0] for a in self.axes)})
        names = self.order if glyphs is None else glyphs
        G = {}
        for gn in names:
            gid = f.getGlyphID(gn)
            rec = {}
            if self.is_glyf:
                rec["raw"] = self.raw_points(gn, nloc)
            pen = geom.SegPen(gs)
            g = gs[gn]
            g.draw(pen)
            pen._flush(False)
            rec["ftraw"] = contour_points(pen.contours)
            rec["ftw"] = g.width
            if want_hb_outlines:
                rec["hbraw"] = contour_points(self.hb.raw_outline(gid))
            rec["hbw"] = self.hb.h_advance(gid)
            if "vmtx" in f:
                rec["hbv"] = self.hb.v_advance(gid)
            G[gn] = rec
        obs["glyphs"] = G
        # font-wide metrics: MVAR tags, spec meaning: table field + delta
        M = {}
        inst = VarStoreInstancer(self.mvar.VarStore, self.fvar_axes, nloc) if self.mvar is not None else None
        obs["mvar_tags"] = {}
        if self.mvar is not None:
            for r in self.mvar.ValueRecord:
                obs["mvar_tags"][r.ValueTag] = r.VarIdx
        for tag, (table, field) in sorted(MVAR_ENTRIES.items()):
            if table not in f or not hasattr(f[table], field):
                continue
            v = float(getattr(f[table], field))
            if inst is not None and tag in obs["mvar_tags"]:
                v += inst[obs["mvar_tags"][tag]]
            M[tag] = v
        obs["metrics"] = M
        # HarfBuzz metrics (rounded by HarfBuzz)
        H = {}
        for tag in HB_METRIC_TAGS:
            try:
                H[tag] = self.hb.font.get_metric_position(_hb_tag(tag))
            except Exception:
                H[tag] = None
        obs["hbmetrics"] = H
        try:
            fe = self.hb.font.get_font_extents("ltr")
            obs["hbextents"] = (fe.ascender, fe.descender, fe.line_gap)
        except Exception:
            obs["hbextents"] = None
        # shaping: every single character and ordered pair of the alphabet
        S = {}
        if self.has_layout and self.alphabet:
            for n in (1, 2):
                for s in itertools.product(self.alphabet, repeat=n):
                    text = "".join(chr(c) for c in s)
                    res = self.hb.shape(text=text, features=FEATURES)
                    S[text] = [(self.order[g] if g < len(self.order) else g, cl, xa, ya, xo, yo) for g, cl, xa, ya, xo, yo in res]
        obs["shape"] = S
        return obs


HB_METRIC_TAGS = ("hasc", "hdsc", "hlgp", "hcla", "hcld", "xhgt", "cpht", "undo", "unds", "stro", "strs", "sbxo", "sbyo", "sbxs", "sbys", "spxo", "spyo", "spxs", "spys", "hcrs", "hcrn", "hcof")


def _hb_tag(tag):
    import uharfbuzz as hb

    for m in hb.OTMetricsTag:
        v = m.value
        if isinstance(v, int):
            s = bytes([(v >> 24) & 255, (v >> 16) & 255, (v >> 8) & 255, v & 255]).decode("latin-1")
        else:
            s = str(v)
        if s == tag:
            return m
    raise KeyError(tag)


def int_tol(b):
    """two values within b of each other, each rounded to an integer, differ by at most this"""
    return math.ceil(b - 1e-9)


# --------------------------------------------------------------------------- comparison
def _max_point_diff(a, b):
    m = 0.0
    for (x0, y0), (x1, y1) in zip(a, b):
        m = max(m, abs(x0 - x1), abs(y0 - y1))
    return m


def contour_diff(ca, cb):
    """(structure-equal, max |dx|, max |dy|) between two canonical contour lists of the same
    point structure (same order: the instancer never reorders points); None if the structure
    differs"""
    if len(ca) != len(cb):
        return None
    mx = my = 0.0
    for (cla, sa), (clb, sb) in zip(ca, cb):
        if cla != clb or len(sa) != len(sb):
            return None
        for x, y in zip(sa, sb):
            if x[0] != y[0] or len(x) != len(y):
                return None
            for p, q in zip(x[1:], y[1:]):
                mx = max(mx, abs(p[0] - q[0]))
                my = max(my, abs(p[1] - q[1]))
    return mx, my


def _contour_close_xy(ca, cb, tolx, toly):
    if ca[0] != cb[0] or len(ca[1]) != len(cb[1]):
        return False
    sa, sb = ca[1], cb[1]
    n = len(sa)
    for r in (range(n) if ca[0] else (0,)):
        ok = True
        for i in range(n):
            x, y = sa[i], sb[(i + r) % n]
            if x[0] != y[0] or len(x) != len(y):
                ok = False
                break
            for p, q in zip(x[1:], y[1:]):
                if abs(p[0] - q[0]) > tolx or abs(p[1] - q[1]) > toly:
                    ok = False
                    break
            if not ok:
                break
        if ok:
            return True
    return False


def outline_close(ca, cb, tolx, toly):
    """None if equal within (tolx, toly), else message.  Order-preserving comparison first
    (the instancer never reorders points), then an order/rotation-insensitive matching
    (canonical sorting and rotation can differ under rounding noise)."""
    d = contour_diff(ca, cb)
    if d is not None and d[0] <= tolx and d[1] <= toly:
        return None
    if len(ca) != len(cb):
        return "contour count %d vs %d" % (len(ca), len(cb))
    used = [False] * len(cb)
    for a in ca:
        for j, b in enumerate(cb):
            if not used[j] and _contour_close_xy(a, b, tolx, toly):
                used[j] = True
                break
        else:
            if d is not None:
                return "coordinates differ by dx=%.3f dy=%.3f (budget %.3f / %.3f)" % (d[0], d[1], tolx, toly)
            return "no match within (%.3f, %.3f) for contour %s" % (tolx, toly, repr(geom._round_contour(a))[:240])
    return None


# --------------------------------------------------------------------------- CFF2
def contour_points(raw):
    """raw pen contours [(closed, start, segs)] -> [[(x, y), ...]] the points written per
    contour in drawing order (a synthesised closing line ends exactly on the start and is
    recognised as a closer by point_streams)"""
    return [[(float(start[0]), float(start[1]))] + [(float(p[0]), float(p[1])) for g in segs for p in g[2:]] for _c, start, segs in raw]


def _strip_closers(c, eps=1e-3):
    n = len(c)
    while n > 1 and abs(c[n - 1][0] - c[0][0]) < eps and abs(c[n - 1][1] - c[0][1]) < eps:
        n -= 1
    return n


def point_streams(ca, cb, eps):
    """Two recordings of the same charstring structure -> two aligned lists [(x, y, span,
    index)] or None.  Per contour, trailing points that return to the contour's start are not
    compared (explicit closing operand, HarfBuzz's synthesised closing line, float noise of a
    blend sum); when rounding made the moves of one font's contour no longer sum to zero, its
    last point misses the start by up to the accumulated budget `eps` and is matched with the
    other font's exact return.  span = raw moves since the previous kept point, index = raw
    moves written so far."""
    if len(ca) != len(cb):
        return None
    outa, outb = [], []
    ia = ib = sa = sb = 0
    for x, y in zip(ca, cb):
        nx, ny = _strip_closers(x), _strip_closers(y)
        if nx == ny + 1 and abs(x[nx - 1][0] - x[0][0]) < eps and abs(x[nx - 1][1] - x[0][1]) < eps:
            nx -= 1
        elif ny == nx + 1 and abs(y[ny - 1][0] - y[0][0]) < eps and abs(y[ny - 1][1] - y[0][1]) < eps:
            ny -= 1
        if nx != ny:
            return None
        for i in range(max(len(x), len(y))):
            if i < len(x):
                ia += 1
                sa += 1
            if i < len(y):
                ib += 1
                sb += 1
            if i < nx:
                outa.append((x[i][0], x[i][1], sa, ia))
                outb.append((y[i][0], y[i][1], sb, ib))
                sa = sb = 0
    return outa, outb


def cff_stream_diff(ca, cb, eps=1e-3):
    """(max error of a relative move / moves it spans, max absolute error / moves written so
    far), or None when the two streams do not have the same structure"""
    r = point_streams(ca, cb, eps)
    if r is None:
        return None
    rel = acc = 0.0
    prev_a = prev_b = (0.0, 0.0)
    for p, q in zip(*r):
        span, idx = max(p[2], q[2]), max(p[3], q[3])
        for k in (0, 1):
            rel = max(rel, abs((p[k] - prev_a[k]) - (q[k] - prev_b[k])) / span)
            acc = max(acc, abs(p[k] - q[k]) / idx)
        prev_a, prev_b = p, q
    return rel, acc


def stream_abs_diff(ca, cb, eps):
    """(max |dx|, max |dy|) between the aligned point streams of two recordings of the same
    glyph structure, or None when the structures differ"""
    r = point_streams(ca, cb, eps)
    if r is None:
        return None
    dx = dy = 0.0
    for p, q in zip(*r):
        dx = max(dx, abs(p[0] - q[0]))
        dy = max(dy, abs(p[1] - q[1]))
    return dx, dy


def cff2_operand_lip(font, info):
    """{glyph: Lipschitz bound of one charstring operand w.r.t. the normalised location}: max
    over blended operands of sum |delta_j| * lip(region_j)"""
    from fontTools.cffLib.specializer import programToCommands

    top = font["CFF2"].cff.topDictIndex[0]
    cs_index = top.CharStrings
    store = info.store

    def nreg(vsindex):
        return store.VarData[vsindex if vsindex is not None else 0].VarRegionCount

    out = {}
    for gn in font.getGlyphOrder():
        cs = cs_index[gn]
        cs.decompile()
        vsindex = getattr(cs.private, "vsindex", 0) or 0
        m = 0.0
        try:
            commands = programToCommands(cs.program, getNumRegions=nreg)
        except Exception:
            out[gn] = 0.0
            continue
        for op, args in commands:
            if op == "vsindex":
                vsindex = args[0]
                continue
            for arg in args:
                if isinstance(arg, list):
                    count = arg[-1]
                    n = nreg(vsindex)
                    regs = store.VarData[vsindex].VarRegionIndex
                    for k in range(count):
                        deltas = arg[count + k * n: count + (k + 1) * n]
                        m = max(m, sum(abs(d) * info.lips[ri] for d, ri in zip(deltas, regs)))
        out[gn] = m
    return out


def fv_boundaries(font):
    """{axisTag: sorted normalised condition boundaries} of GSUB/GPOS FeatureVariations"""
    out = {}
    if "fvar" not in font:
        return out
    axes = font["fvar"].axes
    for tag in ("GSUB", "GPOS"):
        if tag not in font:
            continue
        fv = getattr(font[tag].table, "FeatureVariations", None)
        if not fv:
            continue
        for rec in fv.FeatureVariationRecord:
            cs = rec.ConditionSet
            for c in (cs.ConditionTable if cs is not None else []):
                if c.Format == 1:
                    # a range that starts at -1 or ends at +1 reaches the end of the axis: that end is not
                    # a boundary at which either side would be legitimate
                    out.setdefault(axes[c.AxisIndex].axisTag, set()).update(v for v in (c.FilterRangeMinValue, c.FilterRangeMaxValue) if -1.0 < v < 1.0)
    return {k: sorted(v) for k, v in out.items()}


def fv_pinned_shape(font, status, n_d):
    """Input-shape class used to key substitution mismatches: True when some GSUB/GPOS
    FeatureVariations record has conditions only on PINNED axes, all holding at the pin, while
    another record keeps a condition on an axis that remains.  status: {axisTag: 'free' |
    'pinned' | 'restricted'}, n_d: normalised (original space) new default location."""
    if "fvar" not in font:
        return False
    axes = font["fvar"].axes
    for tag in ("GSUB", "GPOS"):
        if tag not in font:
            continue
        fv = getattr(font[tag].table, "FeatureVariations", None)
        if not fv:
            continue
        pinned_only = remaining = False
        for rec in fv.FeatureVariationRecord:
            conds = [c for c in (rec.ConditionSet.ConditionTable if rec.ConditionSet is not None else []) if c.Format == 1]
            if not conds:
                continue
            tags = [axes[c.AxisIndex].axisTag for c in conds]
            holds = all(c.FilterRangeMinValue <= n_d.get(t, 0.0) <= c.FilterRangeMaxValue for c, t in zip(conds, tags) if status.get(t) == "pinned")
            if all(status.get(t) == "pinned" for t in tags):
                pinned_only |= holds
            elif holds:
                remaining = True
        if pinned_only and remaining:
            return True
    return False
