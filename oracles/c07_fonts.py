"""Fonts for C07 (subsetting): generated fonts whose layout makes glyph closure matter, the
corpus selection, and the choice of the request / text alphabets.

Every generated font maps at most 6 characters (so that ALL subsets of its character set are
requested) and has unmapped glyphs that are reachable only through substitutions, components
or colour layers.
"""
from mc import env  # noqa: F401

import io
import itertools

from fontTools.ttLib import TTFont, newTable

from . import corpus, hbridge, tinyfont

LANGSYS = "languagesystem DFLT dflt;\nlanguagesystem latn dflt;\n"

# ---- GSUB: single / multiple / alternate / ligature, closure of depth 2 -------------------------
FEA_GSUB = LANGSYS + """
feature ccmp { sub e by e.alt; sub d by d.one d.two; } ccmp;
feature liga { sub a b c by a_b_c; sub a b by a_b; sub f f by f_f; } liga;
feature calt { sub a_b' c by a_b.alt; } calt;
feature salt { sub a from [a.alt a.sc]; } salt;
feature ss01 { sub a by a.sc; sub f_f by f_f.ss; } ss01;
feature aalt { feature salt; feature ss01; } aalt;
"""
GSUB_GLYPHS = ["a", "b", "c", "d", "e", "f", "e.alt", "d.one", "d.two", "a_b", "a_b_c", "f_f", "a_b.alt", "a.alt", "a.sc", "f_f.ss", "unused"]

# ---- GSUB: contextual, chaining (glyph, class and coverage based), reverse chaining, extension --
FEA_CTX = LANGSYS + """
@UC = [a b];
@LC = [c d];
lookup ALT { sub a by a.alt; sub b by b.alt; } ALT;
lookup LIG useExtension { sub c d by c_d; } LIG;
lookup MULT { sub e by e.one e.two; } MULT;
lookup ALT2 { sub c by c.alt; sub d by d.alt; } ALT2;
feature calt {
  sub a' lookup ALT b;
  sub c c' lookup LIG d';
  sub @UC @LC' lookup ALT2 @UC;
} calt;
feature rclt { sub b e' lookup MULT; rsub [a b]' f by [a.rev b.rev]; } rclt;
feature clig { ignore sub f a' b; sub a' b by a.alt2; } clig;
lookup ALTF { sub f by f.alt; sub e by e.alt2; sub d by d.alt2; } ALTF;
feature dlig { sub e' f' lookup ALTF; sub [c d]' [d f]' lookup ALTF [a b]; } dlig;
"""
CTX_GLYPHS = ["a", "b", "c", "d", "e", "f", "a.alt", "b.alt", "c_d", "e.one", "e.two", "c.alt", "d.alt", "a.rev", "b.rev", "a.alt2", "f.alt", "e.alt2", "d.alt2", "unused"]

# ---- GPOS: single 1/2, pair 1/2 (both value records, class 0 rows), contextual positioning --------
FEA_GPOS = LANGSYS + """
@L = [a b c];
@R = [d e];
lookup SP { pos e <0 0 30 0>; } SP;
lookup KCLS {
  pos [a b] [c d] 16;
  pos [e] [f] -21;
  pos [a b] [f] 8;
  pos [e] [c d] -9;
  pos [c] [a] 4;
} KCLS;
feature kern {
  lookup KCLS;
  pos a b -40;
  pos a <5 0 -20 0> d <7 0 0 0>;
  pos f a 33;
  pos @L @R 15;
  pos [a b] [a b c] <0 0 -11 0>;
  pos f' lookup SP e' lookup SP f;
} kern;
feature cpsp { pos a <10 0 20 0>; pos [b c] <3 0 6 0>; pos d <0 5 0 0>; } cpsp;
feature dist { pos e f' 21 e; } dist;
"""
GPOS_GLYPHS = ["a", "b", "c", "d", "e", "f", "unused"]

# ---- GPOS attachments + GDEF classes, mark filtering sets, ligature carets -----------------------
FEA_ATTACH = LANGSYS + """
markClass m <anchor 100 600> @TOP;
markClass n <anchor 120 -20> @BOT;
markClass o <anchor 90 610> @TOP;
@TOPMARKS = [m o];
table GDEF {
  GlyphClassDef [a b c d], [a_b], [m n o], ;
  LigatureCaretByPos a_b 300;
} GDEF;
feature liga { lookupflag IgnoreMarks; sub a b by a_b; } liga;
feature calt { lookupflag UseMarkFilteringSet @TOPMARKS; sub c' m by c.alt; } calt;
feature mark {
  pos base a <anchor 250 700> mark @TOP <anchor 240 0> mark @BOT;
  pos base b <anchor 260 710> mark @TOP;
  pos base c.alt <anchor 255 705> mark @TOP;
  pos ligature a_b <anchor 200 700> mark @TOP <anchor 210 -10> mark @BOT ligComponent <anchor 600 700> mark @TOP;
} mark;
feature mkmk { lookupflag MarkAttachmentType @TOPMARKS; pos mark m <anchor 100 900> mark @TOP; pos mark o <anchor 95 905> mark @TOP; } mkmk;
feature curs { pos cursive c <anchor 0 10> <anchor 400 60>; pos cursive d <anchor 10 20> <anchor NULL>; pos cursive a <anchor NULL> <anchor 380 40>; } curs;
feature kern { pos a b -30; pos d m 12; } kern;
"""
ATTACH_GLYPHS = ["a", "b", "c", "d", "m", "n", "o", "a_b", "c.alt", "unused"]
ATTACH_CMAP = {97: "a", 98: "b", 99: "c", 100: "d", 0x301: "m", 0x323: "n"}
# 'o' (a second top mark) is reachable through ccmp only
FEA_ATTACH2 = FEA_ATTACH + "feature ccmp { sub m m by o; } ccmp;\n"

# ---- script / language specific features ----------------------------------------------------------
FEA_SCRIPTS = """
languagesystem DFLT dflt;
languagesystem latn dflt;
languagesystem latn TRK;
feature kern {
  script DFLT; pos a b -40;
  script latn; pos c d -25;
  language TRK exclude_dflt; pos e f -15;
} kern;
feature liga {
  script DFLT; sub a b by a_b;
  script latn; sub c d by c_d;
  language TRK exclude_dflt; sub e f by e_f;
} liga;
feature locl { script latn; language TRK; sub a by a.trk; } locl;
"""
SCRIPTS_GLYPHS = ["a", "b", "c", "d", "e", "f", "a_b", "c_d", "e_f", "a.trk", "unused"]

# ---- variable: master-dependent kerning and anchors (GDEF VarStore), feature variations -----------
FEA_VARMARK = """
languagesystem DFLT dflt;
markClass m <anchor %(3,100)d %(4,600)d> @TOP;
table GDEF { GlyphClassDef [a b c d], , [m], ; } GDEF;
feature kern { pos a b %(0,-40)d; pos b c %(1,25)d; pos [c d] [a d] %(2,10)d; } kern;
feature mark { pos base a <anchor %(5,250)d %(6,700)d> mark @TOP; pos base b <anchor 260 %(7,710)d> mark @TOP; } mark;
feature liga { sub a b by a_b; } liga;
"""
VARMARK_GLYPHS = ["a", "b", "c", "d", "m", "a_b", "a.heavy", "unused"]
VARMARK_CMAP = {97: "a", 98: "b", 99: "c", 100: "d", 0x301: "m"}


# ---- closure needs several passes: nested contextual lookups whose context glyph is produced later ------
FEA_FIXPOINT = LANGSYS + """
lookup MKE { sub e by e.alt; } MKE;
lookup N { sub e.alt a' by a.alt; } N;
lookup N3 { sub a.alt c' by c.alt; } N3;
feature calt {
  lookup OUTER {
    sub a' lookup N;
    sub c' lookup N3;
    sub e' lookup MKE;
  } OUTER;
} calt;
"""
FIXPOINT_GLYPHS = ["a", "c", "e", "e.alt", "a.alt", "c.alt", "unused"]


def _specs():
    S = {}
    S["gsub-ttf"] = {"kind": "ttf", "shapes": "mixed", "glyphs": GSUB_GLYPHS, "fea": FEA_GSUB}
    S["gsub-cff"] = {"kind": "cff", "shapes": "mixed", "glyphs": GSUB_GLYPHS, "fea": FEA_GSUB, "coef": 3}
    S["ctx-ttf"] = {"kind": "ttf", "shapes": "mixed", "glyphs": CTX_GLYPHS, "fea": FEA_CTX}
    S["fixpoint-ttf"] = {"kind": "ttf", "shapes": "mixed", "glyphs": FIXPOINT_GLYPHS, "cmap": {0x61: "a", 0x63: "c", 0x65: "e"}, "fea": FEA_FIXPOINT}
    S["gpos-ttf"] = {"kind": "ttf", "shapes": "mixed", "glyphs": GPOS_GLYPHS, "fea": FEA_GPOS}
    S["gpos-cff"] = {"kind": "cff", "shapes": "mixed", "glyphs": GPOS_GLYPHS, "fea": FEA_GPOS, "coef": 2}
    S["attach-ttf"] = {"kind": "ttf", "shapes": "mixed", "glyphs": ATTACH_GLYPHS, "cmap": ATTACH_CMAP, "fea": FEA_ATTACH2}
    S["scripts-ttf"] = {"kind": "ttf", "shapes": "mixed", "glyphs": SCRIPTS_GLYPHS, "fea": FEA_SCRIPTS}
    S["kern-only-ttf"] = {"kind": "ttf", "shapes": "mixed", "glyphs": ["a", "b", "c", "d", "e"], "composite": True,
                          "cmap": {97: "a", 98: "b", 99: "c", 100: "d", 101: "e", 103: "comp"},
                          "kern": [["a", "b", -30], ["b", "a", 12], ["c", "comp", 22], ["comp", "e", -9]]}
    S["kern-gpos-ttf"] = dict(tinyfont.pool()["ttf-mixed"], cmap={97: "a", 98: "b", 99: "c", 100: "d", 101: "e", 103: "comp"})
    S["kern-gposnokern-ttf"] = {"kind": "ttf", "shapes": "mixed", "glyphs": ["a", "b", "c", "d"],
                                "kern": [["a", "b", -30], ["c", "d", 17]],
                                "fea": LANGSYS + "feature cpsp { pos a <10 0 20 0>; } cpsp;\nfeature liga { sub c d by b; } liga;\n"}
    S["vf-kern-1axis"] = dict(tinyfont.pool()["vf-ttf-1axis"])
    S["vf-2axis-avar"] = dict(tinyfont.pool()["vf-ttf-2axis"])
    S["vf-cff2"] = dict(tinyfont.pool()["vf-cff2-1axis"])
    S["vf-mark-1axis"] = {"kind": "ttf", "shapes": "mixed", "glyphs": VARMARK_GLYPHS, "cmap": VARMARK_CMAP, "fea": FEA_VARMARK,
                          "axes": [["wght", 100, 400, 900]], "masters": [{"wght": 400}, {"wght": 100}, {"wght": 900}]}
    return S


def _add_colr(font, version):
    """COLR v0: a -> layers (x1, x2), d -> (x2); v1: a = layers of PaintGlyph x1, x2; b = PaintColrGlyph(a) + PaintGlyph(x3); c = PaintGlyph x1; d stays a v0 record."""
    from fontTools.colorLib import builder

    if version == 0:
        font["COLR"] = builder.buildCOLR({"a": [("x1", 0), ("x2", 2)], "d": [("x2", 1)]}, version=0)
    else:
        from fontTools.ttLib.tables.otTables import PaintFormat

        def solid(i, alpha=1.0):
            return {"Format": PaintFormat.PaintSolid, "PaletteIndex": i, "Alpha": alpha}

        colors = {
            "a": (PaintFormat.PaintColrLayers, [
                {"Format": PaintFormat.PaintGlyph, "Paint": solid(0), "Glyph": "x1"},
                {"Format": PaintFormat.PaintGlyph, "Paint": solid(2), "Glyph": "x2"},
            ]),
            "b": (PaintFormat.PaintColrLayers, [
                {"Format": PaintFormat.PaintColrGlyph, "Glyph": "a"},
                {"Format": PaintFormat.PaintGlyph, "Paint": solid(3), "Glyph": "x3"},
            ]),
            "c": {"Format": PaintFormat.PaintGlyph, "Paint": solid(1, 0.5), "Glyph": "x1"},
            "d": [("x2", 1)],
        }
        font["COLR"] = builder.buildCOLR(colors, version=None, glyphMap=font.getReverseGlyphMap())
    font["CPAL"] = builder.buildCPAL([[(1, 0, 0, 1), (0, 1, 0, 1), (0, 0, 1, 1), (1, 1, 0, 1)]])


def _add_cmap14(font):
    """format 14 subtable: non-default UVS a+VS1 -> a.vs, default UVS b+VS1, c+VS2 -> c.vs"""
    from fontTools.ttLib.tables._c_m_a_p import CmapSubtable

    st = CmapSubtable.newSubtable(14)
    st.platformID, st.platEncID, st.language = 0, 5, 0
    st.cmap = {}
    st.uvsDict = {0xFE00: [(0x61, "a.vs"), (0x62, None)], 0xFE01: [(0x63, "c.vs")]}
    font["cmap"].tables.append(st)


def _add_unknown_table(font):
    t = newTable("ZZZZ")
    t.data = b"opaque table the subsetter cannot subset\x00"
    font["ZZZZ"] = t


def _add_feature_variations(font):
    from fontTools.varLib.featureVars import addFeatureVariations

    addFeatureVariations(font, [([{"wght": (0.5, 1.0)}], {"a": "a.heavy"})], featureTag="rvrn")


def _add_names(font):
    """extra name records (IDs > 6, a second language) so that name pruning has something to do"""
    name = font["name"]
    name.setName("Trademark text", 7, 3, 1, 0x409)
    name.setName("Designer", 9, 3, 1, 0x409)
    name.setName("Familie", 1, 3, 1, 0x407)
    name.setName("Mac family", 1, 1, 0, 0)


# ---- class-based (format 2) chaining contexts, acting on the SECOND input glyph --------------------
FEA_CTX2 = LANGSYS + """
@A=[a b g h]; @B=[c d i j]; @C=[e f k l];
lookup L1 { sub c by c.alt; sub d by d.alt; } L1;
lookup L2 { sub e by e.alt; sub f by f.alt; } L2;
lookup L3 { sub a by a.alt; } L3;
feature calt {
  # @C never starts a rule: its glyphs are not in the subtable's Coverage, yet L2 acts on them
  sub @A' @B' lookup L1 @C;
  sub @B' @C' lookup L2 @A;
  sub @A' @A' lookup L3 @A;
  sub @B' @B' lookup L1 @B;
  sub @A' @C' lookup L2 @B;
  sub @B' @A' lookup L3 @C;
  sub @A' @C' lookup L2 @C;
  sub @B' @C' lookup L2 @C;
} calt;
lookup P1 { pos c <0 0 20 0>; pos d <0 0 25 0>; } P1;
lookup P2 { pos e <5 0 -10 0>; pos f <0 0 7 0>; } P2;
lookup P3 { pos a <0 0 -9 0>; } P3;
feature kern {
  pos @A' @B' lookup P1 @C;
  pos @B' @C' lookup P2 @A;
  pos @C' @A' lookup P3 @B;
  pos @A' @A' lookup P3 @A;
  pos @B' @B' lookup P1 @B;
  pos @C' @C' lookup P2 @C;
  pos @A' @C' lookup P2 @B;
  pos @B' @A' lookup P3 @C;
} kern;
"""
CTX2_GLYPHS = list("abcdefghijkl") + ["c.alt", "d.alt", "e.alt", "f.alt", "a.alt"]


def _build_ctx2():
    """feaLib writes whichever contextual format compiles smallest; here the class-based format 2 is
    wanted, so the size comparison is biased towards it while this one font is built."""
    from fontTools.otlLib import builder as B

    orig = B.ChainContextualBuilder.getCompiledSize_

    def prefer_format2(self, subtables):
        size = orig(self, subtables)
        return 0 if getattr(subtables[0], "Format", None) == 2 else size

    B.ChainContextualBuilder.getCompiledSize_ = prefer_format2
    try:
        font = tinyfont.build({"kind": "ttf", "shapes": "mixed", "glyphs": CTX2_GLYPHS, "cmap": {0x61 + i: ch for i, ch in enumerate("abcdef")}, "fea": FEA_CTX2})
    finally:
        B.ChainContextualBuilder.getCompiledSize_ = orig
    kinds = lookup_kinds(font)
    assert "S6.2" in kinds and "P8.2" in kinds, kinds
    return tinyfont.to_bytes(font)


def generated_fonts():
    """-> {key: sfnt bytes} deterministic."""
    out = {}
    out["tiny:ctx2-ttf"] = _build_ctx2()
    for key, spec in sorted(_specs().items()):
        font = tinyfont.build(spec)
        if key == "vf-mark-1axis":
            font = tinyfont.reload(font)
            _add_feature_variations(font)
        if "comp" in font.getGlyphOrder() and "fvar" not in font:
            # HarfBuzz shifts a glyph by lsb - xMin: keep them equal so that outlines compare raw
            font = tinyfont.reload(font)
            adv, _lsb = font["hmtx"].metrics["comp"]
            font["hmtx"].metrics["comp"] = (adv, font["glyf"]["comp"].xMin)
        if key in ("gsub-ttf", "vf-kern-1axis"):
            _add_names(font)
            _add_unknown_table(font)
        out["tiny:" + key] = tinyfont.to_bytes(font)
    for ver in (0, 1):
        spec = {"kind": "ttf", "shapes": "mixed", "glyphs": ["a", "b", "c", "d", "e", "x1", "x2", "x3", "unused"],
                "fea": LANGSYS + "feature liga { sub d e by b; } liga;\n"}
        font = tinyfont.build(spec)
        _add_colr(font, ver)
        out["tiny:colr-v%d" % ver] = tinyfont.to_bytes(font)
    spec = {"kind": "ttf", "shapes": "mixed", "glyphs": ["a", "b", "c", "a.vs", "c.vs", "c_b", "unused"],
            "cmap": {0x61: "a", 0x62: "b", 0x63: "c", 0xFE00: "unused"},
            "fea": LANGSYS + "feature liga { sub c.vs b by c_b; } liga;\nfeature kern { pos a.vs b -50; } kern;\n"}
    font = tinyfont.build(spec)
    # variation selectors must not be mapped by the regular subtables
    for t in font["cmap"].tables:
        t.cmap.pop(0xFE00, None)
    _add_cmap14(font)
    out["tiny:cmap14"] = tinyfont.to_bytes(font)
    return out


# ---- corpus --------------------------------------------------------------------------------------
SUBSET_DATA_SKIP = ("expect_", ".subset.", ".desub.", "NotoSansCJK", "Andika", "google_color", "sbix", "BungeeColor")


def lookup_kinds(font):
    """sorted list of 'S4.1' / 'P2.2' ... lookup type.format (extension unwrapped) of a font."""
    kinds = set()
    for tag in ("GSUB", "GPOS"):
        if tag not in font:
            continue
        tb = font[tag].table
        if not tb.LookupList:
            continue
        for lk in tb.LookupList.Lookup:
            for st in lk.SubTable:
                typ = lk.LookupType
                ext = ""
                if hasattr(st, "ExtSubTable"):
                    typ = st.ExtensionLookupType
                    st = st.ExtSubTable
                    ext = "x"
                kinds.add("%s%d.%s%s" % (tag[1], typ, getattr(st, "Format", 1), ext))
    return sorted(kinds)


def references_missing_glyphs(data, idx=-1):
    import re

    f = TTFont(io.BytesIO(data), fontNumber=idx)
    order = set(f.getGlyphOrder())
    names = set()
    for tag in ("GSUB", "GPOS", "GDEF"):
        if tag in f:
            walk_glyph_names(f[tag].table, names)
    cm, uvs = unicode_map(f)
    names.update(cm.values())
    names.update(g for g in uvs.values() if g is not None)
    return any(re.match(r"^glyph\d{5,}$", x) and x not in order for x in names)


def to_sfnt(data, idx=-1):
    f = TTFont(io.BytesIO(data), fontNumber=idx)
    f.flavor = None
    b = io.BytesIO()
    f.save(b)
    return b.getvalue()


def conflicting_unicode_cmaps(font):
    """True when two Unicode cmap subtables map one code point to different glyphs: which glyph a
    character 'has' then depends on the client's subtable choice, and a by-character comparison of
    original and subset is not defined."""
    seen = {}
    for t in font["cmap"].tables:
        if t.format != 14 and t.isUnicode():
            for u, g in t.cmap.items():
                if seen.setdefault(u, g) != g:
                    return True
    return False


def corpus_fonts(tier, seed):
    """-> {key: sfnt bytes}.  AOTS family: one font per lookup type.format set in quick (which
    one rotates with the seed), all in thorough; subset test inputs; other small corpus fonts
    with layout, variations or CFF subroutines."""
    out = {}
    groups = {}
    for name, data, idx in corpus.binary_faces():
        if len(data) > 40000 or "varc-" in name or "dot-cubic" in name or "duplicate_glyph_name" in name:
            continue
        try:
            f = TTFont(io.BytesIO(data), fontNumber=idx, lazy=True)
        except Exception:
            continue
        if not all(t in f for t in ("head", "hhea", "hmtx", "maxp", "cmap", "post")) or not ("glyf" in f or "CFF " in f or "CFF2" in f):
            continue
        if not (f.getBestCmap() or {}):
            continue
        if references_missing_glyphs(data, idx):
            continue  # layout tables name glyph ids >= numGlyphs: malformed on purpose
        if conflicting_unicode_cmaps(f):
            continue  # "the glyph of a character" is ambiguous (AOTS cmap_subtableselection fonts)
        if corpus.is_aots(name):
            kinds = lookup_kinds(f)
            if not kinds and "cmap" not in name:
                continue
            base = name.rsplit("/", 1)[-1]
            gk = "+".join(kinds) + ("/gdef" if "GDEF" in f else "") if kinds else base.split("_")[0]
            groups.setdefault(gk, []).append((name, data, idx))
        else:
            if "GSUB" in f or "GPOS" in f or "fvar" in f or "kern" in f:
                out["bin:" + name] = to_sfnt(data, idx)
    for gk in sorted(groups):
        members = sorted(groups[gk])
        if tier == "quick":
            members = [members[seed % len(members)]]
        for name, data, idx in members:
            out["bin:" + name] = to_sfnt(data, idx)
    for name, data in corpus.compiled_ttx():
        if not name.startswith("subset/data/") or any(s in name for s in SUBSET_DATA_SKIP) or len(data) > 60000:
            continue
        f = TTFont(io.BytesIO(data), lazy=True)
        if not all(t in f for t in ("head", "hhea", "hmtx", "maxp", "cmap", "post")):
            continue
        if not (f.getBestCmap() or {}):
            continue
        out["ttx:" + name] = data
    return out


# ---- generic glyph-reference walker (independent of the subsetter's per-table code) ----------------
def walk_glyph_names(obj, out, depth=0, seen=None):
    """Collect every str found in the attribute tree of an otTables object (Coverage.glyphs,
    ClassDef.classDefs keys, mapping keys/values, LigGlyph, Component, SecondGlyph ...).  The
    caller intersects / compares with the glyph order: attribute values that are not glyph names
    (tags) are filtered there."""
    if seen is None:
        seen = set()
    if isinstance(obj, str):
        out.add(obj)
        return
    if isinstance(obj, (int, float, bytes, type(None), bool)):
        return
    if id(obj) in seen:
        return
    seen.add(id(obj))
    if isinstance(obj, dict):
        for k, v in obj.items():
            walk_glyph_names(k, out, depth + 1, seen)
            walk_glyph_names(v, out, depth + 1, seen)
        return
    if isinstance(obj, (list, tuple, set, frozenset)):
        for v in obj:
            walk_glyph_names(v, out, depth + 1, seen)
        return
    if hasattr(obj, "ensureDecompiled"):
        try:
            obj.ensureDecompiled()
        except TypeError:
            pass
    d = getattr(obj, "__dict__", None)
    if d:
        for k, v in d.items():
            if k in ("reader", "writer", "font", "parent", "offsetToWriter", "sortCoverageLast"):
                continue
            walk_glyph_names(v, out, depth + 1, seen)


TAG_ATTRS = ("FeatureTag", "ScriptTag", "LangSysTag", "AxisTag", "BaselineTag")


def layout_glyphs(font):
    """glyph names referenced from GSUB / GPOS (any role)."""
    names = set()
    order = set(font.getGlyphOrder())
    for tag in ("GSUB", "GPOS"):
        if tag in font and font[tag].table.LookupList:
            walk_glyph_names(font[tag].table.LookupList, names)
    if "kern" in font:
        for t in font["kern"].kernTables:
            for pair in getattr(t, "kernTable", {}):
                names.update(pair)
    return names & order


def feature_tags(font):
    """{'GSUB': set(tags), 'GPOS': set(tags)}"""
    out = {}
    for tag in ("GSUB", "GPOS"):
        tags = set()
        if tag in font and font[tag].table.FeatureList:
            tags = {str(fr.FeatureTag) for fr in font[tag].table.FeatureList.FeatureRecord}
        out[tag] = tags
    return out


def script_tags(font):
    tags = set()
    for tag in ("GSUB", "GPOS"):
        if tag in font and font[tag].table.ScriptList:
            for sr in font[tag].table.ScriptList.ScriptRecord:
                tags.add(str(sr.ScriptTag))
                for ls in sr.Script.LangSysRecord:
                    tags.add(str(sr.ScriptTag) + "." + str(ls.LangSysTag))
    return tags


def unicode_map(font):
    """code point -> glyph name over all Unicode cmap subtables (format 14 excluded), and the
    format 14 content {(base, selector): glyph or None}."""
    cm, uvs = {}, {}
    for t in font["cmap"].tables:
        if t.format == 14:
            for sel, lst in t.uvsDict.items():
                for base, g in lst:
                    uvs[(base, sel)] = g
        elif t.isUnicode():
            for u, g in t.cmap.items():
                cm.setdefault(u, g)
    return cm, uvs


def _ignorable(c):
    from .c07_check import is_default_ignorable

    return is_default_ignorable(c) or c in (0x0A, 0x0D)


def focus_chars(data, n, seed, all_features):
    """The request alphabet of a font with many mapped characters: the n characters that take
    part in the most layout-active texts (a single or a pair of characters whose HarfBuzz
    shaping differs from the plain nominal glyphs and advances), then characters whose glyph is
    referenced from GSUB/GPOS/kern, then the first mapped ones.  The seed rotates the window
    when there are more active characters than n."""
    font = TTFont(io.BytesIO(data))
    cm, uvs = unicode_map(font)
    chars = sorted(cm)
    if len(chars) <= n:
        return chars + sorted({s for (_b, s) in uvs} - set(chars))[:max(0, n - len(chars))]
    reserved = []
    if uvs:
        # a format 14 subtable: two selectors and three of their base characters are always in
        sels = sorted({sel for (_b, sel) in uvs})[:2]
        bases = sorted({b for (b, sel) in uvs if sel in sels and b in cm})[:3]
        reserved = bases + sels
        n = max(1, n - len(reserved))
        chars = [c for c in chars if c not in reserved]
    lg = layout_glyphs(font)
    cand = [c for c in chars if cm[c] in lg and not _ignorable(c)][:48]
    hbf = hbridge.HBFont(data)
    score = {c: 0 for c in cand}
    plain = {}
    for c in cand:
        gid = hbf.nominal(c)
        plain[c] = (gid, hbf.h_advance(gid) if gid is not None else 0)
    for k in (1, 2, 3):
        if k == 3 and len(cand) > 16:
            break
        for tup in itertools.product(cand, repeat=k):
            res = hbf.shape(text="".join(map(chr, tup)), features=all_features)
            exp = [(plain[c][0], plain[c][1], 0, 0, 0) for c in tup]
            got = [(g, xa, ya, xo, yo) for g, _cl, xa, ya, xo, yo in res]
            if got != exp:
                for c in set(tup):
                    score[c] += 1
    active = sorted((c for c in cand if score[c]), key=lambda c: (-score[c], c))
    if len(active) > n:
        # windows of the ranking, rotating with the seed; characters of one rule tend to have
        # similar scores, so a window keeps them together
        start = (seed * (n // 2)) % (len(active) - n + 1)
        active = active[start:start + n]
    rest = [c for c in cand if c not in active] + [c for c in chars if c not in cand and not _ignorable(c) and c >= 0x20]
    # always keep one character without layout involvement when there is room
    out = sorted((active + rest)[:n] + reserved)
    return out or chars[:n]
