"""C19 helpers: boundary alphabets for fontinfo / kerning / groups / lib values (written from
the UFO 3 fontinfo.plist, kerning.plist, groups.plist pages), the UFO 1 -> 2 attribute table of
the UFO 2 specification, and a reference kerning lookup for UFO 1/2 and UFO 3 semantics."""

STR = ["x", "é<&>\"' \U0001d49c", "two\nlines", ""]
INT = [0, 1, -1, 2 ** 31]
NUM = [0, 1, -1.5, 1e-07]
NONNEG_INT = [0, 1, 65535]
NONNEG_NUM = [0, 1000, 2048.5]
BOOL = [True, False]

WOFF_TEXT = [{"text": "t<&>é", "language": "en", "dir": "ltr", "class": "c"}, {"text": ""}]

# attribute -> values valid per the UFO 3 fontinfo.plist page (others get a generic alphabet by type)
SPECIAL = {
    "styleMapStyleName": ["regular", "italic", "bold", "bold italic"],
    "openTypeHeadCreated": ["2020/01/02 03:04:05", "0001/01/01 00:00:00", "9999/12/31 23:59:59"],
    "openTypeHeadFlags": [[], [0], [0, 14]],
    "openTypeOS2WidthClass": [1, 5, 9],
    "openTypeOS2WeightClass": [0, 400, 1000],
    "openTypeOS2Selection": [[], [1, 2], [7, 8, 9]],
    "openTypeOS2VendorID": ["ABCD", "a  "],
    "openTypeOS2Panose": [[0] * 10, [2, 11, 5, 2, 4, 5, 4, 2, 2, 4]],
    "openTypeOS2FamilyClass": [[0, 0], [14, 15]],
    "openTypeOS2UnicodeRanges": [[], [0, 127]],
    "openTypeOS2CodePageRanges": [[], [0, 63]],
    "openTypeOS2Type": [[], [0], [2, 8]],
    "postscriptBlueValues": [[], [-10, 0], [0.5, 10, 500, 510, 700, 710.5]],
    "postscriptOtherBlues": [[], [-250, -240]],
    "postscriptFamilyBlues": [[], [-10, 0, 500, 510]],
    "postscriptFamilyOtherBlues": [[], [-250.5, -240]],
    "postscriptStemSnapH": [[], [80], [80, 90.5, 100]],
    "postscriptStemSnapV": [[], [100, 110]],
    "postscriptWindowsCharacterSet": [1, 20],
    "openTypeGaspRangeRecords": [[], [{"rangeMaxPPEM": 65535, "rangeGaspBehavior": [0, 1, 2, 3]}],
                                 [{"rangeMaxPPEM": 8, "rangeGaspBehavior": []}, {"rangeMaxPPEM": 65535, "rangeGaspBehavior": [1]}]],
    "openTypeNameRecords": [[], [{"nameID": 1, "platformID": 3, "encodingID": 1, "languageID": 0x409, "string": "é<&>\n"}]],
    "woffMajorVersion": [0, 1],
    "woffMinorVersion": [0, 7],
    "woffMetadataUniqueID": [{"id": "x<&>"}],
    "woffMetadataVendor": [{"name": "v"}, {"name": "v", "url": "http://u/?a=1&b=2", "dir": "rtl", "class": "c"}],
    "woffMetadataCredits": [{"credits": [{"name": "n"}, {"name": "m", "url": "u", "role": "r", "dir": "ltr", "class": "c"}]}],
    "woffMetadataDescription": [{"text": WOFF_TEXT}, {"url": "u", "text": WOFF_TEXT[:1]}],
    "woffMetadataLicense": [{"url": "u", "id": "i", "text": WOFF_TEXT}, {}],
    "woffMetadataCopyright": [{"text": WOFF_TEXT}],
    "woffMetadataTrademark": [{"text": WOFF_TEXT[:1]}],
    "woffMetadataLicensee": [{"name": "n"}, {"name": "n", "dir": "ltr", "class": "c"}],
    "woffMetadataExtensions": [[{"id": "e", "names": [{"text": "n"}], "items": [{"id": "i", "names": [{"text": "a", "language": "en"}], "values": [{"text": "b"}]}]}]],
    "guidelines": [[{"x": 1}], [{"x": 1, "y": 2.5, "angle": 45.5, "name": "n<&>", "color": "1,0,0,1", "identifier": "gid"}, {"y": -3}]],
    "versionMinor": NONNEG_INT,
    "unitsPerEm": NONNEG_NUM,
    "openTypeHeadLowestRecPPEM": NONNEG_INT,
    "openTypeOS2WinAscent": NONNEG_INT,
    "openTypeOS2WinDescent": NONNEG_INT,
    "year": [0, 2026, -1],
}


def values_for(attr, typ):
    if attr in SPECIAL:
        return SPECIAL[attr]
    if typ is str:
        return STR
    if typ is bool:
        return BOOL
    if typ is int:
        return INT
    if isinstance(typ, tuple):
        return NUM
    raise KeyError("no alphabet for %s (%r)" % (attr, typ))


KERNINGS = [
    {},
    {"A|B": -50},
    {"A|B": 0, "B|A": 12.5},
    {"public.kern1.O|public.kern2.E": -100, "public.kern1.O|F": -200.5, "D|F": 1e-07},
    {"é<&>|a b": 2 ** 31, "A|A": -1},
]
GROUPS = [
    {},
    {"grp": ["A", "B", "A"]},
    {"public.kern1.O": ["O", "D"], "public.kern2.E": ["E", "F"], "empty": []},
    {"é<&> g": ["é", "a b"], "public.other": ["X"]},
]
LIBS = [
    {},
    {"com.example.k": 1},
    {"com.example.nested": {"l": [0, -1, 2.5, True, False, {"__data__": "00ff"}, {"__date__": [2001, 2, 3, 4, 5, 6]}, [], {}], "d": {"e": {"f": [1]}}},
     "public.glyphOrder": ["a", "é", "a b"], "u64": 2 ** 64 - 1},
]
FEATURES = ["", "feature kern { pos A B -50; } kern;\n", "# é<&>\r\nlanguagesystem DFLT dflt;"]


def kerning_value(spec):
    return {tuple(k.split("|")): v for k, v in spec.items()}


# UFO 2 specification, "converting UFO 1 to UFO 2": old name -> (new name, value map or None)
FONTSTYLE = {64: "regular", 1: "italic", 32: "bold", 33: "bold italic"}
WIDTHNAME = {"Ultra-condensed": 1, "Extra-condensed": 2, "Condensed": 3, "Semi-condensed": 4, "Medium (normal)": 5,
             "Semi-expanded": 6, "Expanded": 7, "Extra-expanded": 8, "Ultra-expanded": 9}
MSCHARSET = {0: 1, 1: 2, 2: 3, 77: 4, 128: 5, 129: 6, 130: 7, 134: 8, 136: 9, 161: 10, 162: 11, 163: 12, 177: 13, 178: 14, 186: 15,
             200: 16, 204: 17, 222: 18, 238: 19, 255: 20}
V1_TO_V3 = {
    "menuName": "styleMapFamilyName", "designer": "openTypeNameDesigner", "designerURL": "openTypeNameDesignerURL",
    "createdBy": "openTypeNameManufacturer", "vendorURL": "openTypeNameManufacturerURL", "license": "openTypeNameLicense",
    "licenseURL": "openTypeNameLicenseURL", "ttVersion": "openTypeNameVersion", "ttUniqueID": "openTypeNameUniqueID",
    "notice": "openTypeNameDescription", "otFamilyName": "openTypeNamePreferredFamilyName", "otStyleName": "openTypeNamePreferredSubfamilyName",
    "otMacName": "openTypeNameCompatibleFullName", "weightName": "postscriptWeightName", "ttVendor": "openTypeOS2VendorID",
    "fontName": "postscriptFontName", "fondName": "macintoshFONDName", "fullName": "postscriptFullName",
    # kept names
    "familyName": "familyName", "styleName": "styleName", "copyright": "copyright", "trademark": "trademark", "note": "note",
}
V1_INT = {"weightValue": "openTypeOS2WeightClass", "uniqueID": "postscriptUniqueID", "fondID": "macintoshFONDFamilyID",
          "versionMajor": "versionMajor", "year": "year"}
V1_NUM = {"defaultWidth": "postscriptDefaultWidthX", "slantAngle": "postscriptSlantAngle", "italicAngle": "italicAngle",
          "ascender": "ascender", "descender": "descender", "capHeight": "capHeight", "xHeight": "xHeight"}

# UFO 3 fontinfo page: these were "integer or float" in UFO 2 and are "integer" in UFO 3
V2_FLOAT_TO_INT = [
    "openTypeHheaAscender", "openTypeHheaDescender", "openTypeHheaLineGap", "openTypeHheaCaretOffset", "openTypeOS2TypoAscender",
    "openTypeOS2TypoDescender", "openTypeOS2TypoLineGap", "openTypeOS2SubscriptXSize", "openTypeOS2SubscriptYSize",
    "openTypeOS2SubscriptXOffset", "openTypeOS2SubscriptYOffset", "openTypeOS2SuperscriptXSize", "openTypeOS2SuperscriptYSize",
    "openTypeOS2SuperscriptXOffset", "openTypeOS2SuperscriptYOffset", "openTypeOS2StrikeoutSize", "openTypeOS2StrikeoutPosition",
    "openTypeVheaVertTypoAscender", "openTypeVheaVertTypoDescender", "openTypeVheaVertTypoLineGap", "openTypeVheaCaretOffset",
]
V2_NONNEG_INT = ["openTypeHeadLowestRecPPEM", "openTypeOS2WinAscent", "openTypeOS2WinDescent"]


# ---------------------------------------------------------------- kerning semantics
def lookup_v3(pair, kerning, groups):
    """UFO 3 kerning.plist: glyph/glyph, then glyph/group, group/glyph, group/group; groups by
    the public.kern1. / public.kern2. prefixes."""
    g1, g2 = pair
    firsts = [g1] + [n for n, m in groups.items() if n.startswith("public.kern1.") and g1 in m]
    seconds = [g2] + [n for n, m in groups.items() if n.startswith("public.kern2.") and g2 in m]
    return _lookup(firsts, seconds, kerning)


def lookup_v2(pair, kerning, groups):
    """UFO 1/2: a group is a kerning group of a side when it is used on that side in
    kerning.plist (or carries the @MMK_L_/@MMK_R_ prefix)."""
    g1, g2 = pair
    used1 = {a for a, b in kerning if a in groups} | {n for n in groups if n.startswith("@MMK_L_")}
    used2 = {b for a, b in kerning if b in groups} | {n for n in groups if n.startswith("@MMK_R_")}
    firsts = [g1] + [n for n in sorted(used1) if g1 in groups[n]]
    seconds = [g2] + [n for n in sorted(used2) if g2 in groups[n]]
    return _lookup(firsts, seconds, kerning)


def _lookup(firsts, seconds, kerning):
    """Returns (value or None, ambiguous?)."""
    amb = len(firsts) > 2 or len(seconds) > 2
    f0, s0 = firsts[0], seconds[0]
    order = [(f0, s0)] + [(f0, s) for s in seconds[1:]] + [(f, s0) for f in firsts[1:]] + [(f, s) for f in firsts[1:] for s in seconds[1:]]
    for p in order:
        if p in kerning:
            return kerning[p], amb
    return None, amb
