"""Reference Type 2 charstring interpreter, written from Adobe Technical Note #5177
("The Type 2 Charstring Format", 16 March 2000) and the OpenType CFF2 CharString chapter.

It shares no code with fontTools (in particular not with SimpleT2Decompiler /
T2OutlineExtractor); only the *names* of the operators are the ones fontTools uses in its
program lists, so that a program list can be fed without translation.

    r = run(program_or_bytecode, local_subrs=(), global_subrs=(), cff2=False,
            num_regions=None, scalars=None)

    r.fatal        None, or why interpretation was abandoned (also listed in r.errors)
    r.calls        [('l'|'g', absolute index)] subroutine calls in execution order
    r.width        first-operand width exactly as written in the charstring (None if absent)
    r.contours     [(True, start, [seg, ...])] with seg = ('L', p0, p1) | ('C', p0, p1, p2, p3),
                   absolute coordinates, *without* the implicit closing line
                   (`r.closed()` adds it the way a pen's closePath does)
    r.max_stack    maximum operand stack depth reached (operands of subroutine calls included)
    r.errors       list of (code, operator, detail): illegal argument counts, stack overflow,
                   path operator before the first moveto, hint operator after the path began,
                   bad mask length, operands left at the end ...
    r.stems        [(operator, [operands])] in program order ('hintmask'/'cntrmask' for the
                   implied vstem operands), r.masks [(operator, maskbytes)]
    r.ops          names of the operators executed, in order (subroutine bodies inlined)
    r.seac         (adx, ady, bchar, achar) if endchar carried the deprecated accent form

A *program* is a list of ints/floats/operator-name strings; the item after 'hintmask' /
'cntrmask' is the mask as a bytes object.  *Bytecode* is a bytes object.  Subroutines are
given as sequences of programs or bytecodes (mixed is fine); the bias is the one of TN5177
section 4.7 (107 / 1131 / 32768).
"""
import struct

CFF_STACK_LIMIT = 48  # TN5177 Appendix B
CFF2_STACK_LIMIT = 513  # OpenType CFF2 charstrings
SUBR_NESTING_LIMIT = 10

# one-byte and escaped (12 x) operators, TN5177 Appendix A
OP1 = {
    1: "hstem", 3: "vstem", 4: "vmoveto", 5: "rlineto", 6: "hlineto", 7: "vlineto",
    8: "rrcurveto", 10: "callsubr", 11: "return", 14: "endchar", 15: "vsindex", 16: "blend",
    18: "hstemhm", 19: "hintmask", 20: "cntrmask", 21: "rmoveto", 22: "hmoveto",
    23: "vstemhm", 24: "rcurveline", 25: "rlinecurve", 26: "vvcurveto", 27: "hhcurveto",
    29: "callgsubr", 30: "vhcurveto", 31: "hvcurveto",
}
OP2 = {
    0: "ignore",  # dotsection (deprecated no-op)
    3: "and", 4: "or", 5: "not", 9: "abs", 10: "add", 11: "sub", 12: "div", 14: "neg",
    15: "eq", 18: "drop", 20: "put", 21: "get", 22: "ifelse", 23: "random", 24: "mul",
    26: "sqrt", 27: "dup", 28: "exch", 29: "index", 30: "roll", 34: "hflex", 35: "flex",
    36: "hflex1", 37: "flex1",
}
OPCODE = {}
for _k, _v in OP1.items():
    OPCODE[_v] = bytes([_k])
for _k, _v in OP2.items():
    OPCODE[_v] = bytes([12, _k])

STEM_OPS = ("hstem", "vstem", "hstemhm", "vstemhm")
MASK_OPS = ("hintmask", "cntrmask")
MOVE_OPS = ("rmoveto", "hmoveto", "vmoveto")
PATH_OPS = (
    "rlineto", "hlineto", "vlineto", "rrcurveto", "hhcurveto", "vvcurveto", "hvcurveto",
    "vhcurveto", "rcurveline", "rlinecurve", "flex", "hflex", "hflex1", "flex1",
)


def legal_argcount(op, n):
    """Is n a legal operand count for path/hint operator `op` (width operand excluded)?"""
    if op == "rmoveto":
        return n == 2
    if op in ("hmoveto", "vmoveto"):
        return n == 1
    if op == "rlineto":
        return n >= 2 and n % 2 == 0
    if op in ("hlineto", "vlineto"):
        return n >= 1
    if op == "rrcurveto":
        return n >= 6 and n % 6 == 0
    if op in ("hhcurveto", "vvcurveto"):
        return n >= 4 and n % 4 in (0, 1)
    if op in ("hvcurveto", "vhcurveto"):
        return n >= 4 and n % 8 in (0, 1, 4, 5)
    if op == "rcurveline":
        return n >= 8 and n % 6 == 2
    if op == "rlinecurve":
        return n >= 8 and n % 2 == 0
    if op == "flex":
        return n == 13
    if op == "hflex":
        return n == 7
    if op == "hflex1":
        return n == 9
    if op == "flex1":
        return n == 11
    if op in STEM_OPS:
        return n >= 2 and n % 2 == 0
    if op in MASK_OPS:
        return n % 2 == 0
    if op == "endchar":
        return n in (0, 4)
    raise KeyError(op)


class T2Error(Exception):
    """The program cannot be interpreted at all (stack underflow, unknown operator...)."""


class Result:
    def __init__(self):
        self.width = None
        self.contours = []
        self.max_stack = 0
        self.errors = []
        self.stems = []
        self.masks = []
        self.ops = []
        self.seac = None
        self.ended = False
        self.fatal = None  # message if interpretation had to be abandoned
        self.calls = []  # ('l'|'g', absolute subroutine index) in call order
        self.max_call_depth = 0  # 0 = no subroutine call, 1 = calls, 2 = a subr calling a subr

    def closed(self):
        """Contours with the implicit closing line made explicit (as ('L', last, start))."""
        out = []
        for closed, start, segs in self.contours:
            segs = list(segs)
            last = segs[-1][-1] if segs else start
            if last != start:
                segs.append(("L", last, start))
            out.append((closed, start, segs))
        return out

    def nonempty(self):
        """Contours that have at least one segment (bare movetos draw nothing)."""
        return [c for c in self.contours if c[2]]

    def hint_count(self):
        return sum(len(a) // 2 for _op, a in self.stems)


def subr_bias(n):
    if n < 1240:
        return 107
    if n < 33900:
        return 1131
    return 32768


class _Machine:
    def __init__(self, local_subrs, global_subrs, cff2, num_regions, scalars, default_vsindex):
        self.lsubrs = local_subrs if local_subrs is not None else ()
        self.gsubrs = global_subrs if global_subrs is not None else ()
        self.cff2 = cff2
        self.limit = CFF2_STACK_LIMIT if cff2 else CFF_STACK_LIMIT
        self.num_regions = num_regions
        self.scalars = scalars
        self.vsindex = default_vsindex
        self.r = Result()
        self.stack = []
        self.x = 0
        self.y = 0
        self.cur = None  # segments of the open contour
        self.seen_width_op = False
        self.path_started = False
        self.nhints = 0
        self.transient = {}
        self.depth = 0

    # ---- helpers
    def err(self, code, op, detail=""):
        self.r.errors.append((code, op, detail))

    def push(self, v):
        self.stack.append(v)
        n = len(self.stack)
        if n > self.r.max_stack:
            self.r.max_stack = n
        if n > self.limit and not any(e[0] == "stack-overflow" for e in self.r.errors):
            self.err("stack-overflow", "", "depth %d > %d" % (n, self.limit))

    def pop(self, op):
        if not self.stack:
            raise T2Error("stack underflow at %s" % op)
        return self.stack.pop()

    def take_all(self, op, parity_even=True):
        """Clear the stack for a stack-clearing operator; split off the width if this is
        the first one and the count has the wrong parity (TN5177 section 4.1: the width is
        the extra first operand of the first stack-clearing operator)."""
        args = self.stack
        self.stack = []
        if not self.seen_width_op:
            self.seen_width_op = True
            if not self.cff2:
                n = len(args)
                if op in ("hmoveto", "vmoveto"):
                    has_w = n > 0 and n % 2 == 0
                else:  # rmoveto, endchar (0 or 4 operands), stems and masks (pairs)
                    has_w = n % 2 == 1
                if has_w:
                    self.r.width = args[0]
                    args = args[1:]
        return args

    def moveto(self, dx, dy):
        self.x += dx
        self.y += dy
        self.cur = []
        self.r.contours.append((True, (self.x, self.y), self.cur))
        self.path_started = True

    def need_path(self, op):
        if self.cur is None:
            self.err("path-before-moveto", op)
            self.moveto(0, 0)

    def line(self, dx, dy):
        p0 = (self.x, self.y)
        self.x += dx
        self.y += dy
        self.cur.append(("L", p0, (self.x, self.y)))

    def curve(self, dxa, dya, dxb, dyb, dxc, dyc):
        p0 = (self.x, self.y)
        p1 = (p0[0] + dxa, p0[1] + dya)
        p2 = (p1[0] + dxb, p1[1] + dyb)
        p3 = (p2[0] + dxc, p2[1] + dyc)
        self.x, self.y = p3
        self.cur.append(("C", p0, p1, p2, p3))

    # ---- execution
    def run(self, code):
        self.depth += 1
        if self.depth - 1 > self.r.max_call_depth:
            self.r.max_call_depth = self.depth - 1
        if self.depth > SUBR_NESTING_LIMIT + 1:
            self.err("subr-nesting", "", "depth %d" % (self.depth - 1))
            if self.depth > 64:
                raise T2Error("runaway subroutine recursion")
        try:
            if isinstance(code, (bytes, bytearray)):
                return self.run_bytes(bytes(code))
            return self.run_program(code)
        finally:
            self.depth -= 1

    def run_program(self, prog):
        i = 0
        n = len(prog)
        while i < n:
            tok = prog[i]
            i += 1
            if isinstance(tok, str):
                mask = None
                if tok in MASK_OPS:
                    if i >= n or not isinstance(prog[i], (bytes, bytearray)):
                        raise T2Error("%s without mask bytes in program list" % tok)
                    mask = bytes(prog[i])
                    i += 1
                stop = self.operator(tok, mask, None)
                if stop:
                    return stop
            elif isinstance(tok, (bytes, bytearray)):
                raise T2Error("stray mask bytes in program list")
            else:
                self.push(tok)
        return None

    def run_bytes(self, data):
        i = 0
        n = len(data)
        while i < n:
            b0 = data[i]
            i += 1
            if 32 <= b0 <= 246:
                self.push(b0 - 139)
            elif 247 <= b0 <= 250:
                self.push((b0 - 247) * 256 + data[i] + 108)
                i += 1
            elif 251 <= b0 <= 254:
                self.push(-(b0 - 251) * 256 - data[i] - 108)
                i += 1
            elif b0 == 28:
                self.push(struct.unpack(">h", data[i : i + 2])[0])
                i += 2
            elif b0 == 255:
                v = struct.unpack(">l", data[i : i + 4])[0]
                i += 4
                self.push(v / 65536.0 if v & 0xFFFF else v >> 16)
            else:
                if b0 == 12:
                    name = OP2.get(data[i])
                    if name is None:
                        raise T2Error("unknown operator 12 %d" % data[i])
                    i += 1
                else:
                    name = OP1.get(b0)
                    if name is None:
                        raise T2Error("unknown operator %d" % b0)
                if name in MASK_OPS:
                    # the mask length depends on the hints counted so far *including* the
                    # implied vstem operands on the stack: let operator() consume the bytes
                    box = [data, i]
                    stop = self.operator(name, None, box)
                    i = box[1]
                else:
                    stop = self.operator(name, None, None)
                if stop:
                    return stop
        return None

    def call(self, op, subrs):
        idx = self.pop(op)
        if not isinstance(idx, int):
            if float(idx) != int(idx):
                raise T2Error("non-integer subroutine number %r" % (idx,))
            idx = int(idx)
        k = idx + subr_bias(len(subrs))
        if not 0 <= k < len(subrs):
            raise T2Error("%s %d out of range (%d subrs)" % (op, idx, len(subrs)))
        self.r.calls.append(("l" if op == "callsubr" else "g", k))
        stop = self.run(subrs[k])
        return stop if stop == "endchar" else None

    def operator(self, op, mask, box):
        r = self.r
        if r.ended:
            return "endchar"
        r.ops.append(op)
        st = self.stack
        if op == "callsubr":
            return self.call(op, self.lsubrs)
        if op == "callgsubr":
            return self.call(op, self.gsubrs)
        if op == "return":
            return "return"
        if op == "endchar":
            args = self.take_all(op)
            if self.cff2:
                self.err("cff2-illegal-operator", op)
            if len(args) == 4:
                r.seac = tuple(args)
            elif args:
                self.err("argcount", op, "%d" % len(args))
            self.cur = None
            r.ended = True
            return "endchar"
        if op in STEM_OPS:
            args = self.take_all(op)
            if not legal_argcount(op, len(args)):
                self.err("argcount", op, "%d" % len(args))
            if self.path_started:
                self.err("hint-after-path", op)
            r.stems.append((op, args))
            self.nhints += len(args) // 2
            return None
        if op in MASK_OPS:
            args = self.take_all(op)
            if len(args) % 2:
                self.err("argcount", op, "%d" % len(args))
            if args:
                # implied vstem(hm): only legal directly after the stem declarations
                if self.path_started:
                    self.err("hint-after-path", op)
                r.stems.append((op, args))
                self.nhints += len(args) // 2
            nbytes = (self.nhints + 7) // 8
            if box is not None:
                data, i = box
                mask = data[i : i + nbytes]
                box[1] = i + nbytes
                if len(mask) != nbytes:
                    raise T2Error("truncated %s mask" % op)
            elif len(mask) != nbytes:
                self.err("mask-length", op, "%d bytes for %d hints" % (len(mask), self.nhints))
            if self.nhints == 0:
                self.err("mask-without-hints", op)
            r.masks.append((op, mask))
            return None
        if op in MOVE_OPS:
            args = self.take_all(op)
            if not legal_argcount(op, len(args)):
                self.err("argcount", op, "%d" % len(args))
                args = (list(args) + [0, 0])[:2]
            if op == "rmoveto":
                self.moveto(args[0], args[1])
            elif op == "hmoveto":
                self.moveto(args[0], 0)
            else:
                self.moveto(0, args[0])
            return None
        if op in PATH_OPS:
            args = st
            self.stack = []
            # a path operator is not one of the width-carrying operators
            self.seen_width_op = True
            n = len(args)
            if not legal_argcount(op, n):
                self.err("argcount", op, "%d" % n)
                raise T2Error("illegal operand count %d for %s" % (n, op))
            self.need_path(op)
            getattr(self, "p_" + op)(args)
            return None
        if op == "vsindex":
            v = self.pop(op)
            if not self.cff2:
                self.err("cff-illegal-operator", op)
            self.vsindex = v
            return None
        if op == "blend":
            if not self.cff2:
                self.err("cff-illegal-operator", op)
            n = self.pop(op)
            if self.num_regions is None:
                raise T2Error("blend without region information")
            k = self.num_regions(self.vsindex)
            need = n * (k + 1)
            if n < 0 or need > len(st):
                raise T2Error("blend underflow: n=%r regions=%d stack=%d" % (n, k, len(st)))
            base = len(st) - need
            vals = st[base : base + n]
            deltas = st[base + n :]
            del st[base:]
            sc = self.scalars(self.vsindex) if self.scalars is not None else None
            for j in range(n):
                v = vals[j]
                if sc is not None:
                    for t in range(k):
                        v = v + deltas[j * k + t] * sc[t]
                st.append(v)
            return None
        if op == "ignore":
            return None
        return self.arith(op)

    # ---- path operators (TN5177 section 4.1)
    def p_rlineto(self, a):
        for i in range(0, len(a), 2):
            self.line(a[i], a[i + 1])

    def _altline(self, a, horizontal):
        for v in a:
            if horizontal:
                self.line(v, 0)
            else:
                self.line(0, v)
            horizontal = not horizontal

    def p_hlineto(self, a):
        self._altline(a, True)

    def p_vlineto(self, a):
        self._altline(a, False)

    def p_rrcurveto(self, a):
        for i in range(0, len(a), 6):
            self.curve(*a[i : i + 6])

    def p_hhcurveto(self, a):
        # dy1? {dxa dxb dyb dxc}+
        dy1 = 0
        i = 0
        if len(a) % 4 == 1:
            dy1 = a[0]
            i = 1
        while i < len(a):
            dxa, dxb, dyb, dxc = a[i : i + 4]
            self.curve(dxa, dy1, dxb, dyb, dxc, 0)
            dy1 = 0
            i += 4

    def p_vvcurveto(self, a):
        # dx1? {dya dxb dyb dyc}+
        dx1 = 0
        i = 0
        if len(a) % 4 == 1:
            dx1 = a[0]
            i = 1
        while i < len(a):
            dya, dxb, dyb, dyc = a[i : i + 4]
            self.curve(dx1, dya, dxb, dyb, 0, dyc)
            dx1 = 0
            i += 4

    def _altcurve(self, a, horizontal):
        # curves alternately start horizontal/end vertical and start vertical/end horizontal;
        # an odd operand count means the last curve's end tangent gets the extra operand
        n = len(a)
        ncurves = n // 4
        extra = a[-1] if n % 4 == 1 else None
        for c in range(ncurves):
            d1, d2, d3, d4 = a[4 * c : 4 * c + 4]
            last = c == ncurves - 1
            e = extra if (last and extra is not None) else 0
            if horizontal:
                # dx1 dx2 dy2 dy3 (dx3 = e)
                self.curve(d1, 0, d2, d3, e, d4)
            else:
                # dy1 dx2 dy2 dx3 (dy3 = e)
                self.curve(0, d1, d2, d3, d4, e)
            horizontal = not horizontal

    def p_hvcurveto(self, a):
        self._altcurve(a, True)

    def p_vhcurveto(self, a):
        self._altcurve(a, False)

    def p_rcurveline(self, a):
        n = len(a) - 2
        for i in range(0, n, 6):
            self.curve(*a[i : i + 6])
        self.line(a[-2], a[-1])

    def p_rlinecurve(self, a):
        n = len(a) - 6
        for i in range(0, n, 2):
            self.line(a[i], a[i + 1])
        self.curve(*a[n:])

    def p_flex(self, a):
        self.curve(*a[0:6])
        self.curve(*a[6:12])  # a[12] = flex depth, not used for the outline

    def p_hflex(self, a):
        dx1, dx2, dy2, dx3, dx4, dx5, dx6 = a
        self.curve(dx1, 0, dx2, dy2, dx3, 0)
        self.curve(dx4, 0, dx5, -dy2, dx6, 0)

    def p_hflex1(self, a):
        dx1, dy1, dx2, dy2, dx3, dx4, dx5, dy5, dx6 = a
        self.curve(dx1, dy1, dx2, dy2, dx3, 0)
        self.curve(dx4, 0, dx5, dy5, dx6, -(dy1 + dy2 + dy5))

    def p_flex1(self, a):
        dx1, dy1, dx2, dy2, dx3, dy3, dx4, dy4, dx5, dy5, d6 = a
        dx = dx1 + dx2 + dx3 + dx4 + dx5
        dy = dy1 + dy2 + dy3 + dy4 + dy5
        self.curve(dx1, dy1, dx2, dy2, dx3, dy3)
        if abs(dx) > abs(dy):
            self.curve(dx4, dy4, dx5, dy5, d6, -dy)
        else:
            self.curve(dx4, dy4, dx5, dy5, -dx, d6)

    # ---- arithmetic, storage, conditional operators (TN5177 sections 4.4 - 4.6)
    def arith(self, op):
        if self.cff2:
            self.err("cff2-illegal-operator", op)
        pop = self.pop
        if op == "abs":
            self.push(abs(pop(op)))
        elif op == "add":
            b = pop(op); a = pop(op); self.push(a + b)
        elif op == "sub":
            b = pop(op); a = pop(op); self.push(a - b)
        elif op == "div":
            b = pop(op); a = pop(op)
            q = a / b
            self.push(int(q) if q == int(q) else q)
        elif op == "neg":
            self.push(-pop(op))
        elif op == "mul":
            b = pop(op); a = pop(op); self.push(a * b)
        elif op == "sqrt":
            self.push(pop(op) ** 0.5)
        elif op == "drop":
            pop(op)
        elif op == "exch":
            b = pop(op); a = pop(op); self.push(b); self.push(a)
        elif op == "dup":
            a = pop(op); self.push(a); self.push(a)
        elif op == "index":
            i = pop(op)
            if i < 0:
                i = 0
            if i >= len(self.stack):
                raise T2Error("index out of range")
            self.push(self.stack[-1 - int(i)])
        elif op == "roll":
            j = int(pop(op)); n = int(pop(op))
            if n < 0 or n > len(self.stack):
                raise T2Error("roll out of range")
            if n:
                seg = self.stack[-n:]
                j %= n
                seg = seg[-j:] + seg[:-j] if j else seg
                self.stack[-n:] = seg
        elif op == "put":
            i = pop(op); v = pop(op); self.transient[int(i)] = v
        elif op == "get":
            i = int(pop(op))
            if i not in self.transient:
                raise T2Error("get of unset transient %d" % i)
            self.push(self.transient[i])
        elif op == "and":
            b = pop(op); a = pop(op); self.push(1 if (a and b) else 0)
        elif op == "or":
            b = pop(op); a = pop(op); self.push(1 if (a or b) else 0)
        elif op == "not":
            self.push(0 if pop(op) else 1)
        elif op == "eq":
            b = pop(op); a = pop(op); self.push(1 if a == b else 0)
        elif op == "ifelse":
            v2 = pop(op); v1 = pop(op); s2 = pop(op); s1 = pop(op)
            self.push(s1 if v1 <= v2 else s2)
        elif op == "random":
            raise T2Error("random is not deterministic; not supported by the reference")
        else:
            raise T2Error("unknown operator %r" % (op,))
        return None


def run(code, local_subrs=(), global_subrs=(), cff2=False, num_regions=None, scalars=None,
        default_vsindex=0):
    """Interpret one charstring.  Never raises for a bad program: spec violations are listed
    in result.errors; when the program cannot be given a meaning at all (stack underflow,
    illegal operand count of a curve operator, unknown operator) result.fatal is the message
    and the result holds what was interpreted up to that point."""
    m = _Machine(local_subrs, global_subrs, cff2, num_regions, scalars, default_vsindex)
    r = m.r
    try:
        stop = m.run(code)
    except (T2Error, IndexError, struct.error, TypeError, ZeroDivisionError) as e:
        r.fatal = "%s: %s" % (type(e).__name__, e)
        r.errors.append(("fatal", "", r.fatal))
        return r
    if not cff2 and not r.ended:
        r.errors.append(("no-endchar", "", "stopped by %r" % (stop,)))
    if m.stack and not r.ended:
        r.errors.append(("operands-left", "", "%d" % len(m.stack)))
    return r


def assemble(program):
    """Program list -> bytecode, straight from the encoding tables of TN5177 section 3.2
    (used to cross-check T2CharString.compile).  Floats become 16.16 fixed."""
    out = bytearray()
    i = 0
    while i < len(program):
        t = program[i]
        i += 1
        if isinstance(t, str):
            out += OPCODE[t]
            if t in MASK_OPS:
                out += bytes(program[i])
                i += 1
        elif isinstance(t, int):
            out += encode_int(t)
        else:
            f = int(round(t * 65536))
            if f & 0xFFFF == 0:
                out += encode_int(f >> 16)
            else:
                out += b"\xff" + struct.pack(">l", f)
    return bytes(out)


def encode_int(v):
    if -107 <= v <= 107:
        return bytes([v + 139])
    if 108 <= v <= 1131:
        v -= 108
        return bytes([(v >> 8) + 247, v & 255])
    if -1131 <= v <= -108:
        v = -v - 108
        return bytes([(v >> 8) + 251, v & 255])
    if -32768 <= v <= 32767:
        return b"\x1c" + struct.pack(">h", v)
    raise ValueError("integer %d has no Type 2 encoding" % v)
