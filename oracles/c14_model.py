"""C14 reference model: pen-call grammars, an independent interpretation of the segment-pen and
point-pen protocols, and the documented image of every adapter on that interpretation.

Nothing here imports fontTools.  A glyph is interpreted into *abstract contours*

    ("c", closed, start, [seg, ...])     seg = ("L", p0, p1) | ("Q", p0, off.., p1) | ("C", p0, off.., p1)
    ("b", [off, ...])                    TrueType contour without on-curve point (closed)

where "Q" is a TrueType quadratic spline (implied on-curve points half-way between consecutive
off-curves) and "C" with more than two off-curves is the pen protocol's "super bezier", which is
the clamped uniform cubic B-spline of its control polygon (expanded here by blossoming, i.e.
from the B-spline definition, not by the incremental rule of basePen).  Adapter images are
functions on abstract contours (map points / reverse / close), `expand` turns them into the
(closed, start, [Bezier segments]) form that oracles.geom canonicalises.
"""
import math
from fractions import Fraction

# ------------------------------------------------------------------ small helpers
HALF = Fraction(1, 2)


def otround(v):
    """OpenType rounding: nearest integer, halves towards +infinity (exact arithmetic)."""
    return math.floor(Fraction(v) + HALF)


def T(p):
    return (p[0], p[1])


def affine(t, p):
    """Image of point p under the 6-tuple (xx, xy, yx, yy, dx, dy): x' = xx*x + yx*y + dx."""
    xx, xy, yx, yy, dx, dy = t
    x, y = p
    return (xx * x + yx * y + dx, xy * x + yy * y + dy)


def compose(outer, inner):
    """6-tuple of p -> outer(inner(p))."""
    a, b, c, d, e, f = inner
    A, B, C, D, E, F = outer
    return (A * a + C * b, B * a + D * b, A * c + C * d, B * c + D * d, A * e + C * f + E, B * e + D * f + F)


def det(t):
    return t[0] * t[3] - t[1] * t[2]


def mid(p, q):
    return (0.5 * (p[0] + q[0]), 0.5 * (p[1] + q[1]))


def lerp(p, q, w0, w1, den):
    return ((w0 * p[0] + w1 * q[0]) / den, (w0 * p[1] + w1 * q[1]) / den)


# ------------------------------------------------------------------ recorders (downstream of the adapter)
class SegRec:
    """Plain recorder of segment-pen calls: ["M",p] ["L",p] ["C",p..] ["Q",p..] ["B",off..]
    ["Z"] ["E"] ["K",name,t]."""

    def __init__(self):
        self.calls = []

    def moveTo(self, pt):
        self.calls.append(("M", T(pt)))

    def lineTo(self, pt):
        self.calls.append(("L", T(pt)))

    def curveTo(self, *pts):
        self.calls.append(("C",) + tuple(T(p) for p in pts))

    def qCurveTo(self, *pts):
        if pts and pts[-1] is None:
            self.calls.append(("B",) + tuple(T(p) for p in pts[:-1]))
        else:
            self.calls.append(("Q",) + tuple(T(p) for p in pts))

    def closePath(self):
        self.calls.append(("Z",))

    def endPath(self):
        self.calls.append(("E",))

    def addComponent(self, glyphName, transformation, **kwargs):
        self.calls.append(("K", glyphName, tuple(transformation)))


class PtRec:
    """Plain recorder of point-pen calls: ("b", identifier) ("p", pt, type, smooth, name,
    identifier) ("e",) ("k", name, t, identifier).  Unknown keyword arguments are kept."""

    def __init__(self):
        self.calls = []

    def beginPath(self, identifier=None, **kwargs):
        self.calls.append(("b", identifier) + ((sorted(kwargs.items()),) if kwargs else ()))

    def endPath(self):
        self.calls.append(("e",))

    def addPoint(self, pt, segmentType=None, smooth=False, name=None, identifier=None, **kwargs):
        self.calls.append(("p", T(pt), segmentType, bool(smooth), name, identifier) + ((sorted(kwargs.items()),) if kwargs else ()))

    def addComponent(self, baseGlyphName, transformation, identifier=None, **kwargs):
        self.calls.append(("k", baseGlyphName, tuple(transformation), identifier) + ((sorted(kwargs.items()),) if kwargs else ()))


def feed_seg(calls, pen):
    """Deliver model calls to a real segment pen; returns the number of calls delivered."""
    n = 0
    for c in calls:
        k = c[0]
        if k == "M":
            pen.moveTo(T(c[1]))
        elif k == "L":
            pen.lineTo(T(c[1]))
        elif k == "C":
            pen.curveTo(*[T(p) for p in c[1:]])
        elif k == "Q":
            pen.qCurveTo(*[T(p) for p in c[1:]])
        elif k == "B":
            pen.qCurveTo(*([T(p) for p in c[1:]] + [None]))
        elif k == "Z":
            pen.closePath()
        elif k == "E":
            pen.endPath()
        elif k == "K":
            pen.addComponent(c[1], tuple(c[2]))
        else:
            raise ValueError(k)
        n += 1
    return n


def feed_pts(calls, pen):
    n = 0
    for c in calls:
        k = c[0]
        if k == "b":
            if c[1] is None:
                pen.beginPath()
            else:
                pen.beginPath(identifier=c[1])
        elif k == "p":
            kw = {}
            if c[5] is not None:
                kw["identifier"] = c[5]
            pen.addPoint(T(c[1]), c[2], c[3], c[4], **kw)
        elif k == "e":
            pen.endPath()
        elif k == "k":
            kw = {}
            if c[3] is not None:
                kw["identifier"] = c[3]
            pen.addComponent(c[1], tuple(c[2]), **kw)
        else:
            raise ValueError(k)
        n += 1
    return n


def norm_calls(calls):
    """JSON lists -> tuples (so that recorded and generated calls compare with ==)."""
    out = []
    for c in calls:
        out.append(tuple(tuple(x) if isinstance(x, list) else x for x in c))
    return out


# ------------------------------------------------------------------ protocol interpretation
class ProtocolError(Exception):
    pass


def interp_seg(calls):
    """Segment-pen calls -> (abstract contours, components).  Raises ProtocolError when the
    sequence is not a valid pen call sequence (an adapter must not emit such a thing)."""
    contours, comps = [], []
    cur = None  # [start, segs, pt]
    for c in calls:
        k = c[0]
        if k == "M":
            if cur is not None:
                raise ProtocolError("moveTo inside an open contour")
            cur = [T(c[1]), [], T(c[1])]
        elif k in ("L", "C", "Q"):
            if cur is None:
                raise ProtocolError("%s without moveTo" % k)
            pts = [T(p) for p in c[1:]]
            if not pts:
                raise ProtocolError("segment without points")
            n = len(pts) - 1
            if n == 0:
                seg = ("L", cur[2], pts[0])
            elif k == "Q" or n == 1:
                seg = ("Q", cur[2]) + tuple(pts)
            else:
                seg = ("C", cur[2]) + tuple(pts)
            cur[1].append(seg)
            cur[2] = pts[-1]
        elif k == "B":
            if cur is not None:
                raise ProtocolError("qCurveTo(..., None) inside a contour")
            if len(c) < 2:
                raise ProtocolError("qCurveTo(None) without off-curve points")
            cur = ["blob", [T(p) for p in c[1:]], None]
        elif k in ("Z", "E"):
            if cur is None:
                raise ProtocolError("closePath/endPath without contour")
            if cur[0] == "blob":
                # a contour without on-curve points is closed by definition
                contours.append(("b", cur[1]))
            else:
                contours.append(("c", k == "Z", cur[0], cur[1]))
            cur = None
        elif k == "K":
            if cur is not None:
                raise ProtocolError("addComponent inside a contour")
            comps.append((c[1], tuple(c[2])))
        else:
            raise ProtocolError("unknown call %r" % (k,))
    if cur is not None:
        raise ProtocolError("contour not ended")
    return contours, comps


def interp_pts(calls):
    """Point-pen calls -> (abstract contours, components), from the point-pen protocol (UFO
    GLIF contour semantics): first point 'move' = open contour; every on-curve point ends a
    segment made of the off-curve points before it (cyclically for closed contours); 'curve'
    with 0/1 off-curves is a line/quadratic; no on-curve point at all = quadratic blob."""
    contours, comps = [], []
    cur = None
    for c in calls:
        k = c[0]
        if k == "b":
            if cur is not None:
                raise ProtocolError("beginPath inside a contour")
            cur = []
        elif k == "p":
            if cur is None:
                raise ProtocolError("addPoint outside a contour")
            if c[2] not in ("move", "line", "curve", "qcurve", None):
                raise ProtocolError("bad segment type %r" % (c[2],))
            cur.append((T(c[1]), c[2]))
        elif k == "e":
            if cur is None:
                raise ProtocolError("endPath outside a contour")
            if cur:
                contours.append(_pts_contour(cur))
            cur = None
        elif k == "k":
            if cur is not None:
                raise ProtocolError("addComponent inside a contour")
            comps.append((c[1], tuple(c[2])))
        else:
            raise ProtocolError("unknown call %r" % (k,))
    if cur is not None:
        raise ProtocolError("contour not ended")
    return contours, comps


def _mkseg(tp, p0, offs, p1):
    n = len(offs)
    if tp in ("line", "move"):
        if n:
            raise ProtocolError("off-curve points before a line")
        return ("L", p0, p1)
    if n == 0:
        return ("L", p0, p1)
    if tp == "qcurve" or n == 1:
        return ("Q", p0) + tuple(offs) + (p1,)
    return ("C", p0) + tuple(offs) + (p1,)


def _pts_contour(pts):
    for i, (_p, tp) in enumerate(pts):
        if tp == "move" and i:
            raise ProtocolError("move inside a contour")
    if pts[0][1] == "move":
        start = pts[0][0]
        segs, offs, p0 = [], [], start
        for p, tp in pts[1:]:
            if tp is None:
                offs.append(p)
            else:
                segs.append(_mkseg(tp, p0, offs, p))
                offs, p0 = [], p
        if offs:
            raise ProtocolError("open contour ends with off-curve points")
        return ("c", False, start, segs)
    ons = [i for i, (_p, tp) in enumerate(pts) if tp is not None]
    if not ons:
        return ("b", [p for p, _t in pts])
    # closed: start at the last on-curve point, walk cyclically
    n = len(pts)
    first = ons[-1]
    start = pts[first][0]
    segs, offs, p0 = [], [], start
    for j in range(1, n + 1):
        p, tp = pts[(first + j) % n]
        if tp is None:
            offs.append(p)
        else:
            segs.append(_mkseg(tp, p0, offs, p))
            offs, p0 = [], p
    if len(ons) == 1 and n == 1:
        segs = []  # a single on-curve point
    return ("c", True, start, segs)


# ------------------------------------------------------------------ images of adapters on abstract contours
def amap(contours, f):
    out = []
    for c in contours:
        if c[0] == "b":
            out.append(("b", [f(p) for p in c[1]]))
        else:
            out.append(("c", c[1], f(c[2]), [(s[0],) + tuple(f(p) for p in s[1:]) for s in c[3]]))
    return out


def areverse(contours):
    """Every contour run backwards (closed contours: including their closing line)."""
    out = []
    for c in contours:
        if c[0] == "b":
            out.append(("b", list(reversed(c[1]))))
            continue
        _k, closed, start, segs = c
        segs = list(segs)
        if closed and segs and segs[-1][-1] != start:
            segs.append(("L", segs[-1][-1], start))
        rsegs = [(s[0],) + tuple(reversed(s[1:])) for s in reversed(segs)]
        nstart = rsegs[0][1] if rsegs else start
        out.append(("c", closed, nstart, rsegs))
    return out


def aclose(contours):
    """Open contours closed (glyph formats without open contours)."""
    return [c if c[0] == "b" else ("c", True, c[2], c[3]) for c in contours]


def add_components(contours, comps, glyphset_abs, reverse_flipped=False):
    """Decomposition of components: base contours mapped through the component transform."""
    out = list(contours)
    for name, t in comps:
        base = amap(glyphset_abs[name], lambda p, t=t: affine(t, p))
        if reverse_flipped and det(t) < 0:
            base = areverse(base)
        out.extend(base)
    return out


# ------------------------------------------------------------------ expansion to Bezier segments
def superbezier(p0, offs, p1):
    """Bezier segments of the clamped uniform cubic B-spline with control polygon
    p0, offs.., p1 (len(offs) >= 2), by blossoming."""
    d = [p0] + list(offs) + [p1]
    m = len(d) - 1
    s = m - 2  # number of polynomial segments
    t = [0, 0, 0] + list(range(1, s)) + [s, s, s]

    def blossom(k, u1, u2, u3):
        e = {}
        for j in range(k + 1, k + 4):
            den = t[j + 2] - t[j - 1]
            e[j] = lerp(d[j - 1], d[j], t[j + 2] - u1, u1 - t[j - 1], den)
        g = {}
        for j in range(k + 2, k + 4):
            den = t[j + 1] - t[j - 1]
            g[j] = lerp(e[j - 1], e[j], t[j + 1] - u2, u2 - t[j - 1], den)
        den = t[k + 3] - t[k + 2]
        return lerp(g[k + 2], g[k + 3], t[k + 3] - u3, u3 - t[k + 2], den)

    segs = []
    for r in range(s):
        b0 = blossom(r, r, r, r)
        b1 = blossom(r, r, r, r + 1)
        b2 = blossom(r, r, r + 1, r + 1)
        b3 = blossom(r, r + 1, r + 1, r + 1)
        segs.append(("C", b0, b1, b2, b3))
    # end points are the given ones exactly
    segs[0] = ("C", p0) + segs[0][2:]
    segs[-1] = segs[-1][:4] + (p1,)
    return segs


def _expand_seg(s, out):
    k = s[0]
    if k == "L":
        out.append(s)
    elif k == "Q":
        offs = s[2:-1]
        p0 = s[1]
        for i in range(len(offs) - 1):
            m = mid(offs[i], offs[i + 1])
            out.append(("Q", p0, offs[i], m))
            p0 = m
        out.append(("Q", p0, offs[-1], s[-1]))
    else:
        if len(s) == 5:
            out.append(s)
        else:
            out.extend(superbezier(s[1], s[2:-1], s[-1]))


def expand(contours, elevate=False):
    """-> [(closed, start, [("L"|"Q"|"C", p0, .., pn)])] with the closing line explicit.
    elevate=True writes every quadratic as the cubic of the same curve."""
    out = []
    for c in contours:
        if c[0] == "b":
            offs = c[1]
            start = mid(offs[-1], offs[0])
            segs = []
            _expand_seg(("Q", start) + tuple(offs) + (start,), segs)
            closed = True
        else:
            _k, closed, start, asegs = c
            segs = []
            for s in asegs:
                _expand_seg(s, segs)
            if closed and segs and segs[-1][-1] != start:
                segs.append(("L", segs[-1][-1], start))
        if elevate:
            segs = [_elev(s) for s in segs]
        out.append((closed, start, segs))
    return out


def _elev(s):
    if s[0] != "Q":
        return s
    _k, p0, p1, p2 = s
    c1 = (p0[0] + 2.0 * (p1[0] - p0[0]) / 3.0, p0[1] + 2.0 * (p1[1] - p0[1]) / 3.0)
    c2 = (p2[0] + 2.0 * (p1[0] - p2[0]) / 3.0, p2[1] + 2.0 * (p1[1] - p2[1]) / 3.0)
    return ("C", p0, c1, c2, p2)


def map_expanded(exp, f):
    return [(closed, f(start), [(s[0],) + tuple(f(p) for p in s[1:]) for s in segs]) for closed, start, segs in exp]


def all_closed(contours):
    return all(c[0] == "b" or c[1] for c in contours)


def explicit_points(contours):
    pts = []
    for c in contours:
        if c[0] == "b":
            pts.extend(c[1])
        else:
            pts.append(c[2])
            for s in c[3]:
                pts.extend(s[2:])
    return pts


def is_single_point(c):
    return c[0] == "c" and not c[3]


# ------------------------------------------------------------------ extrema
def _quad_roots(a, b, c):
    """real roots of a t^2 + b t + c"""
    if abs(a) < 1e-12:
        if abs(b) < 1e-12:
            return []
        return [-c / b]
    disc = b * b - 4 * a * c
    if disc < 0:
        return []
    r = math.sqrt(disc)
    return [(-b + r) / (2 * a), (-b - r) / (2 * a)]


def _seg_extent(s, axis):
    v = [p[axis] for p in s[1:]]
    vals = [v[0], v[-1]]
    if s[0] == "Q":
        den = v[0] - 2 * v[1] + v[2]
        if den:
            t = (v[0] - v[1]) / den
            if 0 < t < 1:
                vals.append((1 - t) ** 2 * v[0] + 2 * t * (1 - t) * v[1] + t * t * v[2])
    elif s[0] == "C":
        a = v[3] - 3 * v[2] + 3 * v[1] - v[0]
        b = 2 * (v[2] - 2 * v[1] + v[0])
        c = v[1] - v[0]
        for t in _quad_roots(a, b, c):
            if 0 < t < 1:
                u = 1 - t
                vals.append(u * u * u * v[0] + 3 * u * u * t * v[1] + 3 * u * t * t * v[2] + t * t * t * v[3])
    return min(vals), max(vals)


def bounds(exp, ignore_single_points=False):
    """Tight bounding box of expanded contours (None when nothing is drawn)."""
    xs, ys = [], []
    for _closed, start, segs in exp:
        if not segs:
            if not ignore_single_points:
                xs.append(start[0])
                ys.append(start[1])
            continue
        xs.append(start[0])
        ys.append(start[1])
        for s in segs:
            lo, hi = _seg_extent(s, 0)
            xs += [lo, hi]
            lo, hi = _seg_extent(s, 1)
            ys += [lo, hi]
    if not xs:
        return None
    return (min(xs), min(ys), max(xs), max(ys))


def control_bounds(exp, ignore_single_points=False):
    """Bounding box of all control points of the Bezier segments drawn (expanded contours):
    for a super-bezier these are the control points of its cubic pieces."""
    pts = []
    for _closed, start, segs in exp:
        if segs or not ignore_single_points:
            pts.append(start)
        for s in segs:
            pts.extend(s[1:])
    if not pts:
        return None
    return (min(p[0] for p in pts), min(p[1] for p in pts), max(p[0] for p in pts), max(p[1] for p in pts))


# ------------------------------------------------------------------ grammars
class SegGrammar:
    """contour := M seg{0..max_segs} (Z|E) | B Z ; seg := L | C(n offs, n<=max_off) | Q(n offs);
    glyph := (contour | K){..}, at most max_contours contours and max_comps components.
    Point budgets: a glyph of one contour may use p1 points, of more contours p2 in total, a
    glyph with a component p3.  State summary: (incontour, nsegs, ncontours, npts, ncomps)."""

    def __init__(self, lattice, p1, p2, p3, comps, max_segs=3, max_off=3, max_blob=4, max_contours=2, max_comps=1):
        self.lat = [tuple(p) for p in lattice]
        self.p1, self.p2, self.p3 = p1, p2, p3
        self.comps = comps
        self.max_segs, self.max_off, self.max_blob = max_segs, max_off, max_blob
        self.max_contours, self.max_comps = max_contours, max_comps
        self._tuples = {0: [()]}
        for k in range(1, max(max_off + 1, max_blob) + 1):
            self._tuples[k] = [t + (p,) for t in self._tuples[k - 1] for p in self.lat]

    ROOT = (False, 0, 0, 0, 0)

    def budget(self, ncont_incl_current, ncomps):
        if ncomps:
            return self.p3
        return self.p1 if ncont_incl_current <= 1 else self.p2

    def successors(self, summ):
        """-> [(call, new summary)] in simplest-first order."""
        inc, nseg, ncont, npts, ncomp = summ
        out = []
        if inc:
            out.append((("Z",), (False, 0, ncont + 1, npts, ncomp)))
            if nseg < 0:
                return out  # a contour without on-curve point is closed by definition
            out.append((("E",), (False, 0, ncont + 1, npts, ncomp)))
            if nseg < self.max_segs:
                room = self.budget(ncont + 1, ncomp) - npts
                for k in range(1, min(room, self.max_off + 1) + 1):
                    for tup in self._tuples[k]:
                        ns = (True, nseg + 1, ncont, npts + k, ncomp)
                        if k == 1:
                            out.append((("L",) + tup, ns))
                        out.append((("C",) + tup, ns))
                        out.append((("Q",) + tup, ns))
            return out
        if ncont < self.max_contours:
            room = self.budget(ncont + 1, ncomp) - npts
            if room >= 1:
                for p in self.lat:
                    out.append((("M", p), (True, 0, ncont, npts + 1, ncomp)))
            for k in range(1, min(room, self.max_blob) + 1):
                for tup in self._tuples[k]:
                    out.append((("B",) + tup, (True, -1, ncont, npts + k, ncomp)))
        if ncomp < self.max_comps and npts <= self.p3:
            for name, t in self.comps:
                out.append((("K", name, tuple(t)), (False, 0, ncont, npts, ncomp + 1)))
        return out

    @staticmethod
    def complete(summ):
        return not summ[0]

    def summary(self, calls):
        inc, nseg, ncont, npts, ncomp = self.ROOT
        for c in calls:
            k = c[0]
            if k == "M":
                inc, nseg, npts = True, 0, npts + 1
            elif k in ("L", "C", "Q"):
                nseg, npts = nseg + 1, npts + len(c) - 1
            elif k == "B":
                inc, nseg, npts = True, -1, npts + len(c) - 1
            elif k in ("Z", "E"):
                inc, nseg, ncont = False, 0, ncont + 1
            elif k == "K":
                ncomp += 1
        return (inc, nseg, ncont, npts, ncomp)


PT_TYPES = ("line", "curve", "qcurve", None)


class PtGrammar:
    """contour := b point* e ; point := p(pt, type, smooth, name, identifier).  Valid contours
    only: 'move' first (open contour, must end on-curve); no off-curve before 'line'; at most
    max_off off-curves per segment (cyclically); at most max_on segments; contours without
    on-curve points of 1..max_blob points; empty contours; single points of any type.
    Attributes (smooth/name/identifier) follow a fixed per-glyph `style`.
    Summary: (incontour, ncontours, npts, ncomps, open, ftype, lead, run, non, nin) where ftype
    is the type of the first on-curve point of a closed contour, lead the number of off-curves
    before it, run the off-curves since the last on-curve, non the number of segments."""

    def __init__(self, lattice, p1, p2, p3, comps, style=0, max_off=3, max_on=3, max_blob=4, max_contours=2, max_comps=1):
        self.lat = [tuple(p) for p in lattice]
        self.p1, self.p2, self.p3 = p1, p2, p3
        self.comps = comps
        self.style = style
        self.max_off, self.max_on, self.max_blob = max_off, max_on, max_blob
        self.max_contours, self.max_comps = max_contours, max_comps

    ROOT = (False, 0, 0, 0, False, "", 0, 0, 0, 0)

    def budget(self, ncont_incl_current, ncomps):
        if ncomps:
            return self.p3
        return self.p1 if ncont_incl_current <= 1 else self.p2

    def attrs(self, idx, tp):
        st = self.style
        if st == 0:
            return (False, None, None)
        if st == 1:
            return (tp is not None, "n%d" % idx, "i%d" % idx)
        return (tp is not None and idx % 2 == 0, "n%d" % idx if idx % 2 == 0 else None, "i%d" % idx if idx % 2 else None)

    def cident(self, ncont):
        return None if self.style == 0 else "c%d" % ncont

    def can_end(self, summ):
        _inc, _ncont, _npts, _ncomp, opn, ftype, lead, run, non, nin = summ
        if nin == 0:
            return True
        if opn:
            return run == 0
        if non == 0:
            return nin <= self.max_blob
        wrap = run + lead
        if wrap == 0:
            return True
        return ftype != "line" and wrap <= self.max_off

    def _types(self, summ):
        _inc, _ncont, _npts, _ncomp, opn, ftype, lead, run, non, nin = summ
        if nin == 0:
            return ["move", "line", "curve", "qcurve", None]
        types = []
        for tp in PT_TYPES:
            if tp is None:
                if non == 0 and not opn:
                    if lead + 1 <= max(self.max_off, self.max_blob):
                        types.append(tp)
                elif run + 1 <= self.max_off:
                    types.append(tp)
            else:
                if non >= self.max_on:
                    continue
                if non == 0 and not opn:
                    if lead > self.max_off or (tp == "line" and lead > 0):
                        continue
                elif tp == "line" and run > 0:
                    continue
                types.append(tp)
        return types

    def successors(self, summ):
        inc, ncont, npts, ncomp, opn, ftype, lead, run, non, nin = summ
        out = []
        if inc:
            if self.can_end(summ):
                out.append((("e",), (False, ncont + 1, npts, ncomp, False, "", 0, 0, 0, 0)))
            if self.budget(ncont + 1, ncomp) - npts < 1:
                return out
            for tp in self._types(summ):
                sm, nm, idn = self.attrs(npts, tp)
                if tp == "move":
                    ns = (True, ncont, npts + 1, ncomp, True, "", 0, 0, 0, 1)
                elif tp is None:
                    if non == 0 and not opn:
                        ns = (True, ncont, npts + 1, ncomp, opn, "", lead + 1, 0, 0, nin + 1)
                    else:
                        ns = (True, ncont, npts + 1, ncomp, opn, ftype, lead, run + 1, non, nin + 1)
                else:
                    nf = ftype if (non or opn) else tp
                    ns = (True, ncont, npts + 1, ncomp, opn, nf, lead, 0, non + 1, nin + 1)
                for p in self.lat:
                    out.append((("p", p, tp, sm, nm, idn), ns))
            return out
        if ncont < self.max_contours:
            out.append((("b", self.cident(ncont)), (True, ncont, npts, ncomp, False, "", 0, 0, 0, 0)))
        if ncomp < self.max_comps and npts <= self.p3:
            for name, t in self.comps:
                out.append((("k", name, tuple(t), None if self.style == 0 else "k0"), (False, ncont, npts, ncomp + 1, False, "", 0, 0, 0, 0)))
        return out

    @staticmethod
    def complete(summ):
        return not summ[0]

    def summary(self, calls):
        summ = self.ROOT
        for c in calls:
            c = tuple(tuple(x) if isinstance(x, list) else x for x in c)
            for call, ns in self.successors(summ):
                if call == c:
                    summ = ns
                    break
            else:
                raise ValueError("call %r not in the grammar after %r" % (c, summ))
        return summ
