"""C19 helpers: hostile name alphabet and file-name legality predicates.

The predicates are written from the UFO 3 "conventions" page (user name -> file name) and
the Microsoft "naming a file" rules it refers to; they do not import the constants of the
code under test.
"""

# ---------------------------------------------------------------- legality (from the spec)
# UFO 3 conventions: illegal characters  " * + / : < > ? [ \ ] | NUL, 0x01..0x1F, 0x7F
SPEC_ILLEGAL = set('"*+/:<>?[\\]|') | {chr(i) for i in range(0, 32)} | {chr(0x7F)}
# the ufoLib module additionally documents "(" and ")" "as per the specification"
UFO_ILLEGAL = SPEC_ILLEGAL | set("()")
# reserved DOS device names listed by the UFO 3 conventions
SPEC_RESERVED = {"con", "prn", "aux", "clock$", "nul", "com1", "com2", "com3", "com4", "lpt1", "lpt2", "lpt3"}
# Microsoft's list goes up to COM9 / LPT9; ufoLib documents the longer list
UFO_RESERVED = SPEC_RESERVED | {"com%d" % i for i in range(5, 10)} | {"lpt%d" % i for i in range(4, 10)}
MAX_LEN = 255

FLAVOURS = {
    # flavour -> (illegal characters, reserved names) the module promises to avoid
    "ufoLib": (UFO_ILLEGAL, UFO_RESERVED),
    "misc": (SPEC_ILLEGAL, SPEC_RESERVED),
}


def illegal_reasons(fileName, flavour="ufoLib", prefix="", suffix=""):
    """List of reasons why `fileName` is not a legal file name ([] = legal).

    prefix/suffix are fixed strings chosen by the caller of userNameToFileName (for instance
    "glyphs." and ".glif"); reserved-name checking applies to every dot separated part of the
    whole name, illegal characters only to the generated part (the caller owns the affixes).
    """
    illegal, reserved = FLAVOURS[flavour]
    out = []
    if len(fileName) > MAX_LEN:
        out.append("too-long")
    body = fileName
    if prefix and body.startswith(prefix):
        body = body[len(prefix):]
    if suffix and body.endswith(suffix):
        body = body[: len(body) - len(suffix)]
    if any(c in illegal for c in body):
        out.append("illegal-char")
    if any(part.lower() in reserved for part in body.split(".")):
        out.append("reserved-part")
    if not fileName:
        out.append("empty")
    return out


def name_shape(userName, flavour="ufoLib"):
    """Input-shape class of a user name (used for stable violation keys)."""
    _, reserved = FLAVOURS[flavour]
    shapes = []
    if any(p.lower() in reserved for p in userName.split(".")):
        shapes.append("reserved-part")
    if len(userName) >= 200:
        shapes.append("long")
    return "+".join(shapes) or "plain"


# ---------------------------------------------------------------- hostile alphabet
LONG_LOWER = "abcdefghij" * 25  # 250 characters, lower case
LONG_UPPER = "ABCDEFGHIJKLM" * 10  # 130 upper case characters -> 260 after "_" insertion

# names usable as glyph / layer names (valid XML attribute values, no control characters)
FS_NAMES = [
    "a",
    "A",
    "A_",
    "a.alt",
    "con",
    "CON",
    ".notdef",
    "aux.x",
    LONG_LOWER,  # exactly fills 255 with ".glif"
    LONG_LOWER + "x",  # clipped: clashes with the previous one
    LONG_UPPER,
    LONG_UPPER[:-1] + "Z",  # differs only after the clip point
    "a_",  # differs from the file name of "A" only by case
    "a/B",
    "a:B",  # same file name as a/B
    "a*B",  # third name of the clash class: the counter itself must be compared ignoring case
    "İ",  # LATIN CAPITAL LETTER I WITH DOT ABOVE: lower() is two code points
    "\U0001d49c",  # astral
    "a" * 246 + ".con",  # reserved part ending exactly at the clip boundary of ".glif"
]
# names only usable with the bare functions (control characters)
CTRL_NAMES = ["a\x00b", "a\x1fb", "\x7f", "a\tb\n"]

# core alphabet for the deeper histories: one representative per interaction class
CORE_NAMES = ["a", "A", "a_", "con", "a/B", "a:B", "a*B", LONG_LOWER, LONG_LOWER + "x"]


def boundary_names(prefix_len, suffix_len):
    """Names whose filtered form ends within +-2 characters of the clip point, with and
    without a reserved last part / an upper-case last character."""
    room = MAX_LEN - prefix_len - suffix_len
    out = []
    for d in (-2, -1, 0, 1, 2):
        n = room + d
        if n < 6:
            continue
        out.append("b" * n)
        out.append("b" * (n - 4) + ".con")
        out.append("b" * (n - 5) + ".lpt1")
        out.append("b" * (n - 1) + "B")
        out.append("b" * (n - 4) + ".alt")
    return out


def short(name, n=24):
    """Printable abbreviation of a name for messages."""
    r = repr(name)
    return r if len(r) <= n + 10 else "%s...%s(len %d)" % (r[: n // 2 + 1], r[-n // 2 :], len(name))
