"""C19 helpers: glyph records (JSON-able specs), objects to hand to glifLib, a recording
point pen, and the expected read-back of a record per GLIF format (written from the GLIF 1 /
GLIF 2 specification, not from glifLib).

A record is a dict with optional keys
    width, height, unicodes, note, image, guidelines, anchors, lib, outline
outline is None (no drawing function at all) or a list of
    ["contour", identifier|None, [[x, y, segmentType|None, smooth, name|None, identifier|None], ...]]
    ["component", base, [xx, xy, yx, yy, dx, dy], identifier|None]
"""
import datetime

IDENTITY = [1, 0, 0, 1, 0, 0]
TRANSFORM_KEYS = ["xScale", "xyScale", "yxScale", "yScale", "xOffset", "yOffset"]


class GlyphObj:
    """Plain attribute holder."""


def lib_value(spec):
    """Specs are JSON: decode the two plist types JSON cannot carry."""
    if isinstance(spec, dict):
        if set(spec) == {"__date__"}:
            return datetime.datetime(*spec["__date__"])
        if set(spec) == {"__data__"}:
            return bytes.fromhex(spec["__data__"])
        return {k: lib_value(v) for k, v in spec.items()}
    if isinstance(spec, list):
        return [lib_value(v) for v in spec]
    return spec


def make_glyph(rec):
    g = GlyphObj()
    for k in ("width", "height", "unicodes", "note"):
        if k in rec:
            setattr(g, k, rec[k] if not isinstance(rec[k], list) else list(rec[k]))
    if "image" in rec:
        g.image = dict(rec["image"])
    if "guidelines" in rec:
        g.guidelines = [dict(x) for x in rec["guidelines"]]
    if "anchors" in rec:
        g.anchors = [dict(x) for x in rec["anchors"]]
    if "lib" in rec:
        g.lib = lib_value(rec["lib"])
    return g


def make_draw(rec):
    outline = rec.get("outline")
    if outline is None:
        return None

    def drawPoints(pen):
        for el in outline:
            if el[0] == "contour":
                _, ident, pts = el
                pen.beginPath(identifier=ident)
                for x, y, seg, smooth, name, pid in pts:
                    pen.addPoint((x, y), segmentType=seg, smooth=smooth, name=name, identifier=pid)
                pen.endPath()
            else:
                _, base, t, ident = el
                pen.addComponent(base, tuple(t), identifier=ident)

    return drawPoints


class RecPen:
    """Records point-pen calls in the spec notation."""

    def __init__(self):
        self.out = []
        self.cur = None

    def beginPath(self, identifier=None, **kw):
        self.cur = ["contour", identifier, []]

    def addPoint(self, pt, segmentType=None, smooth=False, name=None, identifier=None, **kw):
        self.cur[2].append([pt[0], pt[1], segmentType, bool(smooth), name, identifier])

    def endPath(self):
        self.out.append(self.cur)
        self.cur = None

    def addComponent(self, baseGlyphName, transformation, identifier=None, **kw):
        self.out.append(["component", baseGlyphName, list(transformation), identifier])


def read_back(readfunc):
    """readfunc(glyphObject, pointPen) -> observed dict in record notation."""
    g = GlyphObj()
    pen = RecPen()
    readfunc(g, pen)
    obs = dict(g.__dict__)
    obs["outline"] = pen.out
    return obs


def dedup(seq):
    out = []
    for x in seq:
        if x not in out:
            out.append(x)
    return out


def expected(rec, fmt, name=None):
    """What a reader must return for `rec` written in GLIF format `fmt` (1 or 2)."""
    exp = {}
    if name is not None:
        exp["name"] = name
    w, h = rec.get("width", 0) or 0, rec.get("height", 0) or 0
    if w or h:
        # GLIF: <advance> carries both, a missing attribute means 0
        exp["width"], exp["height"] = w, h
    if rec.get("unicodes"):
        exp["unicodes"] = dedup(rec["unicodes"])  # "the first occurrence counts"
    if rec.get("note"):
        exp["note"] = rec["note"]
    if rec.get("lib"):
        exp["lib"] = lib_value(rec["lib"])
    outline = rec.get("outline")
    exp_outline = []
    anchors = rec.get("anchors") or []
    if fmt >= 2:
        if rec.get("image"):
            img = dict(rec["image"])
            for k, d in zip(TRANSFORM_KEYS, IDENTITY):
                img.setdefault(k, d)
            exp["image"] = img
        if rec.get("guidelines"):
            exp["guidelines"] = [dict(g) for g in rec["guidelines"]]
        if anchors:
            exp["anchors"] = [dict(a) for a in anchors]
        for el in outline or []:
            exp_outline.append(_copy_el(el, keep_ids=True))
    else:
        # GLIF 1: no image, guidelines, identifiers; anchors are one-point "move" contours
        # with a name, stored in the outline
        for el in outline or []:
            exp_outline.append(_copy_el(el, keep_ids=False))
        if anchors:
            # (also when no drawing function is given: the anchors are glyph data all the same)
            exp["anchors"] = [{"x": a["x"], "y": a["y"], "name": a["name"]} for a in anchors]
    exp["outline"] = exp_outline
    return exp


def _copy_el(el, keep_ids):
    if el[0] == "contour":
        return ["contour", el[1] if keep_ids else None,
                [[x, y, seg, bool(sm), nm, (pid if keep_ids else None)] for x, y, seg, sm, nm, pid in el[2]]]
    return ["component", el[1], list(el[2]), el[3] if keep_ids else None]


def note_tokens(s):
    return s.split()


def note_is_plain(s):
    """Single line, no leading/trailing blanks: must come back verbatim."""
    return "\n" not in s and "\r" not in s and s == s.strip()


def diff(obs, exp):
    """First difference between observed and expected read-back, or None.

    Numbers compare by value (the GLIF text "500" and "500.0" both denote the number),
    bool never equals int, notes compare verbatim when single-line and modulo white space
    otherwise (GLIF indents the element text)."""
    keys = sorted(set(obs) | set(exp))
    for k in keys:
        if k not in exp:
            if k in ("width", "height") and obs[k] == 0:
                continue
            return "unexpected attribute %s=%r" % (k, obs[k])
        if k not in obs:
            return "attribute %s missing (expected %r)" % (k, exp[k])
        if k == "note":
            if note_is_plain(exp[k]):
                if obs[k] != exp[k]:
                    return "note %r != %r" % (obs[k], exp[k])
            elif note_tokens(obs[k]) != note_tokens(exp[k]):
                return "note %r != %r modulo white space" % (obs[k], exp[k])
            continue
        d = vdiff(obs[k], exp[k], k)
        if d:
            return d
    return None


def vdiff(a, b, path=""):
    if isinstance(b, bool) or isinstance(a, bool):
        if type(a) is not type(b) or a != b:
            return "%s: %r != %r" % (path, a, b)
        return None
    if isinstance(b, (int, float)) and isinstance(a, (int, float)):
        return None if a == b else "%s: %r != %r" % (path, a, b)
    if isinstance(b, dict):
        if not isinstance(a, dict) or set(a) != set(b):
            return "%s: keys %r != %r" % (path, sorted(a) if isinstance(a, dict) else a, sorted(b))
        for k in sorted(b):
            d = vdiff(a[k], b[k], "%s.%s" % (path, k))
            if d:
                return d
        return None
    if isinstance(b, (list, tuple)):
        if not isinstance(a, (list, tuple)) or len(a) != len(b):
            return "%s: %r != %r" % (path, a, b)
        for i, (x, y) in enumerate(zip(a, b)):
            d = vdiff(x, y, "%s[%d]" % (path, i))
            if d:
                return d
        return None
    if type(a) is not type(b) or a != b:
        return "%s: %r != %r" % (path, a, b)
    return None


# ---------------------------------------------------------------- the three history records
RICH = {
    "width": 500,
    "height": 12.5,
    "unicodes": [0x41, 0x1F600, 0x41],
    "note": "rich & <glyph> \"note\"",
    "image": {"fileName": "img 1.png", "xScale": 0.5, "yOffset": -3, "color": "1,0,0,0.5"},
    "guidelines": [
        {"x": 10, "name": "g<1>", "identifier": "guide1"},
        {"y": -20.5, "color": "0,0,1,1"},
        {"x": 1, "y": 2, "angle": 45.5, "identifier": "guide2"},
    ],
    "anchors": [
        {"x": 250, "y": 700, "name": "top", "color": "0,1,0,1", "identifier": "anchor1"},
        {"x": 0.5, "y": -10, "name": "bo&ttom"},
    ],
    "lib": {
        "com.example.int": 3,
        "com.example.nested": {"list": [1, 2.5, True, "s<&>", {"__data__": "00ff10"}, {"__date__": [2020, 1, 2, 3, 4, 5]}], "empty": {}, "el": []},
        "public.markColor": "1,0,0,1",
    },
    "outline": [
        ["contour", "c1", [
            [0, 0, "move", False, None, "p1"],
            [100, 0, "line", False, "named", None],
            [150, 50.5, None, False, None, None],
            [150, 100, None, False, None, None],
            [100, 150, "curve", True, None, "p2"],
        ]],
        ["contour", None, [
            [0, 0, "line", False, None, None],
            [10, 20, None, False, None, None],
            [30, 40, None, False, None, None],
            [50, 0, "qcurve", True, None, None],
            [60, 0, "curve", False, None, None],
        ]],
        ["contour", None, [[1, 1, None, False, None, None], [2, 2, None, False, None, None], [3, 1, None, False, None, None]]],
        ["component", "a", [1, 0, 0, 1, 0, 0], None],
        ["component", "b.alt", [0.5, 0.25, -0.25, 2, 10, -20.5], "comp1"],
    ],
}
EMPTY = {}
ADVANCE = {"width": 600}
HISTORY_RECORDS = [RICH, EMPTY, ADVANCE]
