"""Exact (fractions.Fraction) reference models for C09, written from the OpenType
specification (OTVar overview "Algorithm for interpolation of instance values", fvar/avar
normalisation, gvar "Inferred deltas for un-referenced point numbers").

Nothing here imports fontTools.  Every function takes and returns Fractions (ints are fine);
floats handed in are converted *exactly* (Fraction(float)), never rounded.
"""
from fractions import Fraction as F

ZERO = F(0)
ONE = F(1)


def fr(x):
    """Exact conversion of int/float/Fraction to Fraction."""
    return x if isinstance(x, F) else F(x)


# --------------------------------------------------------------------- region scalars
def axis_scalar(v, start, peak, end):
    """Per-axis scalar of the OpenType variation overview (the 'tent').

    Generic in the number type: with Fraction arguments the result is exact (the constant
    branches return the ints 1 / 0), with float arguments it is the same text in floats.
    Do not pass plain ints for all four arguments (int / int would be a float).

    spec: if start > peak or peak > end: 1;  if start < 0 and end > 0 and peak != 0: 1;
    if peak == 0: 1;  if v < start or v > end: 0;  if v == peak: 1;
    if v < peak: (v - start) / (peak - start) else (end - v) / (end - peak).
    """
    if start > peak or peak > end:
        return 1
    if start < 0 and end > 0 and peak != 0:
        return 1
    if peak == 0:
        return 1
    if v < start or v > end:
        return 0
    if v == peak:
        return 1
    if v < peak:
        return (v - start) / (peak - start)
    return (end - v) / (end - peak)


def region_scalar(loc, region):
    """Product of the per-axis scalars.  `loc`: axis -> coordinate (missing = 0),
    `region`: axis -> (start, peak, end); axes missing from the region do not take part."""
    s = ONE
    for axis in sorted(region):
        start, peak, end = (fr(x) for x in region[axis])
        s *= axis_scalar(fr(loc.get(axis, ZERO)), start, peak, end)
        if s == 0:
            return ZERO
    return s


def eval_deltas(loc, regions, deltas):
    """Sum of delta * region scalar (the instance value minus the default value)."""
    v = ZERO
    for region, d in zip(regions, deltas):
        if d == 0:
            continue
        s = region_scalar(loc, region)
        if s != 0:
            v += d * s
    return v


def solve_deltas(locations, regions, masters):
    """Deltas d_k such that sum_k d_k * scalar(region_k, location_i) == masters_i, assuming
    the triangular structure a variation model promises (region_k is 0 at locations i < k
    and 1 at location k).  locations/regions/masters are in *model order*.  Returns the
    deltas; the caller verifies the promise by evaluating (see check in the engine)."""
    deltas = []
    for i, loc in enumerate(locations):
        d = fr(masters[i])
        for j in range(i):
            s = region_scalar(loc, regions[j])
            if s != 0:
                d -= deltas[j] * s
        deltas.append(d)
    return deltas


# --------------------------------------------------------------------- normalisation
def normalize_value(v, lower, default, upper, clamp=True):
    """fvar default normalisation: clamp to [min,max]; (v-def)/(def-min) below the
    default, (v-def)/(max-def) above, 0 at the default."""
    if clamp:
        v = max(min(v, upper), lower)
    if v == default:
        return ZERO
    if v < default:
        return (v - default) / (default - lower)
    return (v - default) / (upper - default)


def piecewise_linear(v, mapping):
    """avar segment map through the points of `mapping` (dict k -> value); outside the
    outermost keys the map continues with slope 1 (fontTools' documented convention)."""
    if not mapping:
        return v
    if v in mapping:
        return mapping[v]
    ks = sorted(mapping)
    if v < ks[0]:
        return v + mapping[ks[0]] - ks[0]
    if v > ks[-1]:
        return v + mapping[ks[-1]] - ks[-1]
    for a, b in zip(ks, ks[1:]):
        if a < v < b:
            return mapping[a] + (mapping[b] - mapping[a]) * (v - a) / (b - a)
    raise AssertionError("unreachable")


def renormalize(v, new_min, new_def, new_max, dist_neg=ONE, dist_pos=ONE):
    """New normalised coordinate of the old normalised coordinate `v`, new_min <= v <= new_max,
    when the axis is restricted to [new_min, new_max] with default new_def (all in old
    normalised units).

    Derivation from fvar: old normalised coordinates are linear in user space on each side
    of the old default, user = v * dist_pos for v >= 0, v * dist_neg for v < 0 (dist_* =
    user-space length of each half of the old axis).  The new axis record has user-space
    (min, default, max) = (u(new_min), u(new_def), u(new_max)); normalise against it.
    Outside [new_min, new_max] nothing is defined (instances are clamped to the axis)."""
    assert new_min <= v <= new_max

    def user(x):
        return x * dist_pos if x >= 0 else x * dist_neg

    u, umin, udef, umax = user(v), user(new_min), user(new_def), user(new_max)
    if u == udef:
        return ZERO
    if u > udef:
        return (u - udef) / (umax - udef)
    return (u - udef) / (udef - umin)


# --------------------------------------------------------------------- IUP
def _iup_axis(x, x1, d1, x2, d2):
    """Inferred delta along one axis for a point with coordinate x between the reference
    points (x1, d1) and (x2, d2)  (gvar: 'Inferred deltas for un-referenced point numbers')."""
    if x1 == x2:
        return d1 if d1 == d2 else 0
    if x1 > x2:
        x1, x2, d1, d2 = x2, x1, d2, d1
    if x <= x1:
        return d1
    if x >= x2:
        return d2
    return d1 + F((d2 - d1) * (x - x1), (x2 - x1))


def iup_contour(deltas, coords):
    """deltas: list of (dx, dy) or None; coords: list of (x, y); numbers are ints or
    Fractions (never floats).  One closed contour."""
    n = len(coords)
    ref = [i for i in range(n) if deltas[i] is not None]
    if not ref:
        return [(0, 0)] * n
    out = []
    for i in range(n):
        if deltas[i] is not None:
            out.append((deltas[i][0], deltas[i][1]))
            continue
        # nearest referenced point before and after i, cyclically
        p = next(j % n for j in range(i - 1, i - 1 - n, -1) if deltas[j % n] is not None)
        q = next(j % n for j in range(i + 1, i + 1 + n) if deltas[j % n] is not None)
        out.append(
            tuple(
                _iup_axis(coords[i][a], coords[p][a], deltas[p][a], coords[q][a], deltas[q][a])
                for a in (0, 1)
            )
        )
    return out


def iup_outline(deltas, coords, ends):
    """ends: last point index of each real contour; the 4 trailing phantom points are each
    their own one-point contour."""
    n = len(coords)
    out, start = [], 0
    for end in list(ends) + [n - 4, n - 3, n - 2, n - 1]:
        out.extend(iup_contour(deltas[start : end + 1], coords[start : end + 1]))
        start = end + 1
    return out


def dist2(a, b):
    """Squared Euclidean distance (exact; ints or Fractions)."""
    return (a[0] - b[0]) ** 2 + (a[1] - b[1]) ** 2
