"""C20 helper: canaries and the audit-hook monitor.

One `sys.addaudithook` per process (hooks cannot be removed); it only records while a `Watch`
is active.  A canary is a piece of text that *would* do something observable if it were ever
evaluated as Python: create a directory / file at a path P that nothing else uses, or run a
code object that carries the marker string as a constant.

Recorded as execution:
  * audit event `exec` (exec()/eval() of a code object) whose constants hold the marker;
  * audit events os.mkdir / open / os.system / subprocess.Popen / os.exec* / os.spawn* /
    os.posix_spawn / os.remove / os.rename whose path argument is exactly P;
  * P exists afterwards.
`compile` events whose source holds the marker are only counted: ast.literal_eval() parses
its argument through compile(..., PyCF_ONLY_AST), which is how a value is *refused*.
"""
import os
import sys
import tempfile

MARK = "C20CANARY"

_state = {"on": False, "path": None, "events": [], "compiles": 0}
_installed = False


def _code_has_marker(code, depth=0):
    try:
        for c in code.co_consts:
            if isinstance(c, str) and MARK in c:
                return True
            if isinstance(c, bytes) and MARK.encode() in c:
                return True
            if hasattr(c, "co_consts") and depth < 8 and _code_has_marker(c, depth + 1):
                return True
            if isinstance(c, (tuple, frozenset)) and any(isinstance(x, str) and MARK in x for x in c):
                return True
    except Exception:
        pass
    return False


_PATH_EVENTS = ("os.mkdir", "open", "os.system", "subprocess.Popen", "os.exec", "os.spawn", "os.posix_spawn",
                "os.remove", "os.rename", "os.rmdir", "os.chmod", "os.truncate", "shutil.rmtree", "os.symlink", "os.link")


def _hook(event, args):
    st = _state
    if not st["on"]:
        return
    try:
        if event == "exec":
            if _code_has_marker(args[0]):
                st["events"].append("exec of a code object holding the canary")
        elif event == "compile":
            src = args[0]
            if isinstance(src, bytes):
                src = src.decode("utf-8", "replace")
            if isinstance(src, str) and MARK in src:
                st["compiles"] += 1
        elif event in _PATH_EVENTS:
            p = st["path"]
            for a in args[:2]:
                if isinstance(a, bytes):
                    a = a.decode("utf-8", "replace")
                if isinstance(a, str) and p and (a == p or os.path.normpath(a) == p):
                    st["events"].append("%s on the canary path" % event)
                elif event in ("os.system",) and isinstance(a, str) and MARK in a:
                    st["events"].append("%s with the canary" % event)
                elif isinstance(a, (list, tuple)) and any(isinstance(x, str) and MARK in x for x in a):
                    st["events"].append("%s with the canary" % event)
    except Exception:
        pass


def install():
    global _installed
    if not _installed:
        sys.addaudithook(_hook)
        _installed = True


_BASE = None
_COUNT = [0]


def base_dir():
    """one scratch directory per run, made by the first caller (the parent, in setup(), so that
    the forked workers share it) and removed when that process exits."""
    global _BASE
    if _BASE is None or not os.path.isdir(_BASE[0]):
        import atexit
        import shutil

        # a name of fixed length made of digits only: the canary text (which holds the path)
        # must have the same shape in every run, or readers that look at its characters
        # (base64, hex data) would take different branches from run to run
        d = None
        for n in range(1, 100000000):
            cand = os.path.join(tempfile.gettempdir(), "c20-%08d" % n)
            try:
                os.mkdir(cand, 0o700)
                d = cand
                break
            except FileExistsError:
                continue
        owner = os.getpid()
        _BASE = (d, owner)

        def _clean():
            if os.getpid() == owner:
                shutil.rmtree(d, ignore_errors=True)

        atexit.register(_clean)
    return _BASE[0]


class Watch:
    """with Watch() as w: ... run the library on text built from w.canaries() ...
    afterwards w.executed is the list of observations that mean "the value was executed"."""

    def __init__(self):
        install()
        _COUNT[0] += 1
        self.path = os.path.join(base_dir(), "%s_%07d_%07d" % (MARK, os.getpid() % 10000000, _COUNT[0] % 10000000))
        self.executed = []
        self.compiles = 0

    def canaries(self):
        P = self.path
        return canaries(P)

    def __enter__(self):
        _state["path"] = self.path
        _state["events"] = []
        _state["compiles"] = 0
        _state["on"] = True
        return self

    def __exit__(self, *a):
        _state["on"] = False
        self.executed = list(_state["events"])
        self.compiles = _state["compiles"]
        if os.path.lexists(self.path):
            self.executed.append("the canary path exists afterwards")
            try:
                if os.path.isdir(self.path) and not os.path.islink(self.path):
                    os.rmdir(self.path)
                else:
                    os.unlink(self.path)
            except Exception:
                pass
        return False


CANARY_NAMES = ("mkdir", "open-w", "subclasses", "paren-bomb", "dq-breakout", "sq-breakout", "tdq-breakout", "tsq-breakout")


def canaries(P):
    """whitespace-free (so that str.split() keeps each one whole)"""
    return {
        "mkdir": "__import__('os').mkdir('%s')" % P,
        "open-w": "open('%s','w')" % P,
        "subclasses": "().__class__.__base__.__subclasses__()and'%s'" % MARK,
        "paren-bomb": "(" * 200 + "'%s'" % MARK + ")" * 200,
        # break out of a value that the reader wraps in quotes before evaluating it
        "dq-breakout": "\"+__import__('os').mkdir('%s')+\"" % P,
        "sq-breakout": "'+__import__('os').mkdir('%s')+'" % P,
        "tdq-breakout": '"""+__import__(\'os\').mkdir(\'%s\')+"""' % P,
        "tsq-breakout": "'''+__import__('os').mkdir('%s')+'''" % P,
    }


def self_test():
    """the monitor must see a real evaluation (used as a required witness)."""
    seen = []
    for name in ("mkdir", "open-w", "subclasses", "paren-bomb"):
        w = Watch()
        with w:
            try:
                r = eval(w.canaries()[name])  # noqa: S307  deliberately the thing that must be seen
                if hasattr(r, "close"):
                    r.close()
            except Exception:
                pass
        if w.executed:
            seen.append(name)
    w = Watch()
    with w:
        import ast

        try:
            ast.literal_eval(w.canaries()["mkdir"])
        except Exception:
            pass
    return seen, (not w.executed and w.compiles > 0)
