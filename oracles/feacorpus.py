"""The corpus feature files (Tests/feaLib/data/*.fea) with the glyph set the test-suite uses."""
from mc import env

import importlib.util
import os

DATA = os.path.join(env.REPO, "Tests", "feaLib", "data")
_mod = None


def _testmod():
    global _mod
    if _mod is None:
        spec = importlib.util.spec_from_file_location("_fea_builder_test", os.path.join(env.REPO, "Tests", "feaLib", "builder_test.py"))
        _mod = importlib.util.module_from_spec(spec)
        spec.loader.exec_module(_mod)
    return _mod


def fea_files():
    """[(name, path)] of the feature files the test-suite compiles successfully."""
    m = _testmod()
    out = []
    for name in m.BuilderTest.TEST_FEATURE_FILES:
        p = os.path.join(DATA, name + ".fea")
        if os.path.exists(p):
            out.append((name, p))
    return out


def make_font(name=""):
    m = _testmod()
    font = m.makeTTFont()
    if name.startswith("variable_"):
        from fontTools.fontBuilder import addFvar
        from fontTools.ttLib import newTable

        font["name"] = newTable("name")
        addFvar(font, m.BuilderTest.VARFONT_AXES, [])
        del font["name"]
    return font


def glyph_order():
    return make_font().getGlyphOrder()
