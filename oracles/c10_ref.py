"""Exact (fractions.Fraction) references for C10, written from the OpenType specification
(fvar normalisation, avar segment maps, item variation store / tuple "tent" scalars) and from
the designspace format description (axis <map> = piecewise linear user -> design).

Nothing here imports fontTools.  Floats handed in are converted exactly (Fraction(float)).
"""
from fractions import Fraction as F

Q14 = F(1, 16384)


def fr(x):
    return x if isinstance(x, F) else F(x)


# ------------------------------------------------------------------ designspace axis maps
def pl_forward(knots, u):
    """user -> design through the axis <map> (list of (user, design)); identity if empty.
    Outside the knot range the end offset is kept (only used inside the axis range)."""
    u = fr(u)
    if not knots:
        return u
    ks = sorted((fr(a), fr(b)) for a, b in knots)
    for a, b in ks:
        if a == u:
            return b
    if u < ks[0][0]:
        return u + ks[0][1] - ks[0][0]
    if u > ks[-1][0]:
        return u + ks[-1][1] - ks[-1][0]
    for (a0, b0), (a1, b1) in zip(ks, ks[1:]):
        if a0 < u < a1:
            return b0 + (b1 - b0) * (u - a0) / (a1 - a0)
    raise AssertionError("unreachable")


def pl_backward(knots, d):
    """design -> user: inverse of pl_forward for a non-decreasing map.  Returns None when the
    design value is not reached inside the knot range (caller decides)."""
    d = fr(d)
    if not knots:
        return d
    ks = sorted((fr(a), fr(b)) for a, b in knots)
    for a, b in ks:
        if b == d:
            return a
    for (a0, b0), (a1, b1) in zip(ks, ks[1:]):
        if b0 < d < b1:
            return a0 + (a1 - a0) * (d - b0) / (b1 - b0)
    return None


def normalize(v, lo, df, hi):
    """OpenType default normalisation of a (clamped) value against (min, default, max)."""
    v, lo, df, hi = fr(v), fr(lo), fr(df), fr(hi)
    v = max(lo, min(hi, v))
    if v < df:
        return -(df - v) / (df - lo)
    if v > df:
        return (v - df) / (hi - df)
    return F(0)


def ds_user_to_norm(axis, u):
    """Designspace meaning of a user value: normalised *design* coordinate.
    axis = dict(min, default, max, map)."""
    m = axis["map"]
    d = pl_forward(m, u)
    return normalize(d, pl_forward(m, axis["min"]), pl_forward(m, axis["default"]), pl_forward(m, axis["max"]))


def ds_design_to_norm(axis, d):
    m = axis["map"]
    return normalize(d, pl_forward(m, axis["min"]), pl_forward(m, axis["default"]), pl_forward(m, axis["max"]))


# ------------------------------------------------------------------ font side: fvar + avar
def q14(x):
    """Round a normalised coordinate to the 2.14 grid (round half up, as the spec's
    fixed-point conversion)."""
    x = fr(x) * 16384
    n = (x + F(1, 2)).__floor__()
    return F(n, 16384)


def avar_map(segment, x):
    """avar segment map (dict from -> to, 2.14 values) applied to a normalised coordinate."""
    x = fr(x)
    if not segment:
        return x
    ks = sorted((fr(a), fr(b)) for a, b in segment.items())
    if len(ks) == 1:
        return x - ks[0][0] + ks[0][1]
    if x <= ks[0][0]:
        return x - ks[0][0] + ks[0][1]
    for (a0, b0), (a1, b1) in zip(ks, ks[1:]):
        if x == a1:
            return b1
        if a0 <= x < a1:
            return b0 + (b1 - b0) * (x - a0) / (a1 - a0)
    return x - ks[-1][0] + ks[-1][1]


def font_user_to_norm(fvar_axis, segment, u, quantize=False):
    """fvar normalisation followed by the avar segment map, from the table contents.
    fvar_axis = (min, default, max)."""
    n = normalize(u, *fvar_axis)
    if quantize:
        n = q14(n)
    n = avar_map(segment, n)
    if quantize:
        n = q14(n)
    return n


# ------------------------------------------------------------------ variation regions
def tent(v, start, peak, end):
    if start > peak or peak > end:
        return F(1)
    if start < 0 and end > 0 and peak != 0:
        return F(1)
    if peak == 0:
        return F(1)
    if v < start or v > end:
        return F(0)
    if v == peak:
        return F(1)
    if v < peak:
        return (v - start) / (peak - start)
    return (end - v) / (end - peak)


def region_scalar(loc, region):
    """loc: list of Fractions in axis order; region: list of (start, peak, end) per axis."""
    s = F(1)
    for v, (a, b, c) in zip(loc, region):
        s *= tent(fr(v), fr(a), fr(b), fr(c))
        if s == 0:
            return s
    return s


def store_delta(loc, regions, region_indices, deltas):
    """Sum of delta * scalar for one ItemVariationData row."""
    total = F(0)
    for ri, d in zip(region_indices, deltas):
        if d:
            total += d * region_scalar(loc, regions[ri])
    return total
