"""C13 helpers: segment lists out of pen recordings (written from the pen-protocol
definitions, no fontTools import), contour reversal and cyclic matching.

A canonical contour is {"closed": bool, "segs": [(kind, [start, ..., end])]} with kind in
line / curve / qcurve, points as complex numbers, the start point of every segment included,
and the closing line of a closed contour explicit (when it has non-zero length).
"""


def _c(pt):
    return complex(pt[0], pt[1])


def contours_from_pen(value):
    """RecordingPen-style [(op, args)] -> canonical contours."""
    out, cur, pt, start = [], None, None, None
    for op, args in value:
        if op == "moveTo":
            if cur is not None:
                raise ValueError("moveTo inside an open contour")
            start = pt = _c(args[0])
            cur = []
        elif op == "lineTo":
            nxt = _c(args[0])
            if nxt != pt:  # a zero-length line has no geometry
                cur.append(("line", [pt, nxt]))
            pt = nxt
        elif op == "curveTo":
            pts = [_c(a) for a in args]
            cur.append(("curve", [pt] + pts))
            pt = pts[-1]
        elif op == "qCurveTo":
            if args[-1] is None:
                raise ValueError("on-curve-less contour not expected here")
            pts = [_c(a) for a in args]
            cur.append(("qcurve", [pt] + pts))
            pt = pts[-1]
        elif op == "closePath":
            if pt != start:
                cur.append(("line", [pt, start]))
            out.append({"closed": True, "segs": cur, "start": start})
            cur = None
        elif op == "endPath":
            out.append({"closed": False, "segs": cur, "start": start})
            cur = None
        elif op == "addComponent":
            pass
        else:
            raise ValueError("unexpected pen call %r" % (op,))
    if cur is not None:
        raise ValueError("contour not terminated")
    return out


def contours_from_pointpen(value):
    """RecordingPointPen-style [(op, args, kwargs)] -> canonical contours (UFO point-pen
    semantics: an on-curve point carries the type of the segment that ends at it; a contour
    whose first point is not a 'move' is closed and its last segment wraps around)."""
    out, pts = [], None
    for op, args, _kw in value:
        if op == "beginPath":
            pts = []
        elif op == "addPoint":
            pts.append((_c(args[0]), args[1]))
        elif op == "endPath":
            out.append(_contour_from_points(pts))
            pts = None
        elif op == "addComponent":
            pass
        else:
            raise ValueError("unexpected point-pen call %r" % (op,))
    return out


def _contour_from_points(pts):
    if not pts:
        return {"closed": False, "segs": [], "start": None}
    if pts[0][1] == "move":
        closed, start, rest = False, pts[0][0], pts[1:]
    else:
        closed = True
        f = next((i for i, (_, t) in enumerate(pts) if t is not None), None)
        if f is None:
            raise ValueError("on-curve-less contour not expected here")
        start = pts[f][0]
        rest = pts[f + 1 :] + pts[: f + 1]
    segs, cur, offs = [], start, []
    for p, t in rest:
        if t is None:
            offs.append(p)
            continue
        if t == "line":
            if offs:
                raise ValueError("off-curve points before a line point")
            if p != cur:  # a zero-length line has no geometry
                segs.append(("line", [cur, p]))
        elif t == "curve":
            segs.append(("curve", [cur] + offs + [p]) if offs else ("line", [cur, p]))
        elif t == "qcurve":
            segs.append(("qcurve", [cur] + offs + [p]) if offs else ("line", [cur, p]))
        else:
            raise ValueError("unexpected segment type %r" % (t,))
        cur, offs = p, []
    if offs:
        raise ValueError("dangling off-curve points")
    return {"closed": closed, "segs": segs, "start": start}


def unreverse(contour):
    """The same contour traversed in the opposite direction."""
    return {
        "closed": contour["closed"],
        "segs": [(k, pts[::-1]) for k, pts in reversed(contour["segs"])],
        "start": contour["start"],
    }


def drop_null_lines(segs):
    return [(k, p) for k, p in segs if not (k == "line" and p[0] == p[-1])]


def match_cyclic(in_segs, out_segs, closed):
    """Find the rotation of out_segs under which every input segment corresponds to one output
    segment with the same end points (line<->line, curve<->curve|qcurve).  Returns the list of
    (in_seg, out_seg) pairs or None."""
    if len(in_segs) != len(out_segs):
        return None
    n = len(in_segs)
    rots = range(n) if closed else (0,)
    for r in rots:
        ok = True
        for i in range(n):
            ki, pi = in_segs[i]
            ko, po = out_segs[(i + r) % n]
            if pi[0] != po[0] or pi[-1] != po[-1]:
                ok = False
                break
            if (ki == "line") != (ko == "line"):
                ok = False
                break
        if ok:
            return [(in_segs[i], out_segs[(i + r) % n]) for i in range(n)]
    return None
