"""Small TrueType fonts with embedded bitmaps (EBLC / EBDT), written as TTX and compiled by the tree
under test: the vendored corpus has no EBDT font at all, so the bitmap dump formats of `ttx -z`
(raw / row / bitwise / extfile) would otherwise never meet a bit-aligned or byte-aligned image.

image formats 1, 2 (small metrics; byte- / bit-aligned), 5 (bit-aligned, metrics in EBLC index
format 2), 6, 7 (big metrics; byte- / bit-aligned); widths 7, 8, 9, 13 so that rows end inside a
byte; bit depths 1, 2, 4.
"""
import io

from fontTools.ttLib import TTFont

from . import tinyfont

GLYPHS = ["a", "b", "c"]


def _pixels(w, h, depth, k):
    """deterministic pattern with set pixels in every column / row position, incl. the last bits"""
    mx = (1 << depth) - 1
    return [[((x * 5 + y * 3 + k) % (mx + 1)) if (x + y + k) % 3 else mx for x in range(w)] for y in range(h)]


def _pack(rows, depth, bit_aligned):
    bits = []
    out = bytearray()
    for row in rows:
        rb = []
        for v in row:
            rb += [(v >> (depth - 1 - i)) & 1 for i in range(depth)]
        if bit_aligned:
            bits += rb
        else:
            while len(rb) % 8:
                rb.append(0)
            bits += rb
    while len(bits) % 8:
        bits.append(0)
    for i in range(0, len(bits), 8):
        b = 0
        for v in bits[i : i + 8]:
            b = (b << 1) | v
        out.append(b)
    return bytes(out)


def _small(w, h):
    return ("<SmallGlyphMetrics>\n<height value=\"%d\"/>\n<width value=\"%d\"/>\n<BearingX value=\"1\"/>\n<BearingY value=\"%d\"/>\n<Advance value=\"%d\"/>\n</SmallGlyphMetrics>\n"
            % (h, w, h, w + 2))


def _big(w, h):
    return ("<BigGlyphMetrics>\n<height value=\"%d\"/>\n<width value=\"%d\"/>\n<horiBearingX value=\"1\"/>\n<horiBearingY value=\"%d\"/>\n<horiAdvance value=\"%d\"/>\n"
            "<vertBearingX value=\"-3\"/>\n<vertBearingY value=\"1\"/>\n<vertAdvance value=\"%d\"/>\n</BigGlyphMetrics>\n" % (h, w, h, w + 2, h + 2))


def _line(direction):
    names = ["ascender", "descender", "widthMax", "caretSlopeNumerator", "caretSlopeDenominator", "caretOffset", "minOriginSB", "minAdvanceSB", "maxBeforeBL", "minAfterBL", "pad1", "pad2"]
    vals = {"ascender": 8, "descender": -2, "widthMax": 15, "caretSlopeNumerator": 1}
    return "<sbitLineMetrics direction=\"%s\">\n%s</sbitLineMetrics>\n" % (direction, "".join("<%s value=\"%d\"/>\n" % (n, vals.get(n, 0)) for n in names))


def build(image_format, w, h, depth):
    """-> sfnt bytes of a 4-glyph TrueType font with one strike holding bitmaps for a, b, c"""
    bit_aligned = image_format in (2, 5, 7)
    ebdt = ["<EBDT>\n<header version=\"2.0\"/>\n<strikedata index=\"0\">\n"]
    for k, g in enumerate(GLYPHS):
        data = _pack(_pixels(w, h, depth, k), depth, bit_aligned)
        ebdt.append("<ebdt_bitmap_format_%d name=\"%s\">\n" % (image_format, g))
        if image_format in (1, 2):
            ebdt.append(_small(w, h))
        elif image_format in (6, 7):
            ebdt.append(_big(w, h))
        ebdt.append("<rawimagedata>\n%s\n</rawimagedata>\n</ebdt_bitmap_format_%d>\n" % (data.hex(), image_format))
    ebdt.append("</strikedata>\n</EBDT>\n")
    eblc = ["<EBLC>\n<header version=\"2.0\"/>\n<strike index=\"0\">\n<bitmapSizeTable>\n", _line("hori"), _line("vert"),
            "<colorRef value=\"0\"/>\n<startGlyphIndex value=\"1\"/>\n<endGlyphIndex value=\"3\"/>\n<ppemX value=\"10\"/>\n<ppemY value=\"10\"/>\n<bitDepth value=\"%d\"/>\n<flags value=\"1\"/>\n</bitmapSizeTable>\n" % depth]
    if image_format == 5:
        size = (w * h * depth + 7) // 8
        eblc.append("<eblc_index_sub_table_2 imageFormat=\"5\" firstGlyphIndex=\"1\" lastGlyphIndex=\"3\">\n<imageSize value=\"%d\"/>\n%s" % (size, _big(w, h)))
        eblc += ["<glyphLoc name=\"%s\"/>\n" % g for g in GLYPHS]
        eblc.append("</eblc_index_sub_table_2>\n")
    else:
        eblc.append("<eblc_index_sub_table_1 imageFormat=\"%d\" firstGlyphIndex=\"1\" lastGlyphIndex=\"3\">\n" % image_format)
        eblc += ["<glyphLoc name=\"%s\"/>\n" % g for g in GLYPHS]
        eblc.append("</eblc_index_sub_table_1>\n")
    eblc.append("</strike>\n</EBLC>\n")
    font = tinyfont.reload(tinyfont.build({"kind": "ttf", "shapes": "box", "glyphs": GLYPHS}))
    xml = "<?xml version=\"1.0\" encoding=\"UTF-8\"?>\n<ttFont>\n" + "".join(eblc) + "".join(ebdt) + "</ttFont>\n"
    font.importXML(io.StringIO(xml))
    buf = io.BytesIO()
    font.save(buf)
    # sanity: the strike reads back with the pixel data that was written
    f2 = TTFont(io.BytesIO(buf.getvalue()))
    g = f2["EBDT"].strikeData[0]["b"]
    assert g.imageData == _pack(_pixels(w, h, depth, 1), depth, bit_aligned), (image_format, w, h, depth)
    return buf.getvalue()


def family():
    """{name: bytes}"""
    out = {}
    for fmt in (1, 2, 5, 6, 7):
        for (w, h) in ((7, 5), (8, 3), (9, 4), (13, 2)):
            for depth in (1, 2, 4):
                if depth > 1 and (w, h) not in ((7, 5), (9, 4)):
                    continue
                out["ebdt-f%d-%dx%d-d%d" % (fmt, w, h, depth)] = build(fmt, w, h, depth)
    return out
