"""C13 oracle: true maximum deviation between Bezier pieces, by polynomial root finding.

Nothing here imports fontTools.  Points are Python complex numbers (x + 1j*y).

The measure checked is the one cu2qu / qu2cu document and implement: the maximum over the
curve parameter of the Euclidean distance between the two curves *at the same parameter*
(piece i of the n equal-parameter pieces of the cubic against quadratic segment i of the
returned spline; for qu2cu the pieces of the returned cubic cut at the knot parameters against
the quadratic segments it replaces).  The difference of two polynomial curves is a polynomial
curve E(s) of degree <= 3; |E(s)|^2 is a polynomial of degree <= 6 whose maximum over [0,1] is
attained at an end point or at a real root of its derivative (degree <= 5).

Two evaluations:
* float path (numpy, batched over the segments of one spline): companion-matrix eigenvalues
  for the critical points, plus a fixed parameter grid; every candidate is *evaluated*, so
  the result is always a lower bound of the true maximum (a missed root can only hide a
  violation, never invent one);
* exact path (fractions.Fraction): the coefficients of E and the value of |E|^2 at rational
  candidates are computed without rounding from the exact values of the input and output
  floats.  Used whenever the float result is within 1e-6 (relative) of the tolerance, so the
  decision "error <= tolerance*(1+1e-9)" is never taken on rounding noise of the oracle.
"""
from fractions import Fraction
import math
import os

# the matrices are 5x5: BLAS worker threads only add contention to the 16-process pool
for _v in ("OPENBLAS_NUM_THREADS", "OMP_NUM_THREADS", "MKL_NUM_THREADS"):
    os.environ.setdefault(_v, "1")

import numpy as np  # noqa: E402

REL_SLACK = 1e-9  # error <= tol * (1 + REL_SLACK)
GREY = 1e-6  # float results this close to tol are re-decided exactly

_GRID = np.linspace(0.0, 1.0, 17)[1:-1]
_K6 = np.arange(1, 7, dtype=float)


# --------------------------------------------------------------------------- float path
def _crit_points(D):
    """Real parts of the (near-)real roots of the polynomials D (n,6; ascending powers),
    clipped to [0,1].  Returns (n,5) candidates (0.0 where there is no root)."""
    n = D.shape[0]
    out = np.zeros((n, 5))
    scale = np.abs(D).max(axis=1)
    lead = D[:, 5]
    good = (scale > 0) & (np.abs(lead) > 1e-12 * scale) & np.isfinite(scale)
    idx = np.nonzero(good)[0]
    if len(idx):
        A = np.zeros((len(idx), 5, 5))
        A[:, 1, 0] = A[:, 2, 1] = A[:, 3, 2] = A[:, 4, 3] = 1.0
        A[:, 0, :] = -D[idx, 4::-1] / lead[idx, None]
        try:
            r = np.linalg.eigvals(A)
        except np.linalg.LinAlgError:
            r = np.zeros((len(idx), 5), dtype=complex)
        real = np.abs(r.imag) <= 1e-5 * (1.0 + np.abs(r.real))
        out[idx] = np.where(real, np.clip(r.real, 0.0, 1.0), 0.0)
    for k in np.nonzero(~good)[0]:
        c = D[k, ::-1].copy()
        if not np.all(np.isfinite(c)) or scale[k] == 0:
            continue
        # trim negligible leading coefficients (np.roots trims only exact zeros)
        j = 0
        while j < 5 and abs(c[j]) <= 1e-12 * scale[k]:
            j += 1
        c = c[j:]
        if len(c) < 2:
            continue
        try:
            r = np.roots(c)
        except np.linalg.LinAlgError:
            continue
        m = 0
        for z in r:
            if abs(z.imag) <= 1e-5 * (1.0 + abs(z.real)) and m < 5:
                out[k, m] = min(1.0, max(0.0, z.real))
                m += 1
    return out


def poly_max_norm(e):
    """e: complex array (n,4), coefficients e0..e3 of E(s) = e0 + e1 s + e2 s^2 + e3 s^3.
    Returns (max |E| over [0,1] per row, parameter where attained, all candidates (n,m))."""
    e = np.asarray(e, dtype=complex)
    ex, ey = e.real, e.imag
    n = e.shape[0]
    N = np.zeros((n, 7))
    for i in range(4):
        for j in range(4):
            N[:, i + j] += ex[:, i] * ex[:, j] + ey[:, i] * ey[:, j]
    D = N[:, 1:] * _K6
    cand = np.concatenate(
        [np.zeros((n, 1)), np.ones((n, 1)), np.broadcast_to(_GRID, (n, len(_GRID))), _crit_points(D)], axis=1
    )
    E = e[:, 0:1] + cand * (e[:, 1:2] + cand * (e[:, 2:3] + cand * e[:, 3:4]))
    a = np.abs(E)
    k = np.argmax(a, axis=1)
    rows = np.arange(n)
    return a[rows, k], cand[rows, k], cand


def bezier3_to_power(c0, c1, c2, c3):
    """Bernstein (control points) -> power basis, works on scalars or arrays."""
    return c0, 3 * (c1 - c0), 3 * (c2 - 2 * c1 + c0), c3 - 3 * c2 + 3 * c1 - c0


def spline_onoff(spline):
    """Quadratic B-spline point list [on, off..., on] -> (on0[], off[], on1[]) with the
    implied on-curve points (mid-points of consecutive off-curve points) made explicit."""
    offs = list(spline[1:-1])
    ons = [spline[0]] + [(offs[i] + offs[i + 1]) * 0.5 for i in range(len(offs) - 1)] + [spline[-1]]
    return ons[:-1], offs, ons[1:]


def cu2qu_error_polys(cubic, spline):
    """Error polynomials (n,4) of quadratic segment i minus piece i of the n equal-parameter
    pieces of `cubic`; computed in a frame translated by cubic[0] (the translation is exact
    for the integer lattices used, and harmless otherwise)."""
    o = cubic[0]
    p0, p1, p2, p3 = (complex(p) - o for p in cubic)
    d, c, b, a = bezier3_to_power(p0, p1, p2, p3)
    s = np.array([complex(p) - o for p in spline])
    n = len(s) - 2
    off = s[1:-1]
    on = np.empty(n + 1, dtype=complex)
    on[0], on[-1] = s[0], s[-1]
    if n > 1:
        on[1:-1] = (off[:-1] + off[1:]) * 0.5
    on0, on1 = on[:-1], on[1:]
    h = 1.0 / n
    t0 = np.arange(n) * h
    A0 = ((a * t0 + b) * t0 + c) * t0 + d
    A1 = ((3 * a * t0 + 2 * b) * t0 + c) * h
    A2 = (3 * a * t0 + b) * (h * h)
    A3 = np.full(n, a * h * h * h)
    e = np.empty((n, 4), dtype=complex)
    e[:, 0] = on0 - A0
    e[:, 1] = 2 * (off - on0) - A1
    e[:, 2] = (on0 - 2 * off + on1) - A2
    e[:, 3] = -A3
    return e


# --------------------------------------------------------------------------- exact path
def _fr(z):
    z = complex(z)
    return Fraction(z.real), Fraction(z.imag)


def _fadd(a, b):
    return a[0] + b[0], a[1] + b[1]


def _fsub(a, b):
    return a[0] - b[0], a[1] - b[1]


def _fmul(a, k):
    return a[0] * k, a[1] * k


def exact_norm2_max(e, cands):
    """e: four (Fraction,Fraction) coefficients; cands: iterable of floats in [0,1].
    Returns max over the candidates of |E(s)|^2 as an exact Fraction."""
    best = Fraction(0)
    for s in cands:
        s = Fraction(float(s))
        x = ((e[3][0] * s + e[2][0]) * s + e[1][0]) * s + e[0][0]
        y = ((e[3][1] * s + e[2][1]) * s + e[1][1]) * s + e[0][1]
        v = x * x + y * y
        if v > best:
            best = v
    return best


def exact_cu2qu_seg(cubic, spline, i):
    """Exact coefficients of the error polynomial of segment i (see cu2qu_error_polys)."""
    P = [_fr(p) for p in cubic]
    n = len(spline) - 2
    S = [_fr(p) for p in spline]
    offs = S[1:-1]
    ons = [S[0]] + [_fmul(_fadd(offs[k], offs[k + 1]), Fraction(1, 2)) for k in range(n - 1)] + [S[-1]]
    d = P[0]
    c = _fmul(_fsub(P[1], P[0]), 3)
    b = _fmul(_fadd(_fsub(P[2], _fmul(P[1], 2)), P[0]), 3)
    a = _fadd(_fsub(P[3], _fmul(P[2], 3)), _fsub(_fmul(P[1], 3), P[0]))
    h = Fraction(1, n)
    t0 = Fraction(i, n)
    A0 = _fadd(_fmul(_fadd(_fmul(_fadd(_fmul(a, t0), b), t0), c), t0), d)
    A1 = _fmul(_fadd(_fmul(_fadd(_fmul(a, 3 * t0), _fmul(b, 2)), t0), c), h)
    A2 = _fmul(_fadd(_fmul(a, 3 * t0), b), h * h)
    A3 = _fmul(a, h * h * h)
    on0, off, on1 = ons[i], offs[i], ons[i + 1]
    return (
        _fsub(on0, A0),
        _fsub(_fmul(_fsub(off, on0), 2), A1),
        _fsub(_fadd(_fsub(on0, _fmul(off, 2)), on1), A2),
        _fmul(A3, -1),
    )


def exact_within(e, cands, tol):
    """Exact decision  max_cands |E|^2 <= (tol*(1+REL_SLACK))^2 ; returns (ok, sqrt(max))."""
    v = exact_norm2_max(e, cands)
    lim = Fraction(tol) * (1 + Fraction(1, 10**9))
    return v <= lim * lim, math.sqrt(float(v))


# --------------------------------------------------------------------------- cu2qu
def check_cubic_vs_spline(cubic, spline, tol, force_exact=False):
    """Oracle for one cubic and the spline returned for it.

    Returns dict(ok, err, seg, s, n, exact_used, selfcheck) where err is the true maximum of
    |quadratic_i(s) - cubicpiece_i(s)| over all segments (float value of it)."""
    n = len(spline) - 2
    e = cu2qu_error_polys(cubic, spline)
    m, sarg, cand = poly_max_norm(e)
    k = int(np.argmax(m))
    err = float(m[k])
    res = {"ok": True, "err": err, "seg": k, "s": float(sarg[k]), "n": n, "exact_used": False, "selfcheck": None}
    if not np.all(np.isfinite(m)):
        res["ok"] = False
        res["err"] = float("nan")
        return res
    hi = tol * (1 + GREY)
    lo = tol * (1 - GREY)
    if err > hi:
        res["ok"] = False
        return res
    grey = [int(i) for i in np.nonzero(m > lo)[0]]
    if force_exact and k not in grey:
        grey.append(k)
    for i in grey:
        ee = exact_cu2qu_seg(cubic, spline, i)
        ok, v = exact_within(ee, cand[i], tol)
        res["exact_used"] = True
        if abs(v - float(m[i])) > 1e-9 * max(v, float(m[i])) + 1e-12 * max(1.0, max(abs(complex(p) - complex(cubic[0])) for p in cubic)):
            res["selfcheck"] = "float path %r vs exact path %r on segment %d" % (float(m[i]), v, i)
        if m[i] > lo and not ok:
            res["ok"] = False
            res["err"], res["seg"], res["s"] = v, i, float(sarg[i])
            return res
    return res


def check_cubic_vs_cubic(cubic, other, tol):
    """all_quadratic=False may hand back a cubic: same-parameter distance between the two."""
    o = complex(cubic[0])
    d = [complex(q) - complex(p) for p, q in zip(cubic, other)]
    e0, e1, e2, e3 = bezier3_to_power(*d)
    m, sarg, cand = poly_max_norm(np.array([[e0, e1, e2, e3]]))
    return float(m[0]) <= tol * (1 + REL_SLACK), float(m[0])


def reference_spline(cubic, n):
    """The candidate spline with n segments of the tangent-preserving scheme cu2qu documents
    (piece i of n equal-parameter pieces; off-curve point i interpolated at i/(n-1) between the
    two end tangents' 3/2 extrapolations).  Used ONLY to justify an ApproxNotFoundError: if
    this candidate with MAX_N segments fits comfortably, raising was wrong."""
    o = complex(cubic[0])
    p0, p1, p2, p3 = (complex(p) - o for p in cubic)
    d, c, b, a = bezier3_to_power(p0, p1, p2, p3)
    h = 1.0 / n
    t0 = np.arange(n) * h
    A0 = ((a * t0 + b) * t0 + c) * t0 + d
    A1 = ((3 * a * t0 + 2 * b) * t0 + c) * h
    A2 = (3 * a * t0 + b) * (h * h)
    A3 = a * h * h * h
    c0 = A0
    c1 = A0 + A1 / 3
    c2 = A0 + (2 * A1 + A2) / 3
    c3 = A0 + A1 + A2 + A3
    L = c0 + 1.5 * (c1 - c0)
    R = c3 + 1.5 * (c2 - c3)
    if n == 1:
        return None
    w = np.arange(n) / (n - 1)
    off = L + (R - L) * w
    return [cubic[0]] + [complex(z) + o for z in off] + [cubic[3]]


# --------------------------------------------------------------------------- qu2cu
def flatten_splines(quads):
    """list of splines -> (K on-curve points, O off-curve points) of the m quadratic segments
    (segment k runs K[k] -O[k]- K[k+1]); implied on-curve points are exact mid-points."""
    K, O = [complex(quads[0][0])], []
    for sp in quads:
        sp = [complex(p) for p in sp]
        offs = sp[1:-1]
        for i, o in enumerate(offs):
            O.append(o)
            if i + 1 < len(offs):
                K.append((o + offs[i + 1]) * 0.5)
            else:
                K.append(sp[-1])
    return K, O


def knot_params(K, O, j, r):
    """Parameter values at which a cubic replacing segments j..j+r-1 meets the knots, from the
    ratios of the tangent lengths on both sides of each knot (a cubic cut at t_k has handle
    lengths in the ratio of the adjacent parameter intervals).  None when a ratio is
    undefined."""
    ts, prod, tot = [1.0], 1.0, 1.0
    for k in range(1, r):
        den = abs(K[j + k] - O[j + k - 1])
        if den == 0:
            return None
        ratio = abs(O[j + k] - K[j + k]) / den
        prod *= ratio
        tot += prod
        ts.append(tot)
    ts = [t / tot for t in ts[:-1]]
    if ts and (not all(math.isfinite(t) for t in ts) or ts[-1] >= 1.0 or ts[0] <= 0.0):
        return None
    return ts


def qu2cu_param_polys(cubic, K, O, j, r, ts):
    """Error polynomials (r,4): piece k of `cubic` cut at ts, reparametrised to [0,1], minus
    quadratic segment j+k."""
    o = K[j]
    p = [complex(z) - o for z in cubic]
    d, c, b, a = bezier3_to_power(*p)
    t = np.array([0.0] + list(ts) + [1.0])
    t0, h = t[:-1], np.diff(t)
    A0 = ((a * t0 + b) * t0 + c) * t0 + d
    A1 = ((3 * a * t0 + 2 * b) * t0 + c) * h
    A2 = (3 * a * t0 + b) * (h * h)
    A3 = a * h * h * h
    on0 = np.array([K[j + k] - o for k in range(r)])
    on1 = np.array([K[j + k + 1] - o for k in range(r)])
    off = np.array([O[j + k] - o for k in range(r)])
    e = np.empty((r, 4), dtype=complex)
    e[:, 0] = A0 - on0
    e[:, 1] = A1 - 2 * (off - on0)
    e[:, 2] = A2 - (on0 - 2 * off + on1)
    e[:, 3] = A3
    return e


def exact_qu2cu_seg(cubic, K, O, j, k, ts):
    P = [_fr(z) for z in cubic]
    d = P[0]
    c = _fmul(_fsub(P[1], P[0]), 3)
    b = _fmul(_fadd(_fsub(P[2], _fmul(P[1], 2)), P[0]), 3)
    a = _fadd(_fsub(P[3], _fmul(P[2], 3)), _fsub(_fmul(P[1], 3), P[0]))
    t = [Fraction(0)] + [Fraction(float(x)) for x in ts] + [Fraction(1)]
    t0, h = t[k], t[k + 1] - t[k]
    A0 = _fadd(_fmul(_fadd(_fmul(_fadd(_fmul(a, t0), b), t0), c), t0), d)
    A1 = _fmul(_fadd(_fmul(_fadd(_fmul(a, 3 * t0), _fmul(b, 2)), t0), c), h)
    A2 = _fmul(_fadd(_fmul(a, 3 * t0), b), h * h)
    A3 = _fmul(a, h * h * h)
    on0, off, on1 = _fr(K[j + k]), _fr(O[j + k]), _fr(K[j + k + 1])
    return (
        _fsub(A0, on0),
        _fsub(A1, _fmul(_fsub(off, on0), 2)),
        _fsub(A2, _fadd(_fsub(on0, _fmul(off, 2)), on1)),
        A3,
    )


def check_cubic_replaces(cubic, K, O, j, r, tol):
    """Same-parameter deviation of `cubic` from quadratic segments j..j+r-1.
    Returns (ok, err, detail) ; ok None when the knot parameters are undefined."""
    ts = knot_params(K, O, j, r)
    if ts is None:
        return None, None, "knot parameters undefined"
    e = qu2cu_param_polys(cubic, K, O, j, r, ts)
    m, sarg, cand = poly_max_norm(e)
    if not np.all(np.isfinite(m)):
        return False, float("nan"), "non-finite"
    k = int(np.argmax(m))
    err = float(m[k])
    if err > tol * (1 + GREY):
        return False, err, "segment %d at s=%.6f (knot parameters %s)" % (j + k, sarg[k], [round(x, 9) for x in ts])
    for i in np.nonzero(m > tol * (1 - GREY))[0]:
        ok, v = exact_within(exact_qu2cu_seg(cubic, K, O, j, int(i), ts), cand[int(i)], tol)
        if not ok:
            return False, v, "segment %d (exact evaluation; knot parameters %s)" % (j + int(i), [round(x, 9) for x in ts])
    return True, err, ""


def check_quad_replaces(quad, K, O, j, tol):
    """A returned quadratic against segment j (same parameter)."""
    d = [complex(quad[0]) - K[j], complex(quad[1]) - O[j], complex(quad[2]) - K[j + 1]]
    e = np.array([[d[0], 2 * (d[1] - d[0]), d[0] - 2 * d[1] + d[2], 0j]])
    m, _, _ = poly_max_norm(e)
    return float(m[0]) <= tol * (1 + REL_SLACK), float(m[0])


# ---- parametrisation-free second opinion: two-sided Hausdorff distance by closest points
def _closest_dist(power, X):
    """power: complex coefficients (p0..pd) of one polynomial curve, d in (2,3); X: complex
    array (M,).  Exact closest-point distance (roots of d/dt |P(t)-X|^2 plus end points and a
    grid).  Returns (M,) distances; every value is attained at a parameter in [0,1]."""
    p = np.asarray(power, dtype=complex)
    d = len(p) - 1
    dp = p[1:] * np.arange(1, d + 1)  # derivative, ascending
    # g(t) = Re(conj(P(t)-p0) * P'(t)): fixed part
    q = p.copy()
    q[0] = 0
    deg = 2 * d - 1
    g = np.zeros(deg + 1)
    for i in range(d + 1):
        for k in range(d):
            g[i + k] += (np.conj(q[i]) * dp[k]).real
    M = len(X)
    w = p[0] - X  # (M,)
    F = np.tile(g, (M, 1))
    for k in range(d):
        F[:, k] += (np.conj(w) * dp[k]).real
    cand = [np.zeros((M, 1)), np.ones((M, 1)), np.broadcast_to(np.linspace(0, 1, 33)[1:-1], (M, 31))]
    scale = np.abs(F).max(axis=1)
    lead = F[:, deg]
    good = (scale > 0) & (np.abs(lead) > 1e-12 * scale)
    roots = np.zeros((M, deg))
    idx = np.nonzero(good)[0]
    if len(idx):
        A = np.zeros((len(idx), deg, deg))
        for k in range(1, deg):
            A[:, k, k - 1] = 1.0
        A[:, 0, :] = -F[idx, deg - 1 :: -1] / lead[idx, None]
        r = np.linalg.eigvals(A)
        real = np.abs(r.imag) <= 1e-4 * (1.0 + np.abs(r.real))
        roots[idx] = np.where(real, np.clip(r.real, 0.0, 1.0), 0.0)
    for k in np.nonzero(~good)[0]:
        c = F[k, ::-1]
        if scale[k] == 0:
            continue
        jj = 0
        while jj < deg and abs(c[jj]) <= 1e-12 * scale[k]:
            jj += 1
        c = c[jj:]
        if len(c) < 2:
            continue
        m = 0
        for z in np.roots(c):
            if abs(z.imag) <= 1e-4 * (1.0 + abs(z.real)):
                roots[k, m] = min(1.0, max(0.0, z.real))
                m += 1
    cand.append(roots)
    T = np.concatenate(cand, axis=1)
    V = np.zeros(T.shape, dtype=complex)
    for c in p[::-1]:
        V = V * T + c
    return np.abs(V - X[:, None]).min(axis=1)


def hausdorff_lower_bound(cubic, K, O, j, r, samples=17):
    """A lower bound (by sampling one side, exact closest point on the other) of the two-sided
    Hausdorff distance between `cubic` and quadratic segments j..j+r-1.  Any two curves whose
    same-parameter distance is <= tol under *some* reparametrisation have Hausdorff distance
    <= tol, so this value exceeding tol refutes every parametrised guarantee."""
    o = K[j]
    cp = [complex(z) - o for z in cubic]
    cpow = bezier3_to_power(*cp)
    qpows = []
    for k in range(r):
        a, b, c = K[j + k] - o, O[j + k] - o, K[j + k + 1] - o
        qpows.append((a, 2 * (b - a), a - 2 * b + c))
    t = np.linspace(0, 1, samples)
    X = ((cpow[3] * t + cpow[2]) * t + cpow[1]) * t + cpow[0]
    dmin = np.full(len(X), np.inf)
    for qp in qpows:
        dmin = np.minimum(dmin, _closest_dist(qp, X))
    h1 = float(dmin.max())
    Y = np.concatenate([(qp[2] * t + qp[1]) * t + qp[0] for qp in qpows])
    h2 = float(_closest_dist(cpow, Y).max())
    return max(h1, h2)


def _bernstein_bound_r1(cubic, K, O, j):
    """max |control point| of (cubic - degree-elevated quadratic segment j): an upper bound of
    the same-parameter distance (a Bezier curve lies in the convex hull of its control points)."""
    a, b, c = K[j], O[j], K[j + 1]
    return max(abs(cubic[0] - a), abs(cubic[1] - (a + 2 * b) / 3), abs(cubic[2] - (2 * b + c) / 3), abs(cubic[3] - c))


def check_qu2cu_output(quads, curves, tol, hausdorff=True):
    """Whole-result oracle for quadratic_to_curves.  Returns (problems, info): problems is a
    list of (fkey_suffix, message); info has counters (merged, max_r, max_err, parses)."""
    K, O = flatten_splines(quads)
    m = len(O)
    cv = [[complex(*p) if not isinstance(p, complex) else p for p in c] for c in curves]
    info = {"cubics": 0, "quads": 0, "merged": 0, "max_r": 0, "max_err": 0.0, "ambiguous": False, "hausdorff": 0.0, "selfcheck": None}
    problems = []
    if not cv:
        return [("empty", "no curves returned for %d segments" % m)], info
    for c in cv:
        if len(c) not in (3, 4):
            return [("shape", "curve with %d points" % len(c))], info
    if cv[0][0] != K[0]:
        problems.append(("start", "first point %r != spline start %r" % (cv[0][0], K[0])))
    if cv[-1][-1] != K[-1]:
        problems.append(("end", "last point %r != spline end %r" % (cv[-1][-1], K[-1])))
    for a, b in zip(cv, cv[1:]):
        if a[-1] != b[0]:
            problems.append(("connect", "curve ends at %r, next starts at %r" % (a[-1], b[0])))
    if problems:
        return problems, info

    # cover the m segments in order; a cubic may replace r >= 1 segments.  All consistent
    # parses are tried (on-curve points may repeat on the lattice); the result is accepted
    # if one parse satisfies the tolerance everywhere.
    fails = []
    cache = {}

    def one(ci, j, r):
        key = (ci, j, r)
        if key not in cache:
            c = cv[ci]
            if len(c) == 3:
                if c[0] == K[j] and c[1] == O[j] and c[2] == K[j + 1]:
                    ok, err = True, 0.0  # the input segment itself
                else:
                    ok, err = check_quad_replaces(c, K, O, j, tol)
                cache[key] = (ok, err, "quadratic vs segment %d" % j, 0.0)
            elif r == 1 and _bernstein_bound_r1(c, K, O, j) <= tol * (1 - GREY):
                # Bernstein (convex hull) bound of the error curve: sufficient, no root finding
                cache[key] = (True, _bernstein_bound_r1(c, K, O, j), "", 0.0)
            else:
                ok, err, det = check_cubic_replaces(c, K, O, j, r, tol)
                hd = 0.0
                # Hausdorff distance <= same-parameter distance for every parametrisation, so
                # it cannot fail where the parametrised check passed; it decides alone when the
                # knot parameters are undefined, and cross-checks the oracle near the bound.
                if hausdorff and r >= 2 and (ok is None or not ok or err > 0.9 * tol):
                    hd = hausdorff_lower_bound(c, K, O, j, r)
                    if ok is None:
                        ok, err = hd <= tol * (1 + GREY) + 1e-9, hd
                        det = "Hausdorff distance (knot parameters undefined) over segments %d..%d" % (j, j + r - 1)
                    elif ok and hd > err * (1 + 1e-6) + 1e-9:
                        info["selfcheck"] = "Hausdorff lower bound %r exceeds same-parameter maximum %r" % (hd, err)
                elif ok is None:
                    ok, err = True, 0.0
                cache[key] = (ok, err, det, hd)
        return cache[key]

    nparse = [0]

    def rec(ci, j):
        if ci == len(cv):
            if j == m:
                nparse[0] += 1
                return True
            return False
        c = cv[ci]
        if j >= m or c[0] != K[j]:
            return False
        rs = [1] if len(c) == 3 else [r for r in range(1, m - j + 1) if K[j + r] == c[-1]]
        found = False
        for r in rs:
            ok, err, det, hd = one(ci, j, r)
            if not ok:
                fails.append((ci, j, r, err, det))
                continue
            if rec(ci + 1, j + r):
                if not found:
                    stack.append((ci, j, r, err, hd))
                found = True
                break
        return found

    stack = []
    good = rec(0, 0)
    if not good:
        if fails:
            ci, j, r, err, det = max(fails, key=lambda f: (f[3] if f[3] == f[3] else float("inf")))
            problems.append(
                ("tolerance", "curve %d %r replacing segments %d..%d deviates by %r > tolerance %r: %s" % (ci, curves[ci], j, j + r - 1, err, tol, det))
            )
        else:
            problems.append(("cover", "returned curves do not cover the %d segments of the spline in order" % m))
        return problems, info
    for ci, j, r, err, hd in stack:
        if len(cv[ci]) == 4:
            info["cubics"] += 1
            if r >= 2:
                info["merged"] += 1
            info["max_r"] = max(info["max_r"], r)
        else:
            info["quads"] += 1
        info["max_err"] = max(info["max_err"], err or 0.0)
        info["hausdorff"] = max(info["hausdorff"], hd)
    return problems, info


# --------------------------------------------------------------------------- lattices
def lattice_points(k, scale=100):
    """k x k lattice, row-major: index -> complex point."""
    return [complex(scale * x, scale * y) for y in range(k) for x in range(k)]


def is_collinear(pts):
    p0 = pts[0]
    base = None
    for p in pts[1:]:
        if p != p0:
            base = p - p0
            break
    if base is None:
        return True
    return all(abs(((p - p0) * base.conjugate()).imag) == 0 for p in pts)


def polygon_crosses(p0, p1, p2, p3):
    """Do the first and last legs of the control polygon properly cross (loop / cusp shapes)?"""

    def orient(a, b, c):
        v = ((b - a).conjugate() * (c - a)).imag
        return (v > 0) - (v < 0)

    return orient(p0, p1, p2) * orient(p0, p1, p3) < 0 and orient(p2, p3, p0) * orient(p2, p3, p1) < 0
