"""Every fontTools pipeline on a fixed input set; prints {pipeline item: sha256 of output}.

Run as a script in a *separate process* by engines/c16.py with different PYTHONHASHSEED /
simulated wall clocks; the digests must not depend on either.

  python pipelines.py <shard> <nshards> [--clock-offset SECONDS]
"""
import sys
import os

sys.path.insert(0, os.path.dirname(os.path.dirname(os.path.abspath(__file__))))
from mc import env  # noqa: E402

import hashlib
import io
import json
import glob


def sha(b):
    if isinstance(b, str):
        b = b.encode("utf-8")
    return hashlib.sha256(b).hexdigest()[:24]


def save(font, **kw):
    buf = io.BytesIO()
    font.save(buf, **kw)
    return buf.getvalue()


def items():
    """(name, thunk) for every pipeline item; deterministic order."""
    from oracles import corpus, tinyfont, dscorpus
    from fontTools.ttLib import TTFont

    out = []
    faces = corpus.binary_faces()
    small = [(n, d, i) for n, d, i in faces if not corpus.is_aots(n) and len(d) < 40000]
    aots = [(n, d, i) for n, d, i in faces if corpus.is_aots(n)][::9]

    def recompile(data, idx, lazy):
        def run():
            f = TTFont(io.BytesIO(data), fontNumber=idx, lazy=lazy)
            f.ensureDecompiled()
            return save(f)

        return run

    for n, d, i in small + aots:
        for lazy in (None, True, False):
            out.append(("recompile:%s:lazy=%s" % (n, lazy), recompile(d, i, lazy)))

    ttx = [p for p in corpus.ttx_files() if os.path.getsize(p) < 150000 and b"<maxp>" in open(p, "rb").read()]

    def ttx_import(path):
        def run():
            f = TTFont()
            f.importXML(path)
            return save(f)

        return run

    for p in ttx[::2]:
        out.append(("ttx-import:%s" % corpus.rel(p), ttx_import(p)))

    def ttx_dump(data, idx):
        def run():
            f = TTFont(io.BytesIO(data), fontNumber=idx)
            buf = io.StringIO()
            f.saveXML(buf, writeVersion=False)
            return buf.getvalue()

        return run

    for n, d, i in small:
        out.append(("ttx-dump:%s" % n, ttx_dump(d, i)))

    # feature compilation
    from oracles import feacorpus

    for name, path in feacorpus.fea_files():
        def run(path=path, name=name):
            from fontTools.feaLib.builder import addOpenTypeFeatures

            font = feacorpus.make_font(name)
            addOpenTypeFeatures(font, path)
            return b"".join(font.getTableData(t) for t in sorted(font.keys()) if t != "GlyphOrder" and font.isLoaded(t))

        out.append(("fea:%s" % name, run))

    # generated feature files with several language systems and script / language specific rules (the
    # builder keeps the language systems in a set): aalt collecting from such features, in every
    # arrangement of 2..4 scripts
    import itertools as _it

    def fea_multi(scripts, with_lang):
        ls = "languagesystem DFLT dflt;\n" + "".join("languagesystem %s dflt;\n" % sc for sc in scripts)
        if with_lang:
            ls += "languagesystem latn TRK;\n"
        body = "  sub b by a.alt0;\n"
        for i, sc in enumerate(scripts):
            body += "  script %s; sub a by a.alt%d;\n" % (sc, (i + 1) % 3)
            if with_lang and sc == "latn":
                body += "  language TRK; sub a by a.alt0;\n"
        kern = "feature kern {\n  pos a b -10;\n" + "".join("  script %s; pos a b %d;\n" % (sc, -20 - i) for i, sc in enumerate(scripts)) + "} kern;\n"
        return ls + "feature aalt { feature salt; feature ss01; } aalt;\nfeature salt {\n" + body + "} salt;\nfeature ss01 { sub a by a.alt2; sub b by a.alt1; } ss01;\n" + kern

    def fea_item(text):
        def run():
            from fontTools.feaLib.builder import addOpenTypeFeaturesFromString

            font = tinyfont.build({"kind": "ttf", "shapes": "box", "glyphs": ["a", "b", "a.alt0", "a.alt1", "a.alt2"], "cmap": {97: "a", 98: "b"}})
            addOpenTypeFeaturesFromString(font, text)
            return b"".join(font.getTableData(t) for t in ("GSUB", "GPOS", "GDEF") if t in font)

        return run

    for k in (2, 3, 4):
        for scripts in _it.permutations(["latn", "cyrl", "grek", "arab"][:k]):
            for with_lang in (False, True):
                if with_lang and "latn" not in scripts:
                    continue
                out.append(("fea:generated:%s%s" % ("+".join(scripts), ":TRK" if with_lang else ""), fea_item(fea_multi(scripts, with_lang))))

    # AAT 'morx' ligature subtables whose state table carries several DIFFERENT ligature action lists of
    # the same length (the writer shares action suffixes through a dict / set keyed by the lists)
    def morx_xml(glyphs, steps):
        L = ['<Version value="2"/>', '<Reserved value="0"/>', '<MorphChain index="0">', '<DefaultFlags value="0x00000001"/>', '<MorphSubtable index="0">',
             '<TextDirection value="Horizontal"/>', '<ProcessingOrder value="LayoutOrder"/>', '<SubFeatureFlags value="0x00000001"/>', '<LigatureMorph>', '<StateTable>']
        ncls = 4 + len(glyphs)
        L += ['<GlyphClass glyph="%s" value="%d"/>' % (g, 4 + i) for i, g in enumerate(glyphs)]
        for state in range(3):
            L.append('<State index="%d">' % state)
            for cls in range(ncls):
                L.append('<Transition onGlyphClass="%d">' % cls)
                if cls == 4 and state < 2:
                    L += ['<NewState value="2"/>', '<Flags value="SetComponent"/>']
                elif cls >= 4 and state == 2:
                    L += ['<NewState value="0"/>', '<Flags value="SetComponent"/>']
                    L += ['<Action GlyphIndexDelta="%d"/>' % ((cls - 4) + 10 * k + (cls if k else 0)) for k in range(steps[(cls - 4) % len(steps)])]
                else:
                    L.append('<NewState value="0"/>')
                L.append("</Transition>")
            L.append("</State>")
        L.append("<LigComponents>")
        L += ['<LigComponent index="%d" value="%d"/>' % (i, i) for i in range(8)]
        L += ["</LigComponents>", "<Ligatures>"]
        L += ['<Ligature glyph="%s" index="%d"/>' % (g, i) for i, g in enumerate(glyphs)]
        L += ["</Ligatures>", "</StateTable>", "</LigatureMorph>", "</MorphSubtable>", "</MorphChain>"]
        return L

    def morx_item(nglyphs, steps):
        def run():
            from fontTools.misc.testTools import parseXML
            from fontTools.ttLib import newTable

            glyphs = ["a", "b", "c", "d", "e", "f", "g"][:nglyphs]
            font = tinyfont.build({"kind": "ttf", "shapes": "box", "glyphs": glyphs})
            table = newTable("morx")
            for name, attrs, content in parseXML(morx_xml(glyphs, steps)):
                table.fromXML(name, attrs, content, font=font)
            font["morx"] = table
            return save(font)

        return run

    for nglyphs in (3, 5, 7):
        for steps in ((2,), (1, 2), (2, 3, 2)):
            out.append(("aat:morx-ligature:%dglyphs:steps=%s" % (nglyphs, "".join(map(str, steps))), morx_item(nglyphs, steps)))

    # subsetting
    from fontTools import subset

    _cache = {}

    def ttx_bytes(path):
        """compile one corpus TTX (lazily, inside the item that needs it)"""
        if path not in _cache:
            f = TTFont()
            f.importXML(path)
            _cache.clear()
            _cache[path] = save(f)
        return _cache[path]

    tests = corpus.TESTS
    subset_fonts = []
    for p in sorted(glob.glob(os.path.join(tests, "subset", "data", "*.ttx"))):
        b = os.path.basename(p)
        if "expect" in b or ".subset" in b or os.path.getsize(p) > 400000:
            continue
        subset_fonts.append(("subset/data/" + b, (lambda p=p: ttx_bytes(p))))
    subset_fonts += [("tiny:" + k, (lambda s=s: tinyfont.build_bytes(s))) for k, s in sorted(tinyfont.pool().items())]

    def do_subset(data, optargs, unicodes):
        def run():
            opts = subset.Options()
            opts.parse_opts(list(optargs))
            f = TTFont(io.BytesIO(data()))
            s = subset.Subsetter(opts)
            cmap = f.getBestCmap() or {}
            us = sorted(cmap)[::2] if unicodes == "half" else sorted(cmap)
            s.populate(unicodes=us)
            s.subset(f)
            return save(f)

        return run

    for n, d in subset_fonts:
        for optname, optargs in (("default", ()), ("all-features", ("--layout-features=*", "--glyph-names", "--notdef-outline")), ("retain-gids", ("--retain-gids",)), ("desub", ("--desubroutinize", "--no-hinting"))):
            out.append(("subset:%s:%s" % (n, optname), do_subset(d, optargs, "half")))

    # tables that keep per-glyph data in dicts / choose a most common value (AAT bsln, prop, lcar, opbd,
    # ankr; COLR, MATH, SVG ...): EVERY pair of mapped characters (fonts with <= 10 of them), with and
    # without .notdef - which glyph set leaves a tie or an unsorted dict is not known in advance
    COMMON = {"GlyphOrder", "head", "hhea", "maxp", "OS/2", "hmtx", "cmap", "loca", "glyf", "name", "post", "CFF ", "CFF2", "GSUB", "GPOS", "GDEF",
              "fvar", "gvar", "avar", "HVAR", "MVAR", "STAT", "kern", "gasp", "prep", "fpgm", "cvt ", "DSIG", "vhea", "vmtx", "VORG", "BASE"}

    def do_subset_pair(data, optargs, pair):
        def run():
            opts = subset.Options()
            opts.parse_opts(list(optargs))
            f = TTFont(io.BytesIO(data()))
            s = subset.Subsetter(opts)
            s.populate(unicodes=list(pair))
            s.subset(f)
            return save(f)

        return run

    import itertools

    for n, d in subset_fonts:
        if n.startswith("tiny:"):
            continue
        try:
            f0 = TTFont(io.BytesIO(d()), lazy=True)
            cps = sorted(f0.getBestCmap() or {})
            special = set(f0.keys()) - COMMON
        except Exception:
            continue
        if not special or not 2 <= len(cps) <= 10:
            continue
        for pair in itertools.combinations(cps, 2):
            for optname, optargs in (("default", ()), ("no-notdef", ("--no-notdef-glyph",))):
                out.append(("subset-pair:%s:%04X+%04X:%s" % (n, pair[0], pair[1], optname), do_subset_pair(d, optargs, pair)))

    # a COLR table with v1 glyphs AND several v0 base glyphs
    def colr_mixed():
        from fontTools.colorLib import builder as cb
        from fontTools.ttLib.tables.otTables import PaintFormat

        font = tinyfont.build({"kind": "ttf", "shapes": "mixed", "glyphs": ["a", "b", "c", "d", "e", "f", "x1", "x2", "x3"]})
        solid = {"Format": PaintFormat.PaintSolid, "PaletteIndex": 0, "Alpha": 1.0}
        font["COLR"] = cb.buildCOLR({"a": {"Format": PaintFormat.PaintGlyph, "Paint": solid, "Glyph": "x1"},
                                     "b": [("x1", 0)], "c": [("x2", 1)], "d": [("x3", 0)], "e": [("x1", 1)], "f": [("x2", 0), ("x3", 1)]},
                                    version=None, glyphMap=font.getReverseGlyphMap())
        font["CPAL"] = cb.buildCPAL([[(1, 0, 0, 1), (0, 1, 0, 1)]])
        return tinyfont.to_bytes(font)

    for optname, optargs in (("default", ()), ("retain-gids", ("--retain-gids",))):
        out.append(("subset:tiny:colr-v1+v0:%s" % optname, do_subset(colr_mixed, optargs, "all")))
        out.append(("subset:tiny:colr-v1+v0:half:%s" % optname, do_subset(colr_mixed, optargs, "half")))

    # instancing
    from fontTools.varLib import instancer

    vfs = []
    for p in sorted(glob.glob(os.path.join(tests, "varLib", "instancer", "data", "*.ttx")) + glob.glob(os.path.join(tests, "varLib", "data", "test_results", "Build*.ttx"))
                    + [os.path.join(tests, "subset", "data", "TestGVAR.ttx"), os.path.join(tests, "subset", "data", "TestHVVAR.ttx")]):
        if os.path.getsize(p) > 400000:
            continue
        txt = open(p, encoding="utf-8", errors="replace").read()
        if "<fvar>" in txt and "<maxp>" in txt and ("<glyf>" in txt or "<CFF2>" in txt):
            vfs.append((corpus.rel(p), (lambda p=p: ttx_bytes(p))))
    vfs += [("tiny:" + k, (lambda s=s: tinyfont.build_bytes(s))) for k, s in sorted(tinyfont.pool().items()) if s.get("axes")]

    def do_instance(data, mode):
        def run():
            f = TTFont(io.BytesIO(data()))
            axes = f["fvar"].axes
            if mode == "pin-first":
                limits = {axes[0].axisTag: axes[0].defaultValue}
            elif mode == "pin-all-max":
                limits = {a.axisTag: a.maxValue for a in axes}
            else:
                a = axes[0]
                limits = {a.axisTag: (a.minValue, (a.defaultValue + a.maxValue) / 2)}
            inst = instancer.instantiateVariableFont(f, limits)
            return save(inst)

        return run

    for n, d in vfs:
        for mode in ("pin-first", "pin-all-max", "range"):
            out.append(("instance:%s:%s" % (n, mode), do_instance(d, mode)))

    # variable-font build
    from fontTools import varLib

    for name, path, mapping in dscorpus.corpus_designspaces():
        def run(path=path, mapping=mapping):
            ds = dscorpus.load(path, mapping)
            vf, _, _ = varLib.build(ds)
            return save(vf)

        out.append(("varlib-build:%s" % name, run))
    for k, s in sorted(tinyfont.pool().items()):
        if s.get("axes"):
            out.append(("varlib-build:tiny:%s" % k, lambda s=s: tinyfont.build_bytes(s)))

    # merging
    from fontTools import merge

    def do_merge(datas):
        def run():
            import tempfile
            import shutil

            d = tempfile.mkdtemp(prefix="c16merge")
            try:
                paths = []
                for i, b in enumerate(datas):
                    p = os.path.join(d, "f%d.ttf" % i)
                    open(p, "wb").write(b)
                    paths.append(p)
                m = merge.Merger()
                font = m.merge(paths)
                return save(font)
            finally:
                shutil.rmtree(d)

        return run

    tt = tinyfont.build_bytes({"kind": "ttf", "shapes": "mixed", "glyphs": ["a", "b", "c"], "fea": "feature liga { sub a b by c; } liga;"})
    tt2 = tinyfont.build_bytes({"kind": "ttf", "shapes": "mixed", "glyphs": ["x", "y", "c"], "coef": 3, "fea": "feature kern { pos x y -20; } kern;"})
    out.append(("merge:tiny-tt", do_merge([tt, tt2])))
    out.append(("merge:tiny-tt-rev", do_merge([tt2, tt])))
    cff_paths = [os.path.join(tests, "merge", "data", "CFFFont%d.ttx" % i) for i in (1, 2)]
    if all(os.path.exists(p) for p in cff_paths):
        out.append(("merge:corpus-cff", lambda: do_merge([ttx_bytes(p) for p in cff_paths])()))

    # collections
    from fontTools.ttLib import TTCollection

    def do_ttc(datas, share):
        def run():
            c = TTCollection()
            c.fonts = [TTFont(io.BytesIO(b)) for b in datas]
            buf = io.BytesIO()
            c.save(buf, shareTables=share)
            return buf.getvalue()

        return run

    out.append(("ttc:share", do_ttc([tt, tt2, tt], True)))
    out.append(("ttc:noshare", do_ttc([tt, tt2, tt], False)))
    for flavor in ("woff", "woff2"):
        def run(flavor=flavor):
            f = TTFont(io.BytesIO(tt))
            f.flavor = flavor
            return save(f)

        out.append(("flavor:%s" % flavor, run))
    return out


def main(argv):
    shard, nshards = int(argv[1]), int(argv[2])
    offset = 0.0
    no_recalc_ts = False
    if "--clock-offset" in argv:
        offset = float(argv[argv.index("--clock-offset") + 1])
    if offset:
        import time

        real = time.time
        time.time = lambda: real() + offset
    if "--no-recalc-timestamp" in argv:
        # wall-clock independence without SOURCE_DATE_EPOCH: recalcTimestamp=False everywhere
        from fontTools.ttLib import ttFont as _tf

        orig_init = _tf.TTFont.__init__

        def init(self, *a, **kw):
            kw.setdefault("recalcTimestamp", False)
            orig_init(self, *a, **kw)

        _tf.TTFont.__init__ = init
    res = {}
    its = items()
    for i, (name, thunk) in enumerate(its):
        if i % nshards != shard:
            continue
        try:
            res[name] = sha(thunk())
        except Exception as e:
            res[name] = "EXC:%s:%s" % (type(e).__name__, str(e)[:80])
    sys.stdout.write("\nRESULT " + json.dumps(res, sort_keys=True) + "\n")


if __name__ == "__main__":
    main(sys.argv)
