"""Canonical outline geometry: contours as lists of absolute Bezier segments.

Two recordings denote the same filled/stroked geometry iff their canonical forms are equal
(within eps): implied on-curve points made explicit (quadratic splines are split into single
quadratics), closing line made explicit, zero-length lines dropped, contour rotated to a
canonical start, contours sorted.
"""
from fractions import Fraction
import math

from fontTools.pens.basePen import decomposeSuperBezierSegment


class SegPen:
    """Independent segment pen (does not derive from BasePen): collects ('L'|'Q'|'C', p0..pn)
    segments per contour.  Implied on-curve points of quadratic splines and the TrueType
    "no on-curve point" contour are expanded here from the pen-protocol definition.
    Components are decomposed through `glyphSet` with the affine transform applied here."""

    def __init__(self, glyphSet=None, transform=None, depth=0):
        self.glyphSet = glyphSet
        self.contours = []
        self._cur = None
        self._start = None
        self._pt = None
        self.t = transform
        self.depth = depth
        self.components = []

    def _tx(self, pt):
        if self.t is None:
            return (pt[0], pt[1])
        a, b, c, d, e, f = self.t
        x, y = pt
        return (a * x + c * y + e, b * x + d * y + f)

    def moveTo(self, pt):
        self._flush(False)
        pt = self._tx(pt)
        self._cur = []
        self._start = pt
        self._pt = pt

    def lineTo(self, pt):
        pt = self._tx(pt)
        self._cur.append(("L", self._pt, pt))
        self._pt = pt

    def curveTo(self, *pts):
        n = len(pts) - 1
        if n == 2:
            p1, p2, p3 = (self._tx(p) for p in pts)
            self._cur.append(("C", self._pt, p1, p2, p3))
            self._pt = p3
        elif n == 1:
            self.qCurveTo(*pts)
        elif n == 0:
            self.lineTo(pts[0])
        else:
            for p1, p2, p3 in decomposeSuperBezierSegment(pts):
                self.curveTo(p1, p2, p3)

    def qCurveTo(self, *pts):
        if pts[-1] is None:
            # contour without on-curve point: start at the implied point between last and first
            offs = pts[:-1]
            x, y = offs[-1]
            nx, ny = offs[0]
            start = (0.5 * (x + nx), 0.5 * (y + ny))
            self.moveTo(start)
            pts = offs + (start,)
        if len(pts) == 1:
            self.lineTo(pts[0])
            return
        offs = pts[:-1]
        for i in range(len(offs) - 1):
            x, y = offs[i]
            nx, ny = offs[i + 1]
            mid = (0.5 * (x + nx), 0.5 * (y + ny))
            self._q(offs[i], mid)
        self._q(offs[-1], pts[-1])

    def _q(self, p1, p2):
        p1 = self._tx(p1)
        p2 = self._tx(p2)
        self._cur.append(("Q", self._pt, p1, p2))
        self._pt = p2

    def closePath(self):
        if self._cur is not None and self._pt != self._start:
            self._cur.append(("L", self._pt, self._start))
        self._flush(True)

    def endPath(self):
        self._flush(False)

    def addComponent(self, glyphName, transformation):
        self._flush(False)
        self.components.append((glyphName, tuple(transformation)))
        if self.glyphSet is None:
            return
        ta = tuple(transformation)
        if self.t is not None:
            # compose: first ta, then self.t
            a, b, c, d, e, f = ta
            A, B, C, D, E, F = self.t
            ta = (A * a + C * b, B * a + D * b, A * c + C * d, B * c + D * d, A * e + C * f + E, B * e + D * f + F)
        sub = SegPen(self.glyphSet, ta, self.depth + 1)
        self.glyphSet[glyphName].draw(sub)
        sub._flush(False)
        self.contours.extend(sub.contours)

    def _flush(self, closed):
        if self._cur is not None:
            self.contours.append((closed, self._start, self._cur))
        self._cur = None


def _f(pt):
    return (float(pt[0]), float(pt[1]))


def _seglen(seg):
    pts = seg[1:]
    return max(abs(pts[i][0] - pts[0][0]) + abs(pts[i][1] - pts[0][1]) for i in range(1, len(pts)))


def canon_contours(contours, eps=1e-3, keep_open=True, drop_points=True):
    """contours: list of (closed, start, [segments]).  Returns a sorted list of canonical
    contours: (closed, ((kind, pts...), ...)) with float coordinates."""
    out = []
    for closed, start, segs in contours:
        segs = [(s[0],) + tuple(_f(p) for p in s[1:]) for s in segs]
        segs = [s for s in segs if _seglen(s) > eps]
        # demote degenerate curves whose control points lie on the end points
        if not segs:
            if drop_points:
                continue
            out.append((closed, (("P", _f(start)),)))
            continue
        if closed:
            # rotate so that the lexicographically smallest start point (then segment) is first
            keys = [(round(s[1][0], 3), round(s[1][1], 3), s[0], tuple((round(p[0], 3), round(p[1], 3)) for p in s[2:])) for s in segs]
            i = keys.index(min(keys))
            segs = segs[i:] + segs[:i]
        elif not keep_open:
            continue
        out.append((closed, tuple(segs)))
    out.sort(key=lambda c: repr(_round_contour(c)))
    return out


def _round_contour(c, nd=2):
    closed, segs = c
    return (closed, tuple((s[0],) + tuple((round(p[0], nd) + 0.0, round(p[1], nd) + 0.0) for p in s[1:]) for s in segs))


def contours_close(a, b, tol):
    """Compare two canonical forms; returns None if equal within tol, else a message."""
    if len(a) != len(b):
        return "contour count %d vs %d" % (len(a), len(b))
    # canonical sorting/rotation can differ under noise: try matching greedily
    used = [False] * len(b)
    for ca in a:
        found = False
        for j, cb in enumerate(b):
            if used[j]:
                continue
            if _contour_close(ca, cb, tol):
                used[j] = True
                found = True
                break
        if not found:
            return "no match for contour %s" % (repr(_round_contour(ca))[:300],)
    return None


def _contour_close(ca, cb, tol):
    if ca[0] != cb[0] or len(ca[1]) != len(cb[1]):
        return False
    sa, sb = ca[1], cb[1]
    n = len(sa)
    rots = range(n) if ca[0] else (0,)
    for r in rots:
        ok = True
        for i in range(n):
            x, y = sa[i], sb[(i + r) % n]
            if x[0] != y[0] or len(x) != len(y):
                ok = False
                break
            for p, q in zip(x[1:], y[1:]):
                if abs(p[0] - q[0]) > tol or abs(p[1] - q[1]) > tol:
                    ok = False
                    break
            if not ok:
                break
        if ok:
            return True
    return False


def record(draw, glyphSet=None):
    """draw(pen) -> canonical contours"""
    pen = SegPen(glyphSet)
    draw(pen)
    pen._flush(False)
    return canon_contours(pen.contours)


def max_abs(can):
    m = 0.0
    for _c, segs in can:
        for s in segs:
            for p in s[1:]:
                m = max(m, abs(p[0]), abs(p[1]))
    return m


# ---- exact area (Green's theorem) for closed contours with rational coordinates
def _fr(p):
    return (Fraction(p[0]), Fraction(p[1]))


def signed_area(contours):
    """Exact signed area of closed contours given as (closed, start, segs)."""
    total = Fraction(0)
    for closed, _start, segs in contours:
        if not closed:
            continue
        for s in segs:
            k = s[0]
            pts = [_fr(p) for p in s[1:]]
            if k == "L":
                (x0, y0), (x1, y1) = pts
                total += (x0 * y1 - x1 * y0) / 2
            elif k == "Q":
                (x0, y0), (x1, y1), (x2, y2) = pts
                # integral of x dy - y dx over quadratic
                total += ((x0 * y1 - x1 * y0) * 2 + (x0 * y2 - x2 * y0) + (x1 * y2 - x2 * y1) * 2) / 6
            else:
                (x0, y0), (x1, y1), (x2, y2), (x3, y3) = pts
                total += (
                    (x0 * y1 - x1 * y0) * 6
                    + (x0 * y2 - x2 * y0) * 3
                    + (x0 * y3 - x3 * y0)
                    + (x1 * y2 - x2 * y1) * 3
                    + (x1 * y3 - x3 * y1) * 3
                    + (x2 * y3 - x3 * y2) * 6
                ) / 20
    return total
