"""C08 font pool: the instancer test VFs and every other variable font of the corpus that is
inside the instancer's domain, plus generated tinyfont VFs (1..3 axes, with/without avar,
variable kerning / mark anchors / feature variations, glyf and CFF2)."""
from mc import env  # noqa: F401

import io

from fontTools.ttLib import TTFont

from . import corpus, tinyfont

REQUIRED = ("head", "hhea", "hmtx", "maxp", "cmap", "name")

FEA_VARMARK = """
languagesystem DFLT dflt;
languagesystem latn dflt;
markClass m <anchor %(10,100)d %(11,600)d> @TOP;
markClass n <anchor %(12,120)d %(13,-20)d> @BOT;
table GDEF { GlyphClassDef [a b c d e], , [m n], ; } GDEF;
feature kern { pos a b %(0,-40)d; pos b c %(1,25)d; pos [c e] [a e] %(2,10)d; } kern;
feature mark {
  pos base a <anchor %(14,250)d %(15,700)d> mark @TOP <anchor %(16,240)d %(17,0)d> mark @BOT;
  pos base b <anchor %(18,260)d %(19,710)d> mark @TOP;
} mark;
feature mkmk { pos mark m <anchor %(20,100)d %(21,900)d> mark @TOP; } mkmk;
feature liga { sub a b by c; } liga;
"""

MARK_GLYPHS = ["a", "b", "c", "d", "e", "m", "n"]
MARK_CMAP = {97: "a", 98: "b", 99: "c", 100: "d", 101: "e", 0x301: "m", 0x323: "n"}


def tiny_specs():
    P = tinyfont.pool()
    S = {}
    S["vf-ttf-1axis"] = P["vf-ttf-1axis"]
    S["vf-ttf-2axis-avar"] = P["vf-ttf-2axis"]
    S["vf-cff2-1axis"] = P["vf-cff2-1axis"]
    S["vf-ttf-1axis-avar"] = {
        "kind": "ttf", "shapes": "mixed", "glyphs": ["a", "b", "c", "d", "e"], "composite": True,
        "axes": [["wght", 100, 400, 900]],
        "masters": [{"wght": 400}, {"wght": 100}, {"wght": 900}, {"wght": 250}, {"wght": 700}],
        "avar": {"wght": [[100, 100], [250, 180], [400, 400], [650, 750], [900, 900]]},
        "fea": tinyfont.FEA_VAR,
    }
    S["vf-ttf-2axis-mark"] = {
        "kind": "ttf", "shapes": "mixed", "glyphs": MARK_GLYPHS, "cmap": MARK_CMAP,
        "axes": [["wght", 100, 400, 900], ["wdth", 50, 100, 200]],
        "masters": [{}, {"wght": 100}, {"wght": 900}, {"wdth": 50}, {"wdth": 200}, {"wght": 900, "wdth": 200},
                    {"wght": 100, "wdth": 50}, {"wght": 650}, {"wdth": 150}],
        "fea": FEA_VARMARK, "coef": 3,
    }
    S["vf-ttf-3axis-avar"] = {
        "kind": "ttf", "shapes": "mixed", "glyphs": ["a", "b", "c", "d", "e"], "composite": True,
        "axes": [["wght", 100, 400, 900], ["wdth", 50, 100, 200], ["opsz", 8, 14, 72]],
        "masters": [{}, {"wght": 100}, {"wght": 900}, {"wdth": 50}, {"wdth": 200}, {"opsz": 8}, {"opsz": 72},
                    {"wght": 900, "wdth": 200}, {"wght": 900, "opsz": 72}, {"wght": 900, "wdth": 200, "opsz": 72}, {"opsz": 36}],
        "avar": {"opsz": [[8, 8], [14, 14], [24, 40], [72, 72]], "wght": [[100, 100], [400, 350], [900, 900]]},
        "fea": tinyfont.FEA_VAR,
    }
    S["vf-ttf-3axis"] = {
        "kind": "ttf", "shapes": "box", "glyphs": ["a", "b", "c", "d", "e"],
        "axes": [["wght", 100, 100, 900], ["wdth", 50, 100, 100], ["opsz", 8, 14, 72]],
        "masters": [{}, {"wght": 900}, {"wdth": 50}, {"opsz": 8}, {"opsz": 72}, {"wght": 900, "wdth": 50}, {"wght": 500}],
        "fea": tinyfont.FEA_VAR, "coef": 1,
    }
    S["vf-cff2-2axis-avar"] = {
        "kind": "cff", "shapes": "mixed", "glyphs": ["a", "b", "c", "d", "e"],
        "axes": [["wght", 100, 400, 900], ["wdth", 50, 100, 200]],
        "masters": [{}, {"wght": 100}, {"wght": 900}, {"wdth": 50}, {"wdth": 200}, {"wght": 900, "wdth": 200}, {"wght": 650}],
        "avar": {"wght": [[100, 100], [400, 350], [900, 900]], "wdth": [[50, 50], [100, 100], [150, 170], [200, 200]]},
        "fea": tinyfont.FEA_VAR,
    }
    S["vf-ttf-2axis-fvboth"] = {
        "kind": "ttf", "shapes": "mixed", "glyphs": ["a", "b", "c", "d", "e"],
        "axes": [["wght", 100, 400, 900], ["wdth", 50, 100, 200]],
        "masters": [{}, {"wght": 100}, {"wght": 900}, {"wdth": 50}, {"wdth": 200}, {"wght": 900, "wdth": 200}],
        "coef": 2,
    }
    return S


# feature files compiled into generated fonts after the build (the font then has its fvar): feature
# variations in GSUB *and* GPOS that share their condition sets
FEA_VARIATIONS = {
    "vf-ttf-2axis-fvboth": """
languagesystem DFLT dflt;
feature kern { pos a b -20; pos d e 12; } kern;
conditionset heavy { wght 650 900; } heavy;
variation rvrn heavy { sub a by b; } rvrn;
variation kern heavy { pos a b -90; pos c d 30; } kern;
conditionset narrow { wdth 50 75; } narrow;
variation kern narrow { pos b c 17; } kern;
variation rvrn narrow { sub c by e; } rvrn;
""",
}

# feature variations added to generated fonts after the build (normalised coordinates)
FEATURE_VARS = {
    "vf-ttf-1axis": [([{"wght": (0.5, 1.0)}], {"a": "b"}), ([{"wght": (-1.0, -0.25)}], {"c": "e"})],
    "vf-ttf-2axis-avar": [([{"wght": (0.5, 1.0), "wdth": (0.25, 1.0)}], {"a": "b"}), ([{"wght": (-1.0, -0.5)}], {"c": "e"}),
                          ([{"wdth": (-1.0, -0.5)}, {"wght": (0.75, 1.0)}], {"b": "e"})],
    "vf-cff2-2axis-avar": [([{"wght": (0.5, 1.0)}], {"a": "b"}), ([{"wdth": (-1.0, -0.5)}], {"c": "e"})],
    "vf-ttf-3axis-avar": [([{"opsz": (0.5, 1.0)}], {"a": "b"}), ([{"wght": (0.25, 1.0), "wdth": (-1.0, -0.25)}], {"c": "e"})],
}


def build_tiny(name, spec):
    font = tinyfont.build(spec)
    fv = FEATURE_VARS.get(name)
    if fv:
        from fontTools.varLib.featureVars import addFeatureVariations

        font = tinyfont.reload(font)
        addFeatureVariations(font, fv, featureTag="rvrn")
    fea = FEA_VARIATIONS.get(name)
    if fea:
        from fontTools.feaLib.builder import addOpenTypeFeaturesFromString

        font = tinyfont.reload(font)
        addOpenTypeFeaturesFromString(font, fea)
    return tinyfont.to_bytes(font)


def _sfnt(data, idx):
    f = TTFont(io.BytesIO(data), fontNumber=idx)
    f.flavor = None
    b = io.BytesIO()
    f.save(b, reorderTables=None)
    return b.getvalue()


def in_domain(f):
    """(ok, reason): variable fonts the instancer's documentation covers and both observers
    can read"""
    if "fvar" not in f:
        return False, "static"
    if "VARC" in f:
        return False, "VARC (instancing across VarComponent axes is documented as unsupported)"
    if not all(t in f for t in REQUIRED):
        return False, "incomplete test fragment (lacks one of hhea/hmtx/cmap/name)"
    if "glyf" in f and "gvar" not in f:
        return False, "glyf without gvar (gvar is required in a TrueType variable font)"
    if not ("glyf" in f or "CFF2" in f):
        return False, "no outlines"
    return True, None


def _variable_ttx():
    """[(name, bytes)] of the corpus TTX dumps that contain an fvar table, compiled with the
    tree under test by the same function corpus.compiled_ttx() uses"""
    import multiprocessing

    paths = []
    for path in corpus.ttx_files():
        with open(path, "rb") as fh:
            if b"<fvar" in fh.read():
                paths.append(path)
    ctx = multiprocessing.get_context("fork")
    with ctx.Pool(min(16, max(1, len(paths)))) as pool:
        res = pool.map(corpus._compile_ttx, paths, chunksize=1)
    ok = [(n, d) for n, d, err in res if d is not None]
    ok.sort(key=lambda t: (len(t[1]), t[0]))
    return ok


def load():
    """-> (fonts {key: bytes}, excluded [(name, reason)])"""
    fonts, excluded = {}, []
    for name, data in _variable_ttx():
        f = TTFont(io.BytesIO(data), lazy=True)
        if "fvar" not in f:
            continue
        ok, why = in_domain(f)
        if not ok:
            excluded.append((name, why))
            continue
        fonts["ttx:" + name] = data
    for name, data, idx in corpus.binary_faces():
        try:
            f = TTFont(io.BytesIO(data), fontNumber=idx, lazy=True)
            if "fvar" not in f:
                continue
        except Exception:
            continue
        ok, why = in_domain(f)
        if not ok:
            excluded.append((name, why))
            continue
        fonts["bin:" + name] = _sfnt(data, idx)
    for name, spec in sorted(tiny_specs().items()):
        fonts["tiny:" + name] = build_tiny(name, spec)
    return fonts, excluded
