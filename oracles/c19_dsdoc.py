"""C19 helpers: designspace documents from a grammar.

A document is described by a JSON-able *spec*.  `build(spec)` makes the DesignSpaceDocument
with the public descriptor classes, `expected(spec)` computes what a reader must return
(from the designspace format documentation: defaults, which features need format 5, how
format 4 completes locations), `extract(doc)` reads the fields of a document object.
Anisotropic values are [x, y] lists in specs and tuples in documents.
"""
import copy
import math
from fractions import Fraction

from fontTools.designspaceLib import (
    AxisDescriptor,
    AxisLabelDescriptor,
    AxisMappingDescriptor,
    DesignSpaceDocument,
    DiscreteAxisDescriptor,
    InstanceDescriptor,
    LocationLabelDescriptor,
    RangeAxisSubsetDescriptor,
    RuleDescriptor,
    SourceDescriptor,
    ValueAxisSubsetDescriptor,
    VariableFontDescriptor,
)

from oracles.c19_glif import lib_value

NESTED_LIB = {
    "com.example.str": "a<b>&\"c\" é \U0001d49c",
    "com.example.nested": {"list": [0, -1, 2.5, True, False, {"__data__": "00ff"}, {"__date__": [2001, 2, 3, 4, 5, 6]}, [], {}], "deep": {"deeper": {"k": [1]}}},
    "com.example.int": 18446744073709551615,
}


def base_spec(fmt):
    return {
        "format": fmt,
        "elidedFallbackName": None,
        "axes": [
            {"kind": "range", "tag": "wght", "name": "Weight", "minimum": 100, "default": 400, "maximum": 900, "hidden": False,
             "map": [[100, 20], [400, 80], [900, 220]], "labelNames": {}, "axisOrdering": None, "axisLabels": []},
            {"kind": "range", "tag": "wdth", "name": "Width", "minimum": 50, "default": 100, "maximum": 200, "hidden": False,
             "map": [], "labelNames": {}, "axisOrdering": None, "axisLabels": []},
        ],
        "axisMappings": [],
        "locationLabels": [],
        "rules": [
            {"name": "fold", "conditionSets": [[{"name": "Weight", "minimum": 100, "maximum": 220}]], "subs": [["a", "a.alt"]]},
        ],
        "rulesProcessingLast": False,
        "sources": [
            {"filename": "masters/Light.ufo", "name": "master.light", "designLocation": {"Weight": 80, "Width": 100}, "layerName": None,
             "familyName": "Fam", "styleName": "Light", "localisedFamilyName": {}, "copyLib": False, "copyInfo": False, "copyGroups": False,
             "copyFeatures": False, "muteKerning": False, "muteInfo": False, "mutedGlyphNames": []},
            {"filename": "masters/Bold.ufo", "name": "master.bold", "designLocation": {"Weight": 220, "Width": 100}, "layerName": None,
             "familyName": "Fam", "styleName": "Bold", "localisedFamilyName": {}, "copyLib": False, "copyInfo": False, "copyGroups": False,
             "copyFeatures": False, "muteKerning": False, "muteInfo": False, "mutedGlyphNames": []},
        ],
        "variableFonts": [],
        "instances": [
            {"filename": "instances/Medium.ufo", "name": "inst.medium", "locationLabel": None, "designLocation": {"Weight": 120, "Width": 100},
             "userLocation": {}, "familyName": "Fam", "styleName": "Medium", "postScriptFontName": None, "styleMapFamilyName": None,
             "styleMapStyleName": None, "localisedFamilyName": {}, "localisedStyleName": {}, "localisedStyleMapFamilyName": {},
             "localisedStyleMapStyleName": {}, "lib": {}, "glyphs": {}},
        ],
        "lib": {},
    }


# ---------------------------------------------------------------- deviations
def _inst(s):
    return s["instances"][0] if s["instances"] else None


def _second_instance(s):
    i = copy.deepcopy(base_spec("5.0")["instances"][0])
    i.update(name="inst.second", filename=None, styleName="Second", designLocation={"Weight": 200.5, "Width": 75})
    s["instances"].append(i)


def _third_source(s):
    src = copy.deepcopy(base_spec("5.0")["sources"][0])
    src.update(name="master.wide", filename="masters/Wide.ufo", styleName="Wide", designLocation={"Weight": 80, "Width": 200})
    s["sources"].append(src)


def _one_axis(s):
    del s["axes"][1:]


def _discrete(s):
    a = s["axes"][-1]
    name, tag = a["name"], a["tag"]
    a.clear()
    a.update({"kind": "discrete", "tag": tag, "name": name, "values": [50, 100, 200], "default": 100, "hidden": False,
              "map": [[50, 5], [100, 10], [200, 20.5]], "labelNames": {}, "axisOrdering": None, "axisLabels": []})


def _setax(i, **kw):
    def f(s):
        if len(s["axes"]) > i and not (s["axes"][i]["kind"] == "discrete" and "minimum" in kw):
            s["axes"][i].update(copy.deepcopy(kw))
    return f


def _setsrc(i, **kw):
    def f(s):
        if len(s["sources"]) > i:
            s["sources"][i].update(copy.deepcopy(kw))
    return f


def _setinst(**kw):
    def f(s):
        if s["instances"]:
            s["instances"][0].update(copy.deepcopy(kw))
    return f


def _setrule(**kw):
    def f(s):
        if s["rules"]:
            s["rules"][0].update(copy.deepcopy(kw))
    return f


def _set(key, value):
    def f(s):
        s[key] = copy.deepcopy(value)
    return f


def _vf(**kw):
    def f(s):
        v = {"name": "VF", "filename": None, "axisSubsets": [{"name": "Weight"}], "lib": {}}
        v.update(copy.deepcopy(kw))
        s["variableFonts"] = [v]
    return f


LABELS = [
    {"name": "Regular", "userValue": 400, "userMinimum": None, "userMaximum": None, "elidable": True, "olderSibling": False, "linkedUserValue": 700, "labelNames": {"de": "Normal<&>"}},
    {"name": "Bold", "userValue": 700, "userMinimum": 650.5, "userMaximum": 900, "elidable": False, "olderSibling": True, "linkedUserValue": None, "labelNames": {}},
    {"name": "Thin", "userValue": 100, "userMinimum": None, "userMaximum": None, "elidable": False, "olderSibling": False, "linkedUserValue": None, "labelNames": {"en": "Thin", "fa-IR": "قطر"}},
]

# name -> mutator.  Names starting with "suspect-" are combinations the documentation allows whose
# round trip is suspected to be impossible (they get their own violation keys).
DEVIATIONS = [
    ("elided-fallback", _set("elidedFallbackName", "Regular & <x>")),
    ("one-axis", _one_axis),
    ("discrete-axis", _discrete),
    ("axis-hidden", _setax(1, hidden=True)),
    ("axis-no-map", _setax(0, map=[])),
    ("axis-float-map", _setax(0, map=[[100, 20.25], [400.5, 80], [900, 220.125]])),
    ("axis-flat-map", _setax(0, map=[[100, 20], [400, 80], [500, 80], [900, 220]])),
    # results of float arithmetic: a hair off a number that ends in 0 (0.1*3*1000, 1.1*100, 0.1+0.2)
    ("axis-float-noise-map", _setax(0, map=[[100, 20], [400, 110.00000000000001], [900, 300.00000000000006]])),
    ("axis-float-noise-range", _setax(1, minimum=0.30000000000000004, default=100.00000000000001, maximum=200.00000000000003)),
    ("axis-labelnames", _setax(0, labelNames={"en": "Wéíght", "fr": "Graisse <&> \"q\"", "fa-IR": "قطر"})),
    ("axis-ordering", _setax(0, axisOrdering=0)),
    ("axis-ordering-2", _setax(1, axisOrdering=3)),
    ("axis-labels", _setax(0, axisLabels=LABELS)),
    ("axis-label-single", _setax(1, axisLabels=LABELS[2:])),
    ("axis-negative", _setax(1, minimum=-100, default=0, maximum=0.5)),
    ("axis-default-at-min", _setax(0, default=100)),
    ("axis-tag-custom", _setax(1, tag="WD 1", name="Wi dth")),
    ("axis-mappings", _set("axisMappings", [
        {"inputLocation": {"Weight": 900, "Width": 50}, "outputLocation": {"Weight": 870}, "description": None, "groupDescription": None}])),
    ("axis-mappings-groups", _set("axisMappings", [
        {"inputLocation": {"Weight": 900}, "outputLocation": {"Weight": 870.5}, "description": "first <&>", "groupDescription": "group A"},
        {"inputLocation": {"Weight": 100}, "outputLocation": {"Width": 60}, "description": None, "groupDescription": "group A"},
        {"inputLocation": {"Width": 200}, "outputLocation": {"Weight": 100, "Width": 190}, "description": None, "groupDescription": "group B"}])),
    # groups named alike but not adjacent (A, B, A, none, A): the order of the mappings is what avar2 applies
    ("axis-mappings-interleaved", _set("axisMappings", [
        {"inputLocation": {"Weight": 900}, "outputLocation": {"Weight": 870}, "description": None, "groupDescription": "group A"},
        {"inputLocation": {"Weight": 100}, "outputLocation": {"Width": 60}, "description": None, "groupDescription": "group B"},
        {"inputLocation": {"Width": 200}, "outputLocation": {"Width": 190}, "description": "third", "groupDescription": "group A"},
        {"inputLocation": {"Width": 50}, "outputLocation": {"Weight": 120}, "description": None, "groupDescription": None},
        {"inputLocation": {"Weight": 400, "Width": 50}, "outputLocation": {"Weight": 410}, "description": None, "groupDescription": "group A"}])),
    ("location-labels", _set("locationLabels", [
        {"name": "Some Style", "userLocation": {"Weight": 300}, "elidable": False, "olderSibling": False, "labelNames": {"fr": "Un Style"}},
        {"name": "Other", "userLocation": {"Weight": 500.5}, "elidable": True, "olderSibling": True, "labelNames": {}}])),
    ("no-rules", _set("rules", [])),
    ("rules-last", _set("rulesProcessingLast", True)),
    ("rule-two-sets", _setrule(conditionSets=[[{"name": "Weight", "minimum": 100, "maximum": 220}], [{"name": "Weight", "minimum": 20.5, "maximum": 50}, {"name": "Width", "minimum": 150, "maximum": 200}]])),
    ("rule-min-only", _setrule(conditionSets=[[{"name": "Weight", "minimum": 100, "maximum": None}]])),
    ("rule-max-only", _setrule(conditionSets=[[{"name": "Weight", "minimum": None, "maximum": 0}]])),
    ("rule-empty-set", _setrule(conditionSets=[[]])),
    ("rule-two-subs", _setrule(subs=[["a", "a.alt"], ["dollar", "dollar.<&>"]])),
    ("rule-unnamed", _setrule(name=None)),
    ("second-rule", lambda s: s["rules"].append({"name": "r2", "conditionSets": [[{"name": "Weight", "minimum": 0, "maximum": 1}]], "subs": [["b", "b.alt"]]})),
    ("one-source", lambda s: s["sources"].__delitem__(slice(1, None))),
    ("three-sources", _third_source),
    ("source-layer", _setsrc(1, layerName="bg <layer>")),
    ("source-no-names", _setsrc(0, familyName=None, styleName=None)),
    ("source-names-special", _setsrc(0, familyName="F & \"G\" <H> é", styleName="  padded  ")),
    ("source-localised", _setsrc(0, localisedFamilyName={"fr": "Caractère", "ja": "ファミリー"})),
    ("source-copyLib", _setsrc(0, copyLib=True)),
    ("source-copyInfo", _setsrc(0, copyInfo=True)),
    ("source-copyGroups", _setsrc(1, copyGroups=True)),
    ("source-copyFeatures", _setsrc(0, copyFeatures=True)),
    ("source-muteKerning", _setsrc(1, muteKerning=True)),
    ("source-muteInfo", _setsrc(0, muteInfo=True)),
    ("source-copy-and-mute-info", _setsrc(1, muteInfo=True, copyInfo=True)),
    ("source-mutedGlyphs", _setsrc(1, mutedGlyphNames=["A", "Z.alt", "é"])),
    ("source-no-filename", _setsrc(1, filename=None)),
    ("source-partial-location", _setsrc(1, designLocation={"Weight": 220})),
    ("source-float-location", _setsrc(0, designLocation={"Weight": 20.125, "Width": 50.000001})),
    ("source-float-noise-location", _setsrc(0, designLocation={"Weight": 20.000000000000004, "Width": 50.00000000000001})),
    ("no-instances", _set("instances", [])),
    ("two-instances", _second_instance),
    ("instance-minimal", _setinst(filename=None, name=None, familyName=None, styleName=None)),
    ("instance-names", _setinst(postScriptFontName="Fam-Medium", styleMapFamilyName="Fam Medium", styleMapStyleName="bold italic")),
    ("instance-names-special", _setinst(familyName="F<&>\"'", styleName="é\U0001d49c")),
    ("instance-localised-style", _setinst(localisedStyleName={"fr": "Demi-gras", "ja": "半ば"})),
    ("instance-localised-family", _setinst(localisedFamilyName={"fr": "Montserrat", "ja": "モンセラート"})),
    ("instance-localised-stylemap", _setinst(localisedStyleMapStyleName={"de": "Standard"}, localisedStyleMapFamilyName={"de": "Montserrat Halbfett"})),
    ("instance-anisotropic", _setinst(designLocation={"Weight": [120, 130.5], "Width": 100})),
    ("instance-user-location", _setinst(designLocation={}, userLocation={"Weight": 500, "Width": 100})),
    ("instance-mixed-location", _setinst(designLocation={"Weight": 120}, userLocation={"Width": 150.5})),
    ("instance-partial-location", _setinst(designLocation={"Width": 75})),
    ("instance-location-label", lambda s: (_set("locationLabels", [{"name": "Some Style", "userLocation": {"Weight": 300}, "elidable": False, "olderSibling": False, "labelNames": {}}])(s), _setinst(designLocation={}, locationLabel="Some Style")(s))),
    ("instance-lib", _setinst(lib=NESTED_LIB)),
    ("instance-lib-small", _setinst(lib={"k": False})),
    ("instance-glyphs-v4", _setinst(glyphs={"A": {"mute": True, "unicodes": [0x41, 0x1F600]}, "arrow": {"note": "a note <&>"}})),
    ("vf-whole-axis", _vf()),
    ("vf-range", _vf(axisSubsets=[{"name": "Weight", "userMinimum": 400, "userDefault": 400.5, "userMaximum": 500}])),
    ("vf-value", _vf(axisSubsets=[{"name": "Weight"}, {"name": "Width", "userValue": 75.5}])),
    ("vf-filename-lib", _vf(filename="VF-out.ttf", lib=NESTED_LIB)),
    ("vf-two", lambda s: s.__setitem__("variableFonts", [
        {"name": "VF1", "filename": None, "axisSubsets": [{"name": "Weight"}], "lib": {}},
        {"name": "VF2 <&>", "filename": "x.ttf", "axisSubsets": [{"name": "Width"}, {"name": "Weight", "userValue": 400}], "lib": {"a": 1}}])),
    ("suspect-vf-range-min-only", _vf(axisSubsets=[{"name": "Weight", "userMinimum": 400}])),
    ("suspect-vf-range-default-only", _vf(axisSubsets=[{"name": "Weight", "userDefault": 500}])),
    ("suspect-vf-range-min-max", _vf(axisSubsets=[{"name": "Weight", "userMinimum": 400, "userMaximum": 500}])),
    ("suspect-vf-no-subsets", _vf(axisSubsets=[])),
    ("lib-nested", _set("lib", NESTED_LIB)),
    ("lib-small", _set("lib", {"com.example": [1, "two", 3.5]})),
]
DEV_INDEX = {n: i for i, (n, f) in enumerate(DEVIATIONS)}


def apply_deviations(fmt, idxs):
    s = base_spec(fmt)
    for i in idxs:
        DEVIATIONS[i][1](s)
    _prune(s)
    return s


def _prune(s):
    """Keep the document self-consistent after structural deviations: locations, conditions,
    mappings, subsets only mention existing axes; discrete axes cannot be ranged over."""
    axes = {a["name"]: a for a in s["axes"]}

    def keep(loc):
        return {k: v for k, v in loc.items() if k in axes}

    for src in s["sources"]:
        src["designLocation"] = keep(src["designLocation"])
    for inst in s["instances"]:
        inst["designLocation"] = keep(inst["designLocation"])
        # an axis is given either in design or in user coordinates
        inst["userLocation"] = {k: v for k, v in keep(inst["userLocation"]).items() if k not in inst["designLocation"]}
    for lab in s["locationLabels"]:
        lab["userLocation"] = keep(lab["userLocation"])
    for m in s["axisMappings"]:
        m["inputLocation"] = keep(m["inputLocation"])
        m["outputLocation"] = keep(m["outputLocation"])
    for r in s["rules"]:
        r["conditionSets"] = [[c for c in cs if c["name"] in axes] for cs in r["conditionSets"]]
    for vf in s["variableFonts"]:
        vf["axisSubsets"] = [x for x in vf["axisSubsets"] if x["name"] in axes]
    if any(i["locationLabel"] for i in s["instances"]) and not s["locationLabels"]:
        for i in s["instances"]:
            i["locationLabel"] = None


# ---------------------------------------------------------------- spec -> document
def _loc(d):
    return {k: (tuple(v) if isinstance(v, list) else v) for k, v in d.items()}


def build(spec):
    doc = DesignSpaceDocument()
    doc.formatVersion = spec["format"]
    doc.elidedFallbackName = spec["elidedFallbackName"]
    for a in spec["axes"]:
        labels = [AxisLabelDescriptor(**copy.deepcopy(lab)) for lab in a["axisLabels"]]
        common = dict(tag=a["tag"], name=a["name"], labelNames=dict(a["labelNames"]), hidden=a["hidden"],
                      map=[tuple(p) for p in a["map"]], axisOrdering=a["axisOrdering"], axisLabels=labels)
        if a["kind"] == "range":
            doc.addAxis(AxisDescriptor(minimum=a["minimum"], default=a["default"], maximum=a["maximum"], **common))
        else:
            doc.addAxis(DiscreteAxisDescriptor(values=list(a["values"]), default=a["default"], **common))
    for m in spec["axisMappings"]:
        doc.addAxisMapping(AxisMappingDescriptor(inputLocation=dict(m["inputLocation"]), outputLocation=dict(m["outputLocation"]),
                                                 description=m["description"], groupDescription=m["groupDescription"]))
    for lab in spec["locationLabels"]:
        doc.addLocationLabel(LocationLabelDescriptor(name=lab["name"], userLocation=dict(lab["userLocation"]), elidable=lab["elidable"],
                                                     olderSibling=lab["olderSibling"], labelNames=dict(lab["labelNames"])))
    for r in spec["rules"]:
        doc.addRule(RuleDescriptor(name=r["name"], conditionSets=copy.deepcopy(r["conditionSets"]), subs=[tuple(x) for x in r["subs"]]))
    doc.rulesProcessingLast = spec["rulesProcessingLast"]
    for s in spec["sources"]:
        kw = {k: copy.deepcopy(v) for k, v in s.items() if k != "designLocation"}
        doc.addSource(SourceDescriptor(designLocation=_loc(s["designLocation"]), **kw))
    for v in spec["variableFonts"]:
        subsets = []
        for x in v["axisSubsets"]:
            if "userValue" in x:
                subsets.append(ValueAxisSubsetDescriptor(name=x["name"], userValue=x["userValue"]))
            else:
                subsets.append(RangeAxisSubsetDescriptor(**x))
        doc.addVariableFont(VariableFontDescriptor(name=v["name"], filename=v["filename"], axisSubsets=subsets, lib=lib_value(v["lib"])))
    for i in spec["instances"]:
        kw = {k: copy.deepcopy(v) for k, v in i.items() if k not in ("designLocation", "lib")}
        doc.addInstance(InstanceDescriptor(designLocation=_loc(i["designLocation"]), lib=lib_value(i["lib"]), **kw))
    doc.lib = lib_value(spec["lib"])
    return doc


# ---------------------------------------------------------------- document -> fields
def extract(doc):
    out = {"elidedFallbackName": doc.elidedFallbackName, "rulesProcessingLast": bool(doc.rulesProcessingLast), "lib": doc.lib, "axes": [],
           "axisMappings": [], "locationLabels": [], "rules": [], "sources": [], "variableFonts": [], "instances": []}
    for a in doc.axes:
        d = {"tag": a.tag, "name": a.name, "default": a.default, "hidden": bool(a.hidden), "map": [list(p) for p in a.map],
             "labelNames": dict(a.labelNames), "axisOrdering": a.axisOrdering,
             "axisLabels": [{k: getattr(lab, k) for k in ("name", "userValue", "userMinimum", "userMaximum", "elidable", "olderSibling", "linkedUserValue")}
                            | {"labelNames": dict(lab.labelNames)} for lab in a.axisLabels]}
        if hasattr(a, "values"):
            d.update(kind="discrete", values=list(a.values))
        else:
            d.update(kind="range", minimum=a.minimum, maximum=a.maximum)
        out["axes"].append(d)
    for m in doc.axisMappings:
        out["axisMappings"].append({"inputLocation": dict(m.inputLocation), "outputLocation": dict(m.outputLocation),
                                    "description": getattr(m, "description", None), "groupDescription": getattr(m, "groupDescription", None)})
    for lab in doc.locationLabels:
        out["locationLabels"].append({"name": lab.name, "userLocation": dict(lab.userLocation), "elidable": lab.elidable,
                                      "olderSibling": lab.olderSibling, "labelNames": dict(lab.labelNames)})
    for r in doc.rules:
        out["rules"].append({"name": r.name, "conditionSets": [[{"name": c.get("name"), "minimum": c.get("minimum"), "maximum": c.get("maximum")} for c in cs]
                                                                for cs in r.conditionSets], "subs": [list(x) for x in r.subs]})
    for s in doc.sources:
        out["sources"].append({"filename": s.filename, "name": s.name, "designLocation": _unloc(s.designLocation), "layerName": s.layerName,
                               "familyName": s.familyName, "styleName": s.styleName, "localisedFamilyName": dict(s.localisedFamilyName),
                               "copyLib": bool(s.copyLib), "copyInfo": bool(s.copyInfo), "copyGroups": bool(s.copyGroups), "copyFeatures": bool(s.copyFeatures),
                               "muteKerning": bool(s.muteKerning), "muteInfo": bool(s.muteInfo), "mutedGlyphNames": list(s.mutedGlyphNames)})
    for v in doc.variableFonts:
        subsets = []
        for x in v.axisSubsets:
            if hasattr(x, "userValue"):
                subsets.append({"name": x.name, "userValue": x.userValue})
            else:
                d = {"name": x.name}
                if x.userMinimum != -math.inf:
                    d["userMinimum"] = x.userMinimum
                if x.userDefault is not None:
                    d["userDefault"] = x.userDefault
                if x.userMaximum != math.inf:
                    d["userMaximum"] = x.userMaximum
                subsets.append(d)
        out["variableFonts"].append({"name": v.name, "filename": v.filename, "axisSubsets": subsets, "lib": v.lib})
    for i in doc.instances:
        out["instances"].append({"filename": i.filename, "name": i.name, "locationLabel": i.locationLabel, "designLocation": _unloc(i.designLocation),
                                 "userLocation": dict(i.userLocation), "familyName": i.familyName, "styleName": i.styleName,
                                 "postScriptFontName": i.postScriptFontName, "styleMapFamilyName": i.styleMapFamilyName,
                                 "styleMapStyleName": i.styleMapStyleName, "localisedFamilyName": dict(i.localisedFamilyName),
                                 "localisedStyleName": dict(i.localisedStyleName), "localisedStyleMapFamilyName": dict(i.localisedStyleMapFamilyName),
                                 "localisedStyleMapStyleName": dict(i.localisedStyleMapStyleName), "lib": i.lib, "glyphs": copy.deepcopy(i.glyphs)})
    return out


def _unloc(d):
    return {k: (list(v) if isinstance(v, tuple) else v) for k, v in (d or {}).items()}


# ---------------------------------------------------------------- what the reader must return
def needs_v5(spec):
    return bool(
        any(a["kind"] == "discrete" or a["axisOrdering"] is not None or a["axisLabels"] for a in spec["axes"])
        or spec["locationLabels"] or spec["variableFonts"] or spec["axisMappings"]
        or any(s["localisedFamilyName"] for s in spec["sources"])
        or any(i["locationLabel"] or i["userLocation"] for i in spec["instances"])
    )


def effective_format(spec):
    nums = tuple(int(x) for x in spec["format"].split("."))
    nums = nums + (0,) * (2 - len(nums))
    if needs_v5(spec) and nums < (5, 0):
        nums = (5, 0)
    if spec["axisMappings"] and nums < (5, 1):
        nums = (5, 1)
    return nums


def pl_map(knots, v):
    """Piecewise linear map with slope-1 continuation outside the knots (designspace <map>)."""
    if not knots:
        return v
    ks = sorted((Fraction(a), Fraction(b)) for a, b in knots)
    v = Fraction(v)
    if v <= ks[0][0]:
        return v + ks[0][1] - ks[0][0]
    if v >= ks[-1][0]:
        return v + ks[-1][1] - ks[-1][0]
    for (a, va), (b, vb) in zip(ks, ks[1:]):
        if a <= v <= b:
            if v == a:
                return va
            return va + (vb - va) * (v - a) / (b - a)
    raise AssertionError


def axis_forward(a, v):
    if a["kind"] == "discrete":
        return next((o for i, o in a["map"] if i == v), v)
    return pl_map(a["map"], v)


def expected(spec):
    exp = copy.deepcopy(spec)
    v5 = effective_format(spec) >= (5, 0)
    exp.pop("format")
    exp["lib"] = lib_value(spec["lib"])
    if not v5:
        # format 4 stores complete locations: an axis that is not mentioned is at its default
        def complete(loc):
            return {a["name"]: loc.get(a["name"], axis_forward(a, a["default"])) for a in spec["axes"]}
        for s in exp["sources"]:
            s["designLocation"] = complete(s["designLocation"])
        for i in exp["instances"]:
            i["designLocation"] = complete(i["designLocation"])
    for i in exp["instances"]:
        i["lib"] = lib_value(i["lib"])
        if v5:
            i["glyphs"] = {}  # deprecated in version 5: not stored
        if i["locationLabel"] is not None:
            i["designLocation"], i["userLocation"] = {}, {}
    for v in exp["variableFonts"]:
        v["lib"] = lib_value(v["lib"])
    if not exp["rules"]:
        exp["rulesProcessingLast"] = False  # an attribute of the <rules> element
    for r in exp["rules"]:
        # a condition without minimum and maximum carries no information and is not stored
        r["conditionSets"] = [[c for c in cs if c["minimum"] is not None or c["maximum"] is not None] for cs in r["conditionSets"]]
    return exp


def vdiff(a, b, path=""):
    """First difference: numbers by value (the reader returns floats), bool is not int,
    list == tuple."""
    if isinstance(a, bool) or isinstance(b, bool):
        return None if (type(a) is type(b) and a == b) else "%s: %r != %r" % (path, a, b)
    if isinstance(a, (int, float, Fraction)) and isinstance(b, (int, float, Fraction)):
        if isinstance(b, Fraction) and b.denominator != 1:
            # a value the writer had to compute (format 4 completion): 6 decimals are stored
            return None if abs(Fraction(a) - b) <= Fraction(1, 1000000) else "%s: %r != %s" % (path, a, float(b))
        if isinstance(a, float) or isinstance(b, float):
            # the document stores numbers with six decimals ('%f'): half a unit of the last one
            return None if abs(a - b) <= 5e-7 else "%s: %r != %r" % (path, a, b)
        return None if a == b else "%s: %r != %r" % (path, a, b)
    if isinstance(b, dict):
        if not isinstance(a, dict) or set(a) != set(b):
            return "%s: keys %r != %r" % (path, sorted(a) if isinstance(a, dict) else a, sorted(b))
        for k in sorted(b):
            d = vdiff(a[k], b[k], "%s.%s" % (path, k))
            if d:
                return d
        return None
    if isinstance(b, (list, tuple)):
        if not isinstance(a, (list, tuple)) or len(a) != len(b):
            return "%s: %r != %r" % (path, a, b)
        for i, (x, y) in enumerate(zip(a, b)):
            d = vdiff(x, y, "%s[%d]" % (path, i))
            if d:
                return d
        return None
    return None if (type(a) is type(b) and a == b) else "%s: %r != %r" % (path, a, b)
