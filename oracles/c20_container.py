"""C20 helper: independent reading of sfnt / TTC / WOFF / WOFF2 containers (struct + zlib only).

Written from the OpenType / WOFF specifications; imports nothing from fontTools.  Used as the
reference of what a damaged container may yield: for every table either exact bytes, or MUST
(the slice is not there, so the only acceptable behaviour is the library's error type).
"""
import struct
import zlib

MUST = "MUST-ERROR"  # marker: reading this can only fail
SFNT_VERSIONS = (b"\x00\x01\x00\x00", b"OTTO", b"true")


class Ref:
    """Reference reading of one face.

    open_error : None | str   -> str: opening can only fail (structure is not there)
    lenient    : bool         -> the version word is unknown: failing *or* opening is acceptable
    tables     : {tag(latin-1 str): bytes | MUST}
    meta/priv  : bytes | None | MUST   (WOFF only)
    """

    def __init__(self):
        self.open_error = None
        self.lenient = False
        self.tables = {}
        self.order = []
        self.meta = None
        self.priv = None
        self.kind = "sfnt"
        self.dir_end = 0
        self.spans = {}  # tag -> (offset, stored length)


def _err(kind, why):
    r = Ref()
    r.kind = kind
    r.open_error = why
    return r


def kind_of(data):
    m = data[:4]
    if m == b"ttcf":
        return "ttc"
    if m == b"wOFF":
        return "woff"
    if m == b"wOF2":
        return "woff2"
    return "sfnt"


def ref_sfnt(data, off=0, kind="sfnt"):
    if len(data) < off + 12:
        return _err(kind, "short header")
    r = Ref()
    r.kind = kind
    version, n = struct.unpack(">4sH", data[off : off + 6])
    if version not in SFNT_VERSIONS:
        r.lenient = True
    end = off + 12 + 16 * n
    if len(data) < end:
        return _err(kind, "short directory")
    r.dir_end = end
    for i in range(n):
        tag, _cs, o, ln = struct.unpack(">4sLLL", data[off + 12 + 16 * i : off + 28 + 16 * i])
        tag = tag.decode("latin-1")
        body = data[o : o + ln]
        r.tables[tag] = body if len(body) == ln else MUST
        r.spans[tag] = (o, ln)
        r.order.append(tag)
    return r


def ttc_header(data):
    """-> (version, [offsets], header_end) or None when the header is not all there."""
    if len(data) < 12 or data[:4] != b"ttcf":
        return None
    version, n = struct.unpack(">LL", data[4:12])
    end = 12 + 4 * n
    if len(data) < end:
        return None
    offs = list(struct.unpack(">%dL" % n, data[12:end]))
    dsig = None
    if version == 0x00020000:
        if len(data) < end + 12:
            return None
        dsig = struct.unpack(">LLL", data[end : end + 12])
        end += 12
    return version, offs, end, dsig


def ref_ttc(data, fontNumber):
    h = ttc_header(data)
    if h is None:
        return _err("ttc", "short ttc header")
    version, offs, end, _dsig = h
    if not 0 <= fontNumber < len(offs):
        return _err("ttc", "font number out of range")
    r = ref_sfnt(data, offs[fontNumber], "ttc")
    if version not in (0x00010000, 0x00020000):
        r.lenient = True
    return r


def ref_woff(data):
    if len(data) < 44:
        return _err("woff", "short header")
    (sig, flavor, length, n, _res, _tot, _maj, _min, metaOff, metaLen, metaOrig, privOff, privLen) = struct.unpack(
        ">4s4sLHHLHHLLLLL", data[:44]
    )
    r = Ref()
    r.kind = "woff"
    if flavor not in SFNT_VERSIONS:
        r.lenient = True
    end = 44 + 20 * n
    if len(data) < end:
        return _err("woff", "short directory")
    r.dir_end = end
    for i in range(n):
        tag, o, comp, orig, _cs = struct.unpack(">4sLLLL", data[44 + 20 * i : 64 + 20 * i])
        tag = tag.decode("latin-1")
        r.order.append(tag)
        r.spans[tag] = (o, comp)
        raw = data[o : o + comp]
        if len(raw) != comp or comp > orig:
            r.tables[tag] = MUST
        elif comp == orig:
            r.tables[tag] = raw
        else:
            try:
                dec = zlib.decompress(raw)
            except zlib.error:
                dec = None
            r.tables[tag] = dec if dec is not None and len(dec) == orig else MUST
    if metaLen:
        raw = data[metaOff : metaOff + metaLen]
        if len(raw) != metaLen:
            return _err("woff", "short metadata")
        try:
            dec = zlib.decompress(raw)
        except zlib.error:
            return _err("woff", "metadata does not inflate")
        if len(dec) != metaOrig:
            return _err("woff", "metadata length")
        r.meta = dec
    if privLen:
        raw = data[privOff : privOff + privLen]
        if len(raw) != privLen:
            return _err("woff", "short private data")
        r.priv = raw
    return r


def _base128(data, p):
    v = 0
    for i in range(5):
        if p >= len(data):
            return None
        b = data[p]
        p += 1
        v = (v << 7) | (b & 0x7F)
        if not b & 0x80:
            return v, p
    return None


def woff2_dir_end(data):
    """Offset just after the WOFF2 table directory (None if it cannot be walked)."""
    if len(data) < 48:
        return None
    n = struct.unpack(">H", data[12:14])[0]
    p = 48
    for _ in range(n):
        if p >= len(data):
            return None
        flags = data[p]
        p += 1
        if flags & 0x3F == 0x3F:
            tag = data[p : p + 4]
            p += 4
        else:
            tag = None
        r = _base128(data, p)
        if r is None:
            return None
        _orig, p = r
        idx = flags & 0x3F
        version = flags >> 6
        # known-tag indices of glyf (10) and loca (11): null transform is version 3
        is_glyfloca = (idx in (10, 11)) if tag is None else tag in (b"glyf", b"loca")
        transformed = (version != 3) if is_glyfloca else (version != 0)
        if transformed:
            r = _base128(data, p)
            if r is None:
                return None
            _tl, p = r
    return p


def reference(data, fontNumber=-1):
    k = kind_of(data)
    if k == "ttc":
        return ref_ttc(data, fontNumber)
    if k == "woff":
        return ref_woff(data)
    if k == "woff2":
        r = Ref()
        r.kind = "woff2"
        r.dir_end = woff2_dir_end(data) or 0
        return r
    return ref_sfnt(data)


def boundaries(data, fontNumber=-1):
    """Structural boundaries of a container: end of header/directory, start and end of every
    table (stored span)."""
    k = kind_of(data)
    out = set()
    if k == "woff2":
        e = woff2_dir_end(data) or 48
        out.update((48, e, len(data)))
        return sorted(out), e
    if k == "ttc":
        h = ttc_header(data)
        version, offs, end, dsig = h
        out.add(end)
        top = end
        for i in range(len(offs)):
            r = ref_sfnt(data, offs[i], "ttc")
            out.add(offs[i])
            out.add(r.dir_end)
            top = max(top, r.dir_end)
            for o, ln in r.spans.values():
                out.update((o, o + ln))
        if dsig:
            out.update((dsig[2], dsig[2] + dsig[1]))
        out.add(len(data))
        return sorted(out), top
    r = reference(data)
    out.add(r.dir_end)
    for o, ln in r.spans.values():
        out.update((o, o + ln))
    out.add(len(data))
    return sorted(out), r.dir_end


def header_positions(data):
    """Every byte offset that belongs to a header or table directory of the container."""
    k = kind_of(data)
    if k == "ttc":
        version, offs, end, dsig = ttc_header(data)
        pos = set(range(end))
        for o in offs:
            r = ref_sfnt(data, o, "ttc")
            pos.update(range(o, r.dir_end))
        return sorted(pos)
    if k == "woff2":
        return list(range(woff2_dir_end(data)))
    return list(range(reference(data).dir_end))


def rebuild_sfnt(data, replace):
    """New plain-sfnt file with the payload of some tables replaced ({tag: bytes}); same table
    order in the directory and in the body; offsets/lengths fixed up, checksums left alone."""
    r = ref_sfnt(data)
    n = len(r.order)
    body_order = sorted(r.order, key=lambda t: r.spans[t][0])
    pos = 12 + 16 * n
    place = {}
    chunks = []
    for t in body_order:
        payload = replace.get(t, r.tables[t])
        place[t] = (pos, len(payload))
        pad = (-len(payload)) % 4
        chunks.append(payload + b"\0" * pad)
        pos += len(payload) + pad
    out = bytearray(data[:12])
    for i, t in enumerate(r.order):
        ent = bytearray(data[12 + 16 * i : 28 + 16 * i])
        ent[8:16] = struct.pack(">LL", *place[t])
        out += ent
    for c in chunks:
        out += c
    return bytes(out)
