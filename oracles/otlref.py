"""Reference interpreter for *abstract* OpenType layout rule programs (property C11).

Deliberately boring: lists, dicts and ints.  It never looks at feaLib's AST nor at compiled
tables; it executes the abstract rules a feature file was printed from, with the semantics
of the OpenType specification (chapters GSUB/GPOS, "lookup processing"):

* lookups are applied one after the other, in the order they are written (= LookupList
  order), every GSUB lookup before every GPOS lookup;
* one lookup walks the glyph string left to right (reverse chaining: right to left); at each
  glyph that is not skipped by the lookup flag the *first* matching rule of the lookup is
  applied, then processing continues after the matched input sequence;
* matching skips glyphs according to the lookup flag (IgnoreMarks, MarkAttachmentType,
  UseMarkFilteringSet) in input, backtrack and lookahead;
* ligature substitution puts the ligature at the first component and removes the others
  (skipped glyphs in between stay); multiple substitution replaces one glyph by a sequence;
* contextual rules apply their nested lookups at the given sequence positions, once;
* GPOS accumulates value records; pair positioning continues at the second glyph unless the
  second value record exists (then after it); mark attachment places the mark's anchor on
  the base anchor; cursive attachment joins exit and entry anchors.

Where the specification leaves the representation open (how an attachment is split between
advance and offset) the formulas of HarfBuzz are used, because HarfBuzz is the other side of
the comparison:  offsets of attached marks are made relative to the pen position of the mark.

Program (JSON-able):
  {"gdef": {glyph: class},            GDEF glyph classes (1 base, 2 ligature, 3 mark)
   "markclasses": {name: [[glyphs, [x, y]], ...]},
   "lookups": [LOOKUP, ...]}          top-level lookups, in written order
LOOKUP = {"fam": family, "flag": FLAG, "rules": [RULE, ...], "lang": None | "TRK" | "!TRK"}
  lang None: registered for every language system; "TRK": only for language TRK of script
  latn; "!TRK": for everything except latn/TRK (default rules excluded by exclude_dflt).
FLAG = {"im": bool, "mat": [marks] | None, "mfs": [marks] | None, "rtl": bool}
families and rules:
  subst  ["single", [[g, r], ...]] | ["multiple", g, [r...]] | ["ligature", [set...], r]
  alt    ["alternate", g, [r...]]
  ctxsub ["ctx", [set...], [set...], [set...], [[index, LOOKUP], ...]]   (no actions: ignore)
  rsub   ["rsub", [set...], [[g, r], ...], [set...]]
  spos   ["spos", [glyphs], VALUE]
  pair   ["pair", g1, VALUE, g2, VALUE|None] | ["cpair", set, VALUE, set, VALUE|None]
         | ["epair", set, VALUE, set, VALUE|None] | ["break"]  (explicit subtable break)
  curs   ["curs", [glyphs], ANCHOR|None, ANCHOR|None]
  mkbase ["mkbase", [bases], [[ANCHOR, markclass], ...]]
  mkmk   ["mkmk", [marks], [[ANCHOR, markclass], ...]]
  ctxpos ["ctx", pre, in, post, [[index, LOOKUP], ...]]
VALUE = [xPlacement, yPlacement, xAdvance, yAdvance];  ANCHOR = [x, y]
"""

BASE, LIG, MARK = 1, 2, 3

GSUB_FAMS = ("subst", "alt", "ctxsub", "rsub")
GPOS_FAMS = ("spos", "pair", "curs", "mkbase", "mkmk", "ctxpos")

NOFLAG = {"im": False, "mat": None, "mfs": None, "rtl": False}


def table_of(lookup):
    return "GSUB" if lookup["fam"] in GSUB_FAMS else "GPOS"


class Interp:
    def __init__(self, program, advances):
        self.p = program
        self.gdef = program.get("gdef", {})
        self.mc = program.get("markclasses", {})
        self.adv = advances
        # mark glyph -> (class name, anchor) per lookup is computed on demand
        self._prep = {}
        # names of the semantic branches taken (vacuity witnesses for the engine)
        self.hits = set()

    # ------------------------------------------------------------------ skipping
    def skip(self, g, flag):
        cls = self.gdef.get(g, 0)
        if cls == MARK:
            if flag.get("im"):
                return True
            if flag.get("mfs") is not None:
                return g not in flag["mfs"]
            if flag.get("mat") is not None:
                return g not in flag["mat"]
        return False

    def nxt(self, gl, i, flag):
        j = i + 1
        while j < len(gl):
            if not self.skip(gl[j], flag):
                return j
            j += 1
        return None

    def prv(self, gl, i, flag):
        j = i - 1
        while j >= 0:
            if not self.skip(gl[j], flag):
                return j
            j -= 1
        return None

    def match_fwd(self, gl, i, sets, flag):
        """sets matched against the unskipped glyphs after position i; list of positions."""
        out = []
        j = i
        for s in sets:
            j = self.nxt(gl, j, flag)
            if j is None or gl[j] not in s:
                return None
            out.append(j)
        return out

    def match_back(self, gl, i, sets, flag):
        """sets (written left to right) matched against unskipped glyphs before position i."""
        j = i
        for s in reversed(sets):
            j = self.prv(gl, j, flag)
            if j is None or gl[j] not in s:
                return False
        return True

    # ------------------------------------------------------------------ driver
    def run(self, glyphs, lang=None, alt=1):
        gl = list(glyphs)
        active = [l for l in self.p["lookups"] if self.active(l, lang)]
        for l in active:
            if table_of(l) == "GSUB":
                self.walk_gsub(gl, l, alt)
        pos = [[self.adv[g], 0, 0, 0] for g in gl]
        att = [None] * len(gl)  # (type, parent index)
        for l in active:
            if table_of(l) == "GPOS":
                self.walk_gpos(gl, pos, att, l)
        self.finish(pos, att)
        return [(g, p[0], p[1], p[2], p[3]) for g, p in zip(gl, pos)]

    @staticmethod
    def active(l, lang):
        sc = l.get("lang")
        if sc is None:
            return True
        if sc.startswith("!"):
            return lang != sc[1:]
        return lang == sc

    def walk_gsub(self, gl, l, alt):
        flag = l["flag"]
        if l["fam"] == "rsub":
            i = len(gl) - 1
            while i >= 0:
                if not self.skip(gl[i], flag):
                    self.apply_rsub(gl, i, l)
                i -= 1
            return
        i = 0
        while i < len(gl):
            if self.skip(gl[i], flag):
                i += 1
                continue
            r = self.apply_gsub(gl, i, l, alt)
            i = r if r is not None else i + 1

    def walk_gpos(self, gl, pos, att, l):
        flag = l["flag"]
        i = 0
        while i < len(gl):
            if self.skip(gl[i], flag):
                i += 1
                continue
            r = self.apply_gpos(gl, pos, att, i, l)
            i = r if r is not None else i + 1

    # ------------------------------------------------------------------ GSUB
    def subst_entries(self, l):
        """(components-as-tuple-of-glyphs, replacement tuple) in application order."""
        key = id(l)
        if key in self._prep:
            return self._prep[key]
        ent = []
        for r in l["rules"]:
            if r[0] == "single":
                for g, t in r[1]:
                    ent.append(((g,), (t,)))
            elif r[0] == "multiple":
                ent.append(((r[1],), tuple(r[2])))
            elif r[0] == "ligature":
                seqs = [()]
                for s in r[1]:
                    seqs = [q + (g,) for q in seqs for g in s]
                for q in seqs:
                    ent.append((q, (r[2],)))
            else:
                raise ValueError(r[0])
        # one target per key: the first statement that names a key defines it
        seen, uniq = set(), []
        for c, t in ent:
            if c not in seen:
                seen.add(c)
                uniq.append((c, t))
        # ligature rules: "the implementation must do the appropriate sorting" (feature file
        # specification 5.d): longer component sequences are tried first
        uniq.sort(key=lambda e: -len(e[0]))
        self._prep[key] = uniq
        return uniq

    def apply_gsub(self, gl, i, l, alt):
        fam, flag = l["fam"], l["flag"]
        g = gl[i]
        if fam == "subst":
            for comps, repl in self.subst_entries(l):
                if comps[0] != g:
                    continue
                m = self.match_fwd(gl, i, [(c,) for c in comps[1:]], flag)
                if m is None:
                    continue
                if len(comps) == 1:
                    gl[i:i + 1] = list(repl)
                    return i + len(repl)
                # ligature: first component replaced, the others removed
                end = m[-1] + 1
                keep = [gl[k] for k in range(i + 1, end) if k not in m]
                if keep:
                    self.hits.add("ligature over skipped mark")
                gl[i:end] = [repl[0]] + keep
                return i + 1 + len(keep)
            return None
        if fam == "alt":
            for r in l["rules"]:
                if r[1] == g:
                    if 1 <= alt <= len(r[2]):
                        gl[i] = r[2][alt - 1]
                        return i + 1
                    return None
            return None
        if fam == "ctxsub":
            for r in l["rules"]:
                _k, pre, inp, post, acts = r
                if g not in inp[0]:
                    continue
                m = self.match_fwd(gl, i, inp[1:], flag)
                if m is None:
                    continue
                m = [i] + m
                if not self.match_back(gl, i, pre, flag):
                    continue
                if self.match_fwd(gl, m[-1], post, flag) is None:
                    continue
                end = m[-1] + 1
                if not acts:
                    self.hits.add("ignore rule blocked a match")
                for idx, nested in acts:
                    if idx >= len(m):
                        continue
                    before = len(gl)
                    if self.apply_gsub(gl, m[idx], nested, alt) is not None:
                        self.hits.add("nested lookup applied")
                    delta = len(gl) - before
                    if delta:
                        end += delta
                        if delta > 0:
                            new = [m[idx] + k for k in range(1, delta + 1)]
                            m = m[: idx + 1] + new + [x + delta for x in m[idx + 1:]]
                        else:
                            cut = min(-delta, len(m) - idx - 1)
                            m = m[: idx + 1] + [x + delta for x in m[idx + 1 + cut:]]
                return max(end, i + 1) if end > i else i + 1
            return None
        raise ValueError(fam)

    def apply_rsub(self, gl, i, l):
        flag = l["flag"]
        g = gl[i]
        for r in l["rules"]:
            _k, pre, mapping, post = r
            d = dict(mapping)
            if g not in d:
                continue
            if not self.match_back(gl, i, pre, flag):
                continue
            if self.match_fwd(gl, i, post, flag) is None:
                continue
            gl[i] = d[g]
            self.hits.add("reverse substitution applied")
            return True
        return False

    # ------------------------------------------------------------------ GPOS
    @staticmethod
    def add_value(p, v):
        if v is None:
            return
        p[2] += v[0]
        p[3] += v[1]
        p[0] += v[2]
        # yAdvance only acts in vertical text; every run here is horizontal

    def marks_of(self, l):
        """mark glyph -> (class name, anchor) for a mark attachment lookup."""
        key = ("marks", id(l))
        if key in self._prep:
            return self._prep[key]
        out = {}
        for r in l["rules"]:
            for _anchor, cname in r[2]:
                for glyphs, manchor in self.mc[cname]:
                    for g in glyphs:
                        out.setdefault(g, (cname, manchor))
        self._prep[key] = out
        return out

    def apply_gpos(self, gl, pos, att, i, l):
        fam, flag = l["fam"], l["flag"]
        g = gl[i]
        if fam == "spos":
            for r in l["rules"]:
                if g in r[1]:
                    self.add_value(pos[i], r[2])
                    return i + 1
            return None
        if fam == "pair":
            j = self.nxt(gl, i, flag)
            if j is None:
                return None
            h = gl[j]
            # specific pairs (including enumerated ones) come first, first definition wins
            for r in l["rules"]:
                hit = None
                if r[0] == "pair" and r[1] == g and r[3] == h:
                    hit = r
                elif r[0] == "epair" and g in r[1] and h in r[3]:
                    hit = r
                if hit is not None:
                    self.add_value(pos[i], hit[2])
                    self.add_value(pos[j], hit[4])
                    if hit[4] is not None:
                        self.hits.add("second glyph of pair skipped")
                    return j + 1 if hit[4] is not None else j
            # class pairs: one class table per run of class-pair rules (an explicit subtable
            # break starts the next one); the first table whose first classes contain the
            # first glyph is the one that applies, whatever the second glyph
            tables, cur = [], []
            for r in l["rules"]:
                if r[0] == "break":
                    tables.append(cur)
                    cur = []
                elif r[0] == "cpair":
                    cur.append(r)
            tables.append(cur)
            for crules in tables:
                if not any(g in r[1] for r in crules):
                    continue
                second = any(r[4] is not None for r in crules)
                for r in crules:
                    if g in r[1] and h in r[3]:
                        self.add_value(pos[i], r[2])
                        self.add_value(pos[j], r[4])
                        break
                if second:
                    self.hits.add("second glyph of pair skipped")
                return j + 1 if second else j
            return None
        if fam == "curs":
            entry = None
            for r in l["rules"]:
                if g in r[1]:
                    entry = r[2]
                    break
            if entry is None:
                return None
            j = self.prv(gl, i, flag)
            if j is None:
                return None
            exit_ = None
            for r in l["rules"]:
                if gl[j] in r[1]:
                    exit_ = r[3]
                    break
            if exit_ is None:
                return None
            # main direction (left to right): the pen after glyph j lands on its exit anchor,
            # glyph i is shifted so that its entry anchor sits on the pen
            pos[j][0] = exit_[0] + pos[j][2]
            d = entry[0] + pos[i][2]
            pos[i][0] -= d
            pos[i][2] -= d
            # cross direction: one glyph hangs on the other
            if flag.get("rtl"):
                child, parent, yoff = j, i, entry[1] - exit_[1]
            else:
                child, parent, yoff = i, j, exit_[1] - entry[1]
            self.reverse_cursive(pos, att, child, parent)
            att[child] = ("curs", parent)
            pos[child][3] = yoff
            if att[parent] is not None and att[parent][1] == child:
                att[parent] = None
                pos[parent][3] = 0
            self.hits.add("cursive attached")
            return i + 1
        if fam in ("mkbase", "mkmk"):
            marks = self.marks_of(l)
            if g not in marks:
                return None
            cname, manchor = marks[g]
            if fam == "mkbase":
                # nearest preceding glyph that is not a mark
                j = i - 1
                while j >= 0 and self.gdef.get(gl[j], 0) == MARK:
                    j -= 1
                if j < 0:
                    return None
            else:
                f2 = dict(flag)
                f2["im"] = False
                j = self.prv(gl, i, f2)
                if j is None or self.gdef.get(gl[j], 0) != MARK:
                    return None
            banchor = None
            found = False
            for r in l["rules"]:
                if gl[j] in r[1]:
                    found = True
                    for a, cn in r[2]:
                        if cn == cname and banchor is None:
                            banchor = a
            if not found or banchor is None:
                return None
            pos[i][2] = banchor[0] - manchor[0]
            pos[i][3] = banchor[1] - manchor[1]
            att[i] = ("mark", j)
            self.hits.add("mark attached")
            return i + 1
        if fam == "ctxpos":
            for r in l["rules"]:
                _k, pre, inp, post, acts = r
                if g not in inp[0]:
                    continue
                m = self.match_fwd(gl, i, inp[1:], flag)
                if m is None:
                    continue
                m = [i] + m
                if not self.match_back(gl, i, pre, flag):
                    continue
                if self.match_fwd(gl, m[-1], post, flag) is None:
                    continue
                if not acts:
                    self.hits.add("ignore rule blocked a match")
                for idx, nested in acts:
                    if idx < len(m):
                        if self.apply_gpos(gl, pos, att, m[idx], nested) is not None:
                            self.hits.add("nested lookup applied")
                return m[-1] + 1
            return None
        raise ValueError(fam)

    @staticmethod
    def reverse_cursive(pos, att, i, new_parent):
        """If glyph i already hangs on another glyph by a cursive link, turn that chain
        around (the glyph it hung on now hangs on it)."""
        a = att[i]
        if a is None or a[0] != "curs":
            return
        att[i] = None
        j = a[1]
        if j == new_parent:
            return
        Interp.reverse_cursive(pos, att, j, new_parent)
        pos[j][3] = -pos[i][3]
        att[j] = ("curs", i)

    @staticmethod
    def finish(pos, att):
        done = [False] * len(pos)

        def prop(i, depth=0):
            a = att[i]
            if a is None or done[i] or depth > 64:
                return
            done[i] = True
            typ, j = a
            prop(j, depth + 1)
            if typ == "curs":
                pos[i][3] += pos[j][3]
            else:
                pos[i][2] += pos[j][2]
                pos[i][3] += pos[j][3]
                for k in range(j, i):
                    pos[i][2] -= pos[k][0]
                    pos[i][3] -= pos[k][1]

        for i in range(len(pos)):
            prop(i)


def run(program, glyphs, advances, lang=None, alt=1):
    return Interp(program, advances).run(glyphs, lang=lang, alt=alt)


def max_context(program):
    """usMaxContext a compiler should record: longest input + lookahead of any rule."""
    best = 0

    def visit(l):
        nonlocal best
        fam = l["fam"]
        for r in l["rules"]:
            if fam == "subst":
                if r[0] == "ligature":
                    best = max(best, len(r[1]))
                else:
                    best = max(best, 1)
            elif fam in ("alt", "spos"):
                best = max(best, 1)
            elif fam == "pair":
                best = max(best, 2)
            elif fam in ("ctxsub", "ctxpos"):
                best = max(best, len(r[2]) + len(r[3]))
                for _i, n in r[4]:
                    visit(n)
            elif fam == "rsub":
                best = max(best, 1 + len(r[3]))

    for l in program["lookups"]:
        visit(l)
    return best
