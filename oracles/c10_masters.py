"""Generated designspaces for C10: compatible static masters on user-space lattices, built in
memory, whose every coordinate / advance / kerning / anchor / metric value is a deterministic
non-linear function of the master's *user* location (oracles.tinyfont._val), and the
designspace documents that bind them (axis maps included).

A family is described by a JSON-able dict `fam`:
  naxes    1..3
  dflt     [lattice index of the default per axis]   (lattice = 5 user positions per axis)
  map      "none" | "lin" | "bent" | "bent2"
  kind     "ttf" | "cff"
  content  "outl" | "comp" | "kern" | "kernx" | "mark" | "mvar" | "sparseg" | "sparsee" | "sparsel"
  coef     int, perturbs every value
and a master by its lattice index tuple.  Nothing here decides a verdict.
"""
from mc import env  # noqa: F401

import io
from fractions import Fraction as F

from fontTools.fontBuilder import FontBuilder
from fontTools.pens.t2CharStringPen import T2CharStringPen
from fontTools.pens.ttGlyphPen import TTGlyphPen
from fontTools.ttLib import TTFont

from . import c10_ref as ref
from . import tinyfont

# tag, name, 5 user positions (min .. max, equidistant), design range used by axis maps
AXES = [
    ("wght", "Weight", (100, 300, 500, 700, 900), (20, 180)),
    ("wdth", "Width", (60, 80, 100, 120, 140), (0, 1000)),
    ("opsz", "Optical Size", (8, 24, 40, 56, 72), (10, 50)),
]

MARKS = {"m": 0x301, "n": 0x323}


def axis_setup(ai, dflt_idx, mapkind):
    """-> dict(tag, name, min, default, max, map=[(user, design)], user=[5], design=[5 Fractions],
    dn=[5 Fractions: normalised design coordinate of each lattice position])."""
    tag, name, user, (dlo, dhi) = AXES[ai]
    lo, df, hi = user[0], user[dflt_idx], user[4]
    un = [ref.normalize(u, lo, df, hi) for u in user]
    if mapkind == "none":
        return dict(tag=tag, name=name, min=lo, default=df, max=hi, map=[], user=list(user),
                    design=[F(u) for u in user], dn=un)
    dlo, dhi = F(dlo), F(dhi)
    ddf = dlo if dflt_idx == 0 else dhi if dflt_idx == 4 else dlo + (dhi - dlo) / 4
    bend = [(F(-1), F(-1)), (F(0), F(0)), (F(1), F(1))]
    knots = []  # (normalised user position, normalised design position)
    if mapkind == "bent":
        # one extra knot off the straight line, on the side of the default that has room
        knot_un = F(-1, 2) if dflt_idx == 4 else F(1, 2)
        knots.append((knot_un, knot_un / 2))
    elif mapkind == "bent2":
        # two extra knots on that side: the first ON the normalised diagonal (its input equals its
        # output, yet it is needed because the next one bends the line), the second off it
        sgn = -1 if dflt_idx == 4 else 1
        knots.append((sgn * F(1, 2), sgn * F(1, 2)))
        knots.append((sgn * F(3, 4), sgn * F(7, 8)))
    bend += knots
    dn = [ref.pl_forward(sorted(bend), x) for x in un]

    def design_of(n):
        return ddf + n * (dhi - ddf) if n >= 0 else ddf + n * (ddf - dlo)

    amap = {F(lo): dlo, F(df): ddf, F(hi): dhi}
    for knot_un, knot_dn in knots:
        ku = df + knot_un * (hi - df) if knot_un > 0 else df + knot_un * (df - lo)
        amap[F(ku)] = design_of(knot_dn)
    return dict(tag=tag, name=name, min=lo, default=df, max=hi, map=sorted(amap.items()), user=list(user),
                design=[design_of(n) for n in dn], dn=dn)


def fam_axes(fam):
    return [axis_setup(ai, fam["dflt"][ai], fam["map"]) for ai in range(fam["naxes"])]


def glyph_names(fam):
    names = [".notdef", "a", "b", "c", "d", "e", "i"]
    if fam["content"] == "mark":
        names += ["m", "n"]
    if fam["content"] in ("comp", "sparsee") and fam["kind"] == "ttf":
        names.append("comp")
    return names


def _spec(fam):
    axes = []
    for ai in range(fam["naxes"]):
        tag, _n, user, _d = AXES[ai]
        axes.append([tag, user[0], user[fam["dflt"][ai]], user[4]])
    return {"kind": fam["kind"], "shapes": "mixed", "axes": axes, "coef": fam.get("coef", 0)}


def iup_probe(spec, gi, nloc):
    """A contour with runs of points on two edges whose deltas are *nearly* interpolable from
    their neighbours (off by a master-dependent -3..3 units): gvar's IUP optimisation may drop a
    delta only when inference stays within its tolerance."""
    (x0, y0, _), (x1, _y, _), (_x, y1, _), _p = tinyfont.glyph_points(dict(spec, shapes="box"), gi, nloc)[0]
    w = lambda k: tinyfont._val(spec, nloc, 0, 950 + k) % 7 - 3  # noqa: E731
    pts = [(x0, y0, "l")]
    pts += [(x0 + (x1 - x0) * k // 5 + w(k), y0, "l") for k in range(1, 5)]
    pts += [(x1, y0, "l"), (x1, y1, "l")]
    pts += [(x1 - (x1 - x0) * k // 5, y1 + w(10 + k), "l") for k in range(1, 5)]
    pts += [(x0, y1, "l")]
    return [pts]


def _fea(fam, spec, nloc, odd):
    V = lambda base, k: tinyfont._val(spec, nloc, base, 800 + k)  # noqa: E731
    c = fam["content"]
    if c in ("kern", "kernx", "sparsel"):
        rules = ["pos a b %d;" % V(-40, 0)]
        if not (c == "kernx" and odd):
            rules.append("pos b c %d;" % V(25, 1))
        rules.append("pos e a <%d 0 %d 0>;" % (V(15, 3), V(-20, 4)))
        if c == "kernx":
            # (c, a) is an exception pair in some masters only: the others kern it through the class
            # pair below while still having another exception pair for c
            rules.append("pos c b %d;" % V(-12, 5))
            if not odd:
                rules.append("pos c a %d;" % V(33, 6))
        if not (c == "kernx" and odd):
            rules.append("pos [c e] [a e] %d;" % V(10, 2))
        else:
            rules.append("pos [c e] [a] %d;" % V(10, 2))
        if c == "kernx":
            # first-glyph classes that differ between masters: one class [a b] here, two classes there,
            # whose values go different ways
            if not odd:
                rules.append("pos [a b] [d i] %d;" % V(-50, 7))
            else:
                rules.append("pos [a] [d i] %d;" % V(-80, 8))
                rules.append("pos [b] [d i] %d;" % V(-20, 9))
        return "languagesystem DFLT dflt;\nlanguagesystem latn dflt;\nfeature kern {\n  %s\n} kern;\n" % "\n  ".join(rules)
    if c == "mark":
        A = lambda bx, by, k: "<anchor %d %d>" % (V(bx, 10 + 2 * k), V(by, 11 + 2 * k))  # noqa: E731
        return (
            "languagesystem DFLT dflt;\nlanguagesystem latn dflt;\n"
            "markClass m %s @TOP;\nmarkClass n %s @BOT;\n"
            "table GDEF { GlyphClassDef [a b c d e i], , [m n], ; } GDEF;\n"
            "feature mark {\n  pos base a %s mark @TOP %s mark @BOT;\n  pos base b %s mark @TOP;\n} mark;\n"
            "feature mkmk { pos mark m %s mark @TOP; } mkmk;\n"
            % (A(100, 600, 0), A(120, -20, 1), A(250, 700, 2), A(240, 0, 3), A(260, 710, 4), A(100, 900, 5))
        )
    return None


def static_master(fam, idx, sparse=False):
    """Static master of the family at lattice position `idx` (tuple of lattice indices).
    sparse=True: the sparse form of this master for the contents "sparseg" (glyph b missing), "sparsee"
    (glyph b and the composite present but empty)
    and "sparsel" (no layout tables)."""
    spec = _spec(fam)
    loc = {AXES[ai][0]: AXES[ai][2][i] for ai, i in enumerate(idx)}
    nloc = tinyfont._norm_loc(spec, loc)
    kind = fam["kind"]
    content = fam["content"]
    all_names = glyph_names(fam)
    names = [n for n in all_names if not (sparse and content == "sparseg" and n == "b")]
    fb = FontBuilder(1000, isTTF=(kind == "ttf"))
    fb.setupGlyphOrder(names)
    cmap = {ord(g): g for g in names if len(g) == 1 and g not in MARKS}
    cmap.update({cp: g for g, cp in MARKS.items() if g in names})
    fb.setupCharacterMap(cmap)
    glyphs, metrics = {}, {}
    V = lambda base, k: tinyfont._val(spec, nloc, base, k)  # noqa: E731
    for gn in names:
        gi = all_names.index(gn)
        adv = tinyfont.advance(spec, gi, nloc)
        if sparse and content == "sparsee" and gn in ("b", "comp"):
            # a sparse master that keeps the whole glyph order: the glyphs it does not define are empty
            glyphs[gn] = TTGlyphPen(None).glyph()
            metrics[gn] = (adv, 0)
            continue
        if gn == "comp":
            pen = TTGlyphPen({"a": None, "b": None})
            pen.addComponent("a", (1, 0, 0, 1, 0, 0))
            pen.addComponent("b", (1, 0, 0, 1, V(300, 900), V(20, 901)))
            glyphs[gn] = pen.glyph()
            metrics[gn] = (adv, 0)
            continue
        contours = iup_probe(spec, gi, nloc) if gn == "i" else tinyfont.glyph_points(spec, gi, nloc)
        if kind == "ttf":
            pen = TTGlyphPen(None)
            tinyfont._draw(pen, contours)
            glyphs[gn] = pen.glyph()
        else:
            pen = T2CharStringPen(adv, None)
            tinyfont._draw(pen, contours)
            # the probe glyph has collinear runs: keep every point (the specialiser would join
            # them in some masters only and the masters would stop being point-compatible)
            glyphs[gn] = pen.getCharString(optimize=(gn != "i"))
        xs = [p[0] for c in contours for p in c]
        metrics[gn] = (adv, min(xs) if xs else 0)
    if kind == "ttf":
        fb.setupGlyf(glyphs)
    else:
        fb.setupCFF("Tiny-Regular", {"FullName": "Tiny Regular"}, glyphs, {})
    fb.setupHorizontalMetrics(metrics)
    vary = content == "mvar"
    M = (lambda base, k: V(base, 500 + k)) if vary else (lambda base, k: base)  # noqa: E731
    asc, desc = M(800, 0), -abs(M(200, 1))
    fb.setupHorizontalHeader(ascent=800, descent=-200, caretSlopeRise=M(1000, 2), caretSlopeRun=M(0, 3) if vary else 0, caretOffset=M(0, 4) if vary else 0)
    fb.setupNameTable({"familyName": "Tiny", "styleName": "Regular"})
    fb.setupOS2(
        sTypoAscender=asc, sTypoDescender=desc, sTypoLineGap=M(90, 5), usWinAscent=M(900, 6), usWinDescent=M(250, 7),
        sxHeight=M(450, 8), sCapHeight=M(700, 9), yStrikeoutSize=M(50, 10), yStrikeoutPosition=M(300, 11),
        ySubscriptXSize=M(650, 12), ySubscriptYSize=M(600, 13), ySubscriptXOffset=M(10, 14), ySubscriptYOffset=M(75, 15),
        ySuperscriptXSize=M(651, 16), ySuperscriptYSize=M(601, 17), ySuperscriptXOffset=M(11, 18), ySuperscriptYOffset=M(350, 19),
    )
    fb.setupPost(underlinePosition=M(-100, 20), underlineThickness=M(50, 21))
    font = fb.font
    if not (sparse and content == "sparsel"):
        # "kernx": masters at lattice index 1 or 2 (mod 4, summed) lack some pairs
        fea = _fea(fam, spec, nloc, odd=sum(idx) % 4 in (1, 2))
        if fea:
            from fontTools.feaLib.builder import addOpenTypeFeaturesFromString

            addOpenTypeFeaturesFromString(font, fea)
    data = tinyfont.to_bytes(font)
    if "comp" in names and not (sparse and content == "sparsee"):
        # left side bearing = xMin, so that rasterisers do not shift the outline
        f = TTFont(io.BytesIO(data))
        a, _l = f["hmtx"].metrics["comp"]
        f["hmtx"].metrics["comp"] = (a, f["glyf"]["comp"].xMin)
        data = tinyfont.to_bytes(f)
    return data


def designspace(fam, masters, fonts, axes=None):
    """DesignSpaceDocument with in-memory masters (source.font); source locations are *design*
    coordinates computed by the reference forward map."""
    from fontTools.designspaceLib import AxisDescriptor, DesignSpaceDocument, SourceDescriptor

    axes = axes or fam_axes(fam)
    ds = DesignSpaceDocument()
    for ax in axes:
        a = AxisDescriptor()
        a.tag, a.name = ax["tag"], ax["name"]
        a.minimum, a.default, a.maximum = ax["min"], ax["default"], ax["max"]
        a.map = [(float(u), float(d)) for u, d in ax["map"]]
        assert all(F(u) == uu and F(d) == dd for (u, d), (uu, dd) in zip(a.map, ax["map"]))
        ds.addAxis(a)
    for i, idx in enumerate(masters):
        s = SourceDescriptor()
        s.font = fonts[i]
        s.name = "master%d" % i
        loc = {}
        for ax, li in zip(axes, idx):
            d = ax["design"][li]
            assert F(float(d)) == d
            loc[ax["name"]] = float(d)
        s.location = loc
        s.familyName = "Tiny"
        s.styleName = "M%d" % i
        ds.addSource(s)
    return ds
