"""Grammar of small fonts built through FontBuilder (and varLib for variable ones).

A font is described by a JSON-able *spec*; every coordinate, advance and kerning value is a
deterministic function of (glyph index, master location), so that two fonts built from the same
spec are identical and masters of one family are point-compatible.

spec keys (all optional except kind):
  kind      "ttf" | "cff"
  upem      int (1000)
  glyphs    list of glyph names after .notdef  (default a b c d e)
  cmap      {codepoint(int or str): glyphname}  (default: 'a'->a ... for 1-letter names)
  shapes    "box" | "mixed"  (mixed: boxes, triangles, curves, two-contour glyphs, empty glyph)
  composite bool: adds glyph "comp" = a + shifted b (ttf only)
  fea       feature-file text compiled into GSUB/GPOS/GDEF
  kern      [[left, right, value], ...] -> legacy 'kern' table format 0
  axes      [[tag, min, default, max], ...]      -> variable font through varLib.build
  masters   [ {tag: userloc}, ...] first must be the default location
  avar      {tag: [[user, normalized], ...]} axis maps (designspace <map>)
  vmtx      bool: vertical metrics
  post3     bool: post format 3 (no glyph names)
  coef      int: perturbs all values (distinct fonts from the same structure)
"""
from mc import env  # noqa: F401

import io

from fontTools.fontBuilder import FontBuilder
from fontTools.pens.ttGlyphPen import TTGlyphPen
from fontTools.pens.t2CharStringPen import T2CharStringPen
from fontTools.ttLib import TTFont, newTable

DEFAULT_GLYPHS = ["a", "b", "c", "d", "e"]


def _norm_loc(spec, loc):
    """user location -> dict tag -> normalised (piecewise linear through min/default/max)."""
    out = {}
    for tag, lo, df, hi in spec.get("axes", []):
        v = loc.get(tag, df)
        if v < df:
            out[tag] = -(df - v) / (df - lo) if df != lo else 0.0
        elif v > df:
            out[tag] = (v - df) / (hi - df) if hi != df else 0.0
        else:
            out[tag] = 0.0
    return out


def _val(spec, nloc, base, k):
    """Master-dependent integer: base + linear + bilinear + quadratic terms in the location."""
    coef = spec.get("coef", 0)
    xs = [nloc[t] for t in sorted(nloc)]
    v = base + coef * (k % 5)
    for i, x in enumerate(xs):
        v += x * (37 + 11 * i + 3 * (k % 7))
        v += x * x * (13 + 5 * i + (k % 3))
    if len(xs) >= 2:
        v += xs[0] * xs[1] * (29 + (k % 5))
    return int(round(v))


def glyph_points(spec, gi, nloc):
    """Contours of glyph number gi: list of contours, contour = list of (x, y, kind) with kind in
    'l' (line point), 'q' (quadratic off-curve), 'c' (cubic off-curve)."""
    shapes = spec.get("shapes", "box")
    k = gi * 10
    x0 = _val(spec, nloc, 40 + 7 * gi, k)
    y0 = _val(spec, nloc, 0 - 3 * gi, k + 1)
    x1 = x0 + 120 + abs(_val(spec, nloc, 60 + 9 * gi, k + 2))
    y1 = y0 + 200 + abs(_val(spec, nloc, 150 + 11 * gi, k + 3))
    box = [(x0, y0, "l"), (x1, y0, "l"), (x1, y1, "l"), (x0, y1, "l")]
    if shapes == "box":
        return [box]
    m = gi % 5
    if m == 0:
        return [box]
    if m == 1:
        return [[(x0, y0, "l"), (x1, y0, "l"), ((x0 + x1) // 2, y1, "l")]]
    if m == 2:
        # curved: off-curve points of the family the font kind supports
        if spec["kind"] == "ttf":
            return [[(x0, y0, "l"), (x1, y0, "q"), (x1, y1, "l"), (x0, y1, "q")]]
        return [[(x0, y0, "l"), (x1, y0, "c"), (x1, y0 + 50, "c"), (x1, y1, "l"), (x0, y1, "l")]]
    if m == 3:
        inner = [(x0 + 30, y0 + 30, "l"), (x0 + 30, y1 - 30, "l"), (x1 - 30, y1 - 30, "l"), (x1 - 30, y0 + 30, "l")]
        return [box, inner]
    return []  # empty glyph (space-like)


def _draw(pen, contours):
    for c in contours:
        # rotate so the contour starts with an on-curve point
        pen.moveTo(c[0][:2])
        i = 1
        n = len(c)
        while i < n:
            x, y, kind = c[i]
            if kind == "l":
                pen.lineTo((x, y))
                i += 1
            elif kind == "q":
                nxt = c[(i + 1) % n]
                pen.qCurveTo((x, y), nxt[:2])
                i += 2
            else:
                p2 = c[i + 1]
                nxt = c[(i + 2) % n]
                pen.curveTo((x, y), p2[:2], nxt[:2])
                i += 3
        pen.closePath()


def advance(spec, gi, nloc):
    return max(0, _val(spec, nloc, 500 + 10 * gi, 100 + gi))


def glyph_names(spec):
    names = [".notdef"] + list(spec.get("glyphs", DEFAULT_GLYPHS))
    if spec.get("composite") and spec["kind"] == "ttf":
        names.append("comp")
    return names


def default_cmap(spec):
    cm = spec.get("cmap")
    if cm is not None:
        return {int(k): v for k, v in cm.items()}
    return {ord(g): g for g in spec.get("glyphs", DEFAULT_GLYPHS) if len(g) == 1}


def static_font(spec, loc=None, with_layout=True):
    """Build the static font of `spec` at user location `loc` (default: axis defaults)."""
    nloc = _norm_loc(spec, loc or {})
    kind = spec["kind"]
    upem = spec.get("upem", 1000)
    names = glyph_names(spec)
    fb = FontBuilder(upem, isTTF=(kind == "ttf"))
    fb.setupGlyphOrder(names)
    fb.setupCharacterMap(default_cmap(spec))
    glyphs = {}
    metrics = {}
    for gi, gn in enumerate(names):
        if gn == "comp":
            pen = TTGlyphPen({names[1]: None, names[2]: None})
            pen.addComponent(names[1], (1, 0, 0, 1, 0, 0))
            pen.addComponent(names[2], (1, 0, 0, 1, _val(spec, nloc, 300, 900), _val(spec, nloc, 20, 901)))
            glyphs[gn] = pen.glyph()
            metrics[gn] = (advance(spec, gi, nloc), 0)
            continue
        contours = glyph_points(spec, gi, nloc)
        adv = advance(spec, gi, nloc)
        if kind == "ttf":
            pen = TTGlyphPen(None)
            _draw(pen, contours)
            glyphs[gn] = pen.glyph()
        else:
            pen = T2CharStringPen(adv, None)
            _draw(pen, contours)
            glyphs[gn] = pen.getCharString()
        xs = [p[0] for c in contours for p in c]
        metrics[gn] = (adv, min(xs) if xs else 0)
    if kind == "ttf":
        fb.setupGlyf(glyphs)
    else:
        fb.setupCFF("Tiny-Regular", {"FullName": "Tiny Regular"}, glyphs, {})
    fb.setupHorizontalMetrics(metrics)
    asc = _val(spec, nloc, 800, 500)
    desc = -abs(_val(spec, nloc, 200, 501))
    fb.setupHorizontalHeader(ascent=asc, descent=desc)
    fb.setupNameTable({"familyName": "Tiny", "styleName": "Regular"})
    fb.setupOS2(sTypoAscender=asc, sTypoDescender=desc, usWinAscent=asc, usWinDescent=-desc,
                sxHeight=_val(spec, nloc, 450, 502), sCapHeight=_val(spec, nloc, 700, 503))
    fb.setupPost(keepGlyphNames=not spec.get("post3"))
    if spec.get("vmtx"):
        # advance heights and top side bearings differ per glyph and per master (VVAR in built VFs)
        fb.setupVerticalMetrics({gn: (_val(spec, nloc, upem - 30 * gi, 900 + gi), _val(spec, nloc, 40 + 3 * gi, 950 + gi)) for gi, gn in enumerate(names)})
        fb.setupVerticalHeader(ascent=upem // 2, descent=-upem // 2)
    font = fb.font
    if spec.get("kern"):
        from fontTools.ttLib.tables._k_e_r_n import KernTable_format_0

        kern = newTable("kern")
        kern.version = 0
        st = KernTable_format_0()
        st.coverage = 1
        st.format = 0
        st.tupleIndex = None
        st.kernTable = {(l, r): _val(spec, nloc, v, 700 + i) for i, (l, r, v) in enumerate(spec["kern"])}
        kern.kernTables = [st]
        font["kern"] = kern
    if with_layout and spec.get("fea"):
        from fontTools.feaLib.builder import addOpenTypeFeaturesFromString

        fea = spec["fea"]
        if "%(" in fea:
            # positioning values may depend on the master: %(k,base)d placeholders
            import re

            fea = re.sub(r"%\((\d+),(-?\d+)\)d", lambda m: str(_val(spec, nloc, int(m.group(2)), 800 + int(m.group(1)))), fea)
        addOpenTypeFeaturesFromString(font, fea)
    return font


def to_bytes(font, **kw):
    buf = io.BytesIO()
    font.save(buf, **kw)
    return buf.getvalue()


def reload(font):
    return TTFont(io.BytesIO(to_bytes(font)))


def designspace(spec, fonts=None):
    from fontTools.designspaceLib import DesignSpaceDocument, AxisDescriptor, SourceDescriptor

    ds = DesignSpaceDocument()
    for tag, lo, df, hi in spec["axes"]:
        a = AxisDescriptor()
        a.tag = tag
        a.name = {"wght": "Weight", "wdth": "Width", "opsz": "Optical Size"}.get(tag, tag)
        a.minimum, a.default, a.maximum = lo, df, hi
        m = spec.get("avar", {}).get(tag)
        if m:
            a.map = [tuple(p) for p in m]
        ds.addAxis(a)
    masters = spec["masters"]
    for i, loc in enumerate(masters):
        s = SourceDescriptor()
        s.font = fonts[i] if fonts else reload(static_font(spec, loc))
        s.name = "master%d" % i
        design = {}
        for a in ds.axes:
            design[a.name] = a.map_forward(loc.get(a.tag, a.default))
        s.location = design
        s.familyName = "Tiny"
        s.styleName = "M%d" % i
        ds.addSource(s)
    return ds


def variable_font(spec, **build_kw):
    """Variable font built with varLib.build from in-memory static masters."""
    from fontTools import varLib

    ds = designspace(spec)
    vf, _model, _ = varLib.build(ds, **build_kw)
    return vf


def build(spec):
    """spec -> TTFont (variable if the spec has axes)."""
    if spec.get("axes"):
        return variable_font(spec)
    return static_font(spec)


def build_bytes(spec, **kw):
    return to_bytes(build(spec), **kw)


# ---- a standard pool of specs used by several engines -------------------------------------
FEA_BASIC = """
languagesystem DFLT dflt;
languagesystem latn dflt;
@L = [a b c];
feature liga { sub a b by d; sub c c c by e; } liga;
feature calt { sub a' c by b; } calt;
feature kern { pos a b -40; pos @L e <10 0 -25 0>; pos [a b] [c d] 15; } kern;
"""

FEA_MARK = """
languagesystem DFLT dflt;
markClass m <anchor 100 600> @TOP;
markClass n <anchor 120 -20> @BOT;
table GDEF { GlyphClassDef [a b c d e], , [m n], ; } GDEF;
feature mark {
  pos base a <anchor 250 700> mark @TOP <anchor 240 0> mark @BOT;
  pos base b <anchor 260 710> mark @TOP;
} mark;
feature mkmk { pos mark m <anchor 100 900> mark @TOP; } mkmk;
feature liga { sub a b by c; } liga;
feature kern { pos a b -30; } kern;
"""

FEA_VAR = """
languagesystem DFLT dflt;
feature kern { pos a b %(0,-40)d; pos b c %(1,25)d; pos [c d] [a e] %(2,10)d; } kern;
feature liga { sub a b by d; } liga;
"""


def pool():
    """Named standard specs."""
    P = {}
    P["ttf-box"] = {"kind": "ttf"}
    P["ttf-mixed"] = {"kind": "ttf", "shapes": "mixed", "glyphs": ["a", "b", "c", "d", "e", "f"], "composite": True, "fea": FEA_BASIC,
                      "kern": [["a", "b", -30], ["b", "a", 12]]}
    P["cff-mixed"] = {"kind": "cff", "shapes": "mixed", "glyphs": ["a", "b", "c", "d", "e", "f"], "fea": FEA_BASIC}
    P["ttf-mark"] = {"kind": "ttf", "shapes": "mixed", "glyphs": ["a", "b", "c", "d", "e", "m", "n"],
                     "cmap": {97: "a", 98: "b", 99: "c", 100: "d", 101: "e", 0x301: "m", 0x323: "n"}, "fea": FEA_MARK}
    P["vf-ttf-1axis"] = {"kind": "ttf", "shapes": "mixed", "glyphs": ["a", "b", "c", "d", "e"], "composite": True,
                         "axes": [["wght", 100, 400, 900]], "masters": [{"wght": 400}, {"wght": 100}, {"wght": 900}], "fea": FEA_VAR}
    P["vf-ttf-2axis"] = {"kind": "ttf", "shapes": "mixed", "glyphs": ["a", "b", "c", "d", "e"],
                         "axes": [["wght", 100, 400, 900], ["wdth", 50, 100, 200]],
                         "masters": [{}, {"wght": 100}, {"wght": 900}, {"wdth": 50}, {"wdth": 200}, {"wght": 900, "wdth": 200}, {"wght": 650}],
                         "avar": {"wght": [[100, 100], [400, 350], [900, 900]]}, "fea": FEA_VAR}
    P["vf-cff2-1axis"] = {"kind": "cff", "shapes": "mixed", "glyphs": ["a", "b", "c", "d", "e"],
                          "axes": [["wght", 100, 400, 900]], "masters": [{"wght": 400}, {"wght": 100}, {"wght": 900}], "fea": FEA_VAR}
    return P
