"""HarfBuzz (uharfbuzz) as an independent OpenType implementation: nominal glyphs, advances,
outlines and shaping."""
import uharfbuzz as hb

from . import geom


class HBFont:
    def __init__(self, data, index=0, coords=None, norm_coords=None):
        self.blob = hb.Blob(data)
        self.face = hb.Face(self.blob, index)
        self.font = hb.Font(self.face)
        self.upem = self.face.upem
        self.font.scale = (self.upem, self.upem)
        if coords:
            self.font.set_variations(coords)
        if norm_coords is not None:
            self.font.set_var_coords_normalized(list(norm_coords))

    def set_location(self, coords):
        self.font.set_variations(coords or {})

    def set_normalized(self, ncoords):
        """ncoords: list of floats in [-1,1] in fvar axis order (post-avar)."""
        self.font.set_var_coords_normalized([float(v) for v in ncoords])

    def nominal(self, cp):
        return self.font.get_nominal_glyph(cp)

    def h_advance(self, gid):
        return self.font.get_glyph_h_advance(gid)

    def v_advance(self, gid):
        return self.font.get_glyph_v_advance(gid)

    def extents(self, gid):
        return self.font.get_glyph_extents(gid)

    def outline(self, gid):
        """Canonical contours of glyph `gid` at the current location."""
        pen = _HBPen()
        self.font.draw_glyph_with_pen(gid, pen)
        pen._flush(False)
        return geom.canon_contours(pen.contours)

    def raw_outline(self, gid):
        pen = _HBPen()
        self.font.draw_glyph_with_pen(gid, pen)
        pen._flush(False)
        return pen.contours

    def shape(self, text=None, gids=None, features=None, direction="ltr", script=None, language=None):
        """Shape a string or a glyph-id sequence; returns [(gid, cluster, xadv, yadv, xoff, yoff)]."""
        buf = hb.Buffer()
        if text is not None:
            buf.add_str(text)
        else:
            buf.add_codepoints(list(gids))
        buf.direction = direction
        if script:
            buf.script = script
        else:
            buf.script = "latn"
        buf.language = language or "en"
        buf.cluster_level = hb.BufferClusterLevel.MONOTONE_CHARACTERS
        font = self.font
        if gids is not None:
            font = self._gid_font()
        hb.shape(font, buf, features or {})
        return [
            (i.codepoint, i.cluster, p.x_advance, p.y_advance, p.x_offset, p.y_offset)
            for i, p in zip(buf.glyph_infos, buf.glyph_positions)
        ]

    def _gid_font(self):
        """A sub-font whose nominal-glyph callback is the identity: 'code point' n -> glyph n,
        so that glyph sequences can be shaped directly."""
        f = getattr(self, "_gidfont", None)
        if f is None:
            funcs = hb.FontFuncs.create()
            funcs.set_nominal_glyph_func(lambda font, cp, data: cp)
            # a fresh FontFuncs has nil advance callbacks: delegate to the real font
            parent = self.font
            funcs.set_glyph_h_advance_func(lambda font, gid, data: parent.get_glyph_h_advance(gid))
            funcs.set_glyph_v_advance_func(lambda font, gid, data: parent.get_glyph_v_advance(gid))
            f = hb.Font(self.face)
            f.scale = (self.upem, self.upem)
            f.funcs = funcs
            self._gidfont = f
        try:
            f.set_var_coords_normalized(self.font.get_var_coords_normalized())
        except Exception:
            pass
        return f


class _HBPen:
    def __init__(self):
        self.contours = []
        self._cur = None
        self._start = None
        self._pt = None

    def moveTo(self, pt):
        self._flush(False)
        self._cur = []
        self._start = pt
        self._pt = pt

    def lineTo(self, pt):
        self._cur.append(("L", self._pt, pt))
        self._pt = pt

    def qCurveTo(self, p1, p2):
        self._cur.append(("Q", self._pt, p1, p2))
        self._pt = p2

    def curveTo(self, p1, p2, p3):
        self._cur.append(("C", self._pt, p1, p2, p3))
        self._pt = p3

    def closePath(self):
        if self._cur is not None and self._pt != self._start:
            self._cur.append(("L", self._pt, self._start))
        self._flush(True)

    def endPath(self):
        self._flush(False)

    def _flush(self, closed):
        if self._cur is not None:
            self.contours.append((closed, self._start, self._cur))
        self._cur = None
