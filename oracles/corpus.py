"""The font corpus: vendored binary fonts and TTX dumps compiled from the working tree.

Everything is rebuilt on every run (no cache): TTX files are compiled with the fontTools under
test.  A TTX file that does not compile to a saved font is skipped, and the number skipped is
reported so that an engine can declare a minimum (vacuity guard).
"""
from mc import env

import io
import os
import multiprocessing

TESTS = os.path.join(env.REPO, "Tests")
BIN_EXT = (".ttf", ".otf", ".ttc", ".woff", ".woff2")

_bin_cache = None
_ttx_cache = {}


def rel(p):
    return os.path.relpath(p, TESTS)


def binary_files():
    global _bin_cache
    if _bin_cache is None:
        out = []
        for root, _dirs, files in os.walk(TESTS):
            for f in files:
                if f.lower().endswith(BIN_EXT):
                    out.append(os.path.join(root, f))
        out.sort(key=lambda p: (os.path.getsize(p), p))
        _bin_cache = [(rel(p), open(p, "rb").read()) for p in out]
    return _bin_cache


def is_aots(name):
    return "/aots/" in name


def open_font(data, **kw):
    from fontTools.ttLib import TTFont

    return TTFont(io.BytesIO(data), **kw)


def ttc_count(data):
    if data[:4] == b"ttcf":
        import struct

        return struct.unpack(">L", data[8:12])[0]
    return 0


def binary_faces():
    """(name, bytes, fontNumber) for every face; TTC members are listed separately."""
    out = []
    for name, data in binary_files():
        n = ttc_count(data)
        if n:
            for i in range(n):
                out.append(("%s#%d" % (name, i), data, i))
        else:
            out.append((name, data, -1))
    return out


def ttx_files():
    out = []
    for root, _dirs, files in os.walk(TESTS):
        for f in files:
            if f.lower().endswith(".ttx"):
                out.append(os.path.join(root, f))
    out.sort()
    return out


def _compile_ttx(path):
    from fontTools.ttLib import TTFont

    try:
        font = TTFont()
        font.importXML(path)
        if "head" not in font or "maxp" not in font:
            return (rel(path), None, "fragment")
        buf = io.BytesIO()
        font.save(buf)
        data = buf.getvalue()
        TTFont(io.BytesIO(data))
        return (rel(path), data, None)
    except Exception as e:  # fragments, expected-failure inputs
        return (rel(path), None, "%s: %s" % (type(e).__name__, str(e)[:100]))


def compiled_ttx(max_size=None, nproc=16):
    """[(name, bytes)] of every corpus TTX that compiles to a complete font."""
    key = "all"
    if key not in _ttx_cache:
        paths = ttx_files()
        ctx = multiprocessing.get_context("fork")
        with ctx.Pool(nproc) as pool:
            res = pool.map(_compile_ttx, paths, chunksize=4)
        ok = [(n, d) for n, d, err in res if d is not None]
        ok.sort(key=lambda t: (len(t[1]), t[0]))
        _ttx_cache[key] = ok
        _ttx_cache["skipped"] = [(n, err) for n, d, err in res if d is None]
    out = _ttx_cache[key]
    if max_size:
        out = [t for t in out if len(t[1]) <= max_size]
    return out


def skipped_ttx():
    compiled_ttx()
    return _ttx_cache["skipped"]


def has_tables(data, *tags, fontNumber=-1):
    try:
        f = open_font(data, fontNumber=fontNumber, lazy=True)
        return all(t in f for t in tags)
    except Exception:
        return False
