"""C10 observation and comparison: a built variable font at a master's location versus the
static master, through HarfBuzz (outlines, advances, shaping, MVAR metric deltas) and an exact
Fraction evaluation of HVAR, with an explicit rounding / quantisation budget.

Budget (derived in engines/c10.py docstring):
  * a value stored as default + sum(delta_r * scalar_r): varLib rounds delta_i of master i
    against the already rounded deltas of the masters before it, so at master i's own location
    the sum is off by the rounding of delta_i alone: <= 0.5;
  * gvar with optimize=True: every tuple may be replaced by an IUP-inferable one that is within
    0.5 of it per coordinate: + 0.5 * sum of the scalars of the glyph's tuples at the location;
  * composites: the component offset and the component's own points are separate values: the
    budgets add along the component chain; a glyph whose left side bearing differs from xMin is
    shifted by a separately varied phantom point: own budget counted twice;
  * CFF2: blend deltas are kept fractional unless within 0.01 of an integer, and are relative
    moves: 0.0101 per point drawn so far;
  * values HarfBuzz rounds to integers after adding the delta (advances, GPOS values): k
    separately rounded components give |difference| <= k (it is 0 unless a component sits
    exactly on a rounding tie);
  * quantisation: normalised coordinates and region coordinates live on the 2.14 grid; a
    location that is off the grid by E on an axis changes a scalar by at most
    (E + 2^-15) / (narrowest tent side), hence the value by that times the sum of the delta
    magnitudes that can apply.  It is exactly 0 for grid locations (all generated lattices).
"""
from mc import env  # noqa: F401

import io
import itertools
from fractions import Fraction as F

from fontTools.ttLib import TTFont

from . import c10_ref as ref
from . import geom, hbridge

FEATURES = {"kern": True, "mark": True, "mkmk": True}
EPS = 0.01  # float32 arithmetic inside HarfBuzz on coordinates of a few thousand units

# OpenType specification, MVAR "value tags": tag -> (table, field as named by the spec/fontTools)
MVAR_TAGS = {
    "hasc": ("OS/2", "sTypoAscender"), "hdsc": ("OS/2", "sTypoDescender"), "hlgp": ("OS/2", "sTypoLineGap"),
    "hcla": ("OS/2", "usWinAscent"), "hcld": ("OS/2", "usWinDescent"),
    "vasc": ("vhea", "ascent"), "vdsc": ("vhea", "descent"), "vlgp": ("vhea", "lineGap"),
    "hcrs": ("hhea", "caretSlopeRise"), "hcrn": ("hhea", "caretSlopeRun"), "hcof": ("hhea", "caretOffset"),
    "vcrs": ("vhea", "caretSlopeRise"), "vcrn": ("vhea", "caretSlopeRun"), "vcof": ("vhea", "caretOffset"),
    "xhgt": ("OS/2", "sxHeight"), "cpht": ("OS/2", "sCapHeight"),
    "sbxs": ("OS/2", "ySubscriptXSize"), "sbys": ("OS/2", "ySubscriptYSize"),
    "sbxo": ("OS/2", "ySubscriptXOffset"), "sbyo": ("OS/2", "ySubscriptYOffset"),
    "spxs": ("OS/2", "ySuperscriptXSize"), "spys": ("OS/2", "ySuperscriptYSize"),
    "spxo": ("OS/2", "ySuperscriptXOffset"), "spyo": ("OS/2", "ySuperscriptYOffset"),
    "strs": ("OS/2", "yStrikeoutSize"), "stro": ("OS/2", "yStrikeoutPosition"),
    "unds": ("post", "underlineThickness"), "undo": ("post", "underlinePosition"),
}


def _tagint(t):
    return int.from_bytes(t.encode("ascii"), "big")


def _metric_enum():
    import uharfbuzz as hb

    return {m.value: m for m in hb.OTMetricsTag}


class StoreView:
    """Item variation store read through fontTools' table objects into plain lists."""

    def __init__(self, store):
        self.regions = [[(F(a.StartCoord), F(a.PeakCoord), F(a.EndCoord)) for a in r.VarRegionAxis] for r in store.VarRegionList.Region]
        self.data = [(list(vd.VarRegionIndex), [list(it) for it in vd.Item]) for vd in store.VarData]

    def delta(self, varidx, loc):
        outer, inner = varidx >> 16, varidx & 0xFFFF
        if outer == 0xFFFF and inner == 0xFFFF:
            return F(0)
        idx, items = self.data[outer]
        return ref.store_delta(loc, self.regions, idx, items[inner])

    def magnitude(self):
        """Sum over regions of the largest |delta| stored against it."""
        best = {}
        for idx, items in self.data:
            for row in items:
                for ri, d in zip(idx, row):
                    best[ri] = max(best.get(ri, 0), abs(d))
        return sum(best.values())


class FontView:
    """One sfnt (master or variable font): HarfBuzz face + lazily read fontTools tables."""

    def __init__(self, data, tt=None):
        """data: sfnt bytes; or tt: an in-memory TTFont of an incomplete (sparse) master that
        HarfBuzz cannot interpret: tables only."""
        self.data = data
        self.tt = tt if tt is not None else TTFont(io.BytesIO(data), lazy=True)
        self.order = self.tt.getGlyphOrder()
        self.gid = {n: i for i, n in enumerate(self.order)}
        self.hb = hbridge.HBFont(data) if tt is None else None
        self.cmap = (self.tt.getBestCmap() or {}) if "cmap" in self.tt else {}
        self.kind = "glyf" if "glyf" in self.tt else "cff2" if "CFF2" in self.tt else "cff" if "CFF " in self.tt else None
        self._marks = None
        self._cache = {}

    def marks(self):
        if self._marks is None:
            self._marks = set()
            if "GDEF" in self.tt and getattr(self.tt["GDEF"].table, "GlyphClassDef", None) is not None:
                self._marks = {g for g, c in self.tt["GDEF"].table.GlyphClassDef.classDefs.items() if c == 3}
        return self._marks

    # ---- variable-font side data
    def axes(self):
        return [(a.axisTag, (F(a.minValue), F(a.defaultValue), F(a.maxValue))) for a in self.tt["fvar"].axes]

    def avar_segments(self):
        if "avar" not in self.tt:
            return {}
        return {t: {F(k): F(v) for k, v in seg.items()} for t, seg in self.tt["avar"].segments.items()}

    def gvar_tuples(self, gname):
        """[(region in axis order, largest |explicit delta|)] of one glyph."""
        key = ("gv", gname)
        if key not in self._cache:
            tags = [t for t, _ in self.axes()]
            out = []
            if "gvar" in self.tt:
                for tv in self.tt["gvar"].variations.get(gname, []):
                    region = [tuple(F(x) for x in tv.axes.get(t, (0, 0, 0))) for t in tags]
                    mag = max([max(abs(c[0]), abs(c[1])) for c in tv.coordinates if c is not None] or [0])
                    out.append((region, mag))
            self._cache[key] = out
        return self._cache[key]

    def components(self, gname):
        if self.kind != "glyf":
            return []
        key = ("comp", gname)
        if key not in self._cache:
            g = self.tt["glyf"][gname]
            self._cache[key] = [c.glyphName for c in g.components] if g.isComposite() else []
        return self._cache[key]

    def lsb_shift(self, gname):
        """True when the glyph's left side bearing differs from its xMin (the rasteriser then
        shifts the outline by the varied left phantom point)."""
        if self.kind != "glyf" or "hmtx" not in self.tt:
            return False
        g = self.tt["glyf"][gname]
        if g.numberOfContours == 0:
            return False
        return self.tt["hmtx"].metrics[gname][1] != g.xMin

    def hvar(self):
        if "hv" not in self._cache:
            v = None
            if "HVAR" in self.tt:
                t = self.tt["HVAR"].table
                v = (StoreView(t.VarStore), dict(t.AdvWidthMap.mapping) if t.AdvWidthMap is not None else None)
            self._cache["hv"] = v
        return self._cache["hv"]

    def store_magnitude(self, tag):
        key = ("mag", tag)
        if key not in self._cache:
            m = 0
            if tag in self.tt:
                t = self.tt[tag].table
                st = getattr(t, "VarStore", None)
                if st is not None:
                    m = StoreView(st).magnitude()
            self._cache[key] = m
        return self._cache[key]

    def cff2_delta_sum(self, gname):
        """Sum of |delta operand| over all blend operators of a CFF2 charstring."""
        key = ("cffd", gname)
        if key not in self._cache:
            top = self.tt["CFF2"].cff.topDictIndex[0]
            cs = top.CharStrings[gname]
            cs.decompile()
            store = top.VarStore.otVarStore if getattr(top, "VarStore", None) is not None else None
            vsindex = getattr(cs.private, "vsindex", 0) if cs.private is not None else 0
            total, stack = 0.0, []
            for tok in cs.program:
                if isinstance(tok, (int, float)):
                    stack.append(tok)
                elif tok == "vsindex":
                    vsindex = int(stack.pop())
                    stack = []
                elif tok == "blend":
                    n = int(stack.pop())
                    k = store.VarData[vsindex].VarRegionCount
                    d = stack[len(stack) - n * k:]
                    total += sum(abs(x) for x in d)
                    del stack[len(stack) - n * k:]
                else:
                    stack = []
            self._cache[key] = total
        return self._cache[key]


def pair_glyph_hints(tt, limit=40):
    """Characters worth shaping: those whose glyph is named by a GPOS coverage / class, first."""
    cmap = tt.getBestCmap() or {}
    hot = set()
    if "GPOS" in tt and tt["GPOS"].table.LookupList is not None:
        for lk in tt["GPOS"].table.LookupList.Lookup:
            for st in lk.SubTable:
                if hasattr(st, "ExtSubTable"):
                    st = st.ExtSubTable
                for attr in ("Coverage", "BaseCoverage", "MarkCoverage", "Mark1Coverage", "Mark2Coverage", "LigatureCoverage"):
                    cov = getattr(st, attr, None)
                    if cov is not None:
                        hot.update(cov.glyphs)
                cd2 = getattr(st, "ClassDef2", None)
                if cd2 is not None:
                    hot.update(cd2.classDefs)
                for ps in getattr(st, "PairSet", None) or []:
                    hot.update(r.SecondGlyph for r in ps.PairValueRecord)
    cps = sorted(cmap)
    first = [c for c in cps if cmap[c] in hot]
    rest = [c for c in cps if cmap[c] not in hot]
    return (first + rest)[:limit]


def texts_for(cps, marks_cps, triples=True):
    out = ["".join(map(chr, p)) for p in itertools.product(cps, repeat=2)]
    if triples:
        bases = [c for c in cps if c not in marks_cps]
        for b in bases[:3]:
            for m in marks_cps[:3]:
                for m2 in marks_cps[:3]:
                    out.append(chr(b) + chr(m) + chr(m2))
    return out


def observe(view, names, texts):
    """Observation of a font at HarfBuzz's current location: by glyph NAME."""
    hbf = view.hb
    glyphs = {}
    for n in names:
        gid = view.gid.get(n)
        if gid is None:
            continue
        raw = hbf.raw_outline(gid)
        npts = sum(len(s) - 2 for c in raw for s in c[2]) + len(raw)
        glyphs[n] = (geom.canon_contours(raw), hbf.h_advance(gid), npts, raw)
    shaped = {}
    marks = view.marks()
    for t in texts:
        res = hbf.shape(text=t, features=FEATURES)
        row, pen = [], 0
        for g, cl, xa, ya, xo, yo in res:
            name = view.order[g] if g < len(view.order) else g
            hadv = hbf.h_advance(g)
            ismark = name in marks
            # HarfBuzz zeroes the advance of marks: keep the raw advance for them
            row.append((name, cl, xa if ismark else xa - hadv, xa, ya, xo, yo, pen + xo, ismark))
            pen += xa
        shaped[t] = row
    return {"glyphs": glyphs, "shape": shaped}


def compare_shape(vs, ms, where, out, qint=1, ds=None, notes=None):
    """vs / ms / ds: observe()['shape'] of the variable font / the master / the default master.
    Appends (fkey, msg).  Substitutions are not variable data: a master whose GSUB shapes a
    text to other glyphs than the default master is outside 'compatible masters' for that text
    (noted, not compared); the variable font must agree with the masters where they agree."""
    for t in ms:
        a, b = vs.get(t), ms[t]
        if a is None:
            continue
        if [(x[0], x[1]) for x in a] != [(x[0], x[1]) for x in b]:
            d = ds.get(t) if ds is not None else None
            if d is not None and [(x[0], x[1]) for x in d] != [(x[0], x[1]) for x in b]:
                if notes is not None:
                    notes.append("masters substitute differently (GSUB is not variable): text not compared")
                continue
            out.append(("shape:glyph-sequence", "%s text %r: variable font shapes to %s, master to %s" % (where, t, [x[0] for x in a], [x[0] for x in b])))
            continue
        x0a, x0b = a[0][7], b[0][7]
        y0a, y0b = a[0][6], b[0][6]
        for i, (x, y) in enumerate(zip(a, b)):
            if y[8] and i > 0:
                # attached mark: position relative to the first glyph; two anchors per mark in
                # the chain, advance + kerning per glyph in between
                k = 2 * i * qint
                dx = (x[7] - x0a) - (y[7] - x0b)
                dy = (x[6] - y0a) - (y[6] - y0b)
                if abs(dx) > k or abs(dy) > k:
                    out.append(("shape:mark-offset", "%s text %r glyph #%d %s: mark position relative to the first glyph (%s,%s) vs master (%s,%s), allowed %d" % (where, t, i, x[0], x[7] - x0a, x[6] - y0a, y[7] - x0b, y[6] - y0b, k)))
                continue
            k = qint
            for fi, fname in ((2, "advance adjustment"), (4, "y advance"), (5, "x offset"), (6, "y offset")):
                if abs(x[fi] - y[fi]) > k:
                    out.append(("shape:" + fname.replace(" ", "-"), "%s text %r glyph #%d %s: %s %s vs master %s, allowed %d" % (where, t, i, x[0], fname, x[fi], y[fi], k)))
                    break


def merge_axis_lines(canon):
    """Geometry-preserving normal form: consecutive straight lines that run in exactly the same
    axis-parallel direction are one line (the CFF2 charstring specialiser joins them)."""
    out = []
    for closed, segs in canon:
        segs = list(segs)
        changed = True
        while changed and len(segs) > 1:
            changed = False
            n = len(segs)
            for i in range(n if closed else n - 1):
                a, b = segs[i], segs[(i + 1) % n]
                if a[0] != "L" or b[0] != "L" or a is b:
                    continue
                ax, ay = a[2][0] - a[1][0], a[2][1] - a[1][1]
                bx, by = b[2][0] - b[1][0], b[2][1] - b[1][1]
                if (ay == 0 and by == 0 and ax * bx > 0) or (ax == 0 and bx == 0 and ay * by > 0):
                    merged = ("L", a[1], b[2])
                    if (i + 1) % n == 0:
                        segs = [merged] + segs[1:i]
                    else:
                        segs = segs[:i] + [merged] + segs[i + 2:]
                    changed = True
                    break
        out.append((closed, tuple(segs)))
    return out


def observe_tables(tt, names):
    """Observation of a static master that is not a complete font (sparse master without
    hhea/OS-2...): outlines through fontTools' glyph set and the independent segment pen,
    advances from hmtx; no shaping."""
    gs = tt.getGlyphSet()
    glyphs = {}
    for n in names:
        pen = geom.SegPen(gs)
        gs[n].draw(pen)
        pen._flush(False)
        raw = pen.contours
        npts = sum(len(s) - 2 for c in raw for s in c[2]) + len(raw)
        glyphs[n] = (geom.canon_contours(raw), tt["hmtx"].metrics[n][0], npts, raw)
    return {"glyphs": glyphs, "shape": {}}
