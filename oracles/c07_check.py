"""C07 oracle: subset a font with the real subsetter and compare the result with the original
through HarfBuzz (by glyph NAME), plus structural scans of the saved result.

Everything the oracle expects is derived from the original font and from the documented
meaning of the request / options; nothing is read from the Subsetter's internal state.
"""
from mc import env  # noqa: F401

import io
import itertools
import re
import unicodedata

import uharfbuzz as hb

from fontTools import subset
from fontTools.ttLib import TTFont

from . import c07_fonts as F
from . import geom, hbridge

DEFAULT_FEATURES = list(subset.Options._layout_features_default)
DEFAULT_DROP = list(subset.Options._drop_tables_default)

SYNTH_NAME = re.compile(r"^glyph\d{5,}$")


def is_default_ignorable(cp):
    return (cp in (0xAD, 0x34F, 0x61C, 0x3164, 0xFEFF, 0xFFA0) or 0x115F <= cp <= 0x1160 or 0x17B4 <= cp <= 0x17B5
            or 0x180B <= cp <= 0x180F or 0x200B <= cp <= 0x200F or 0x202A <= cp <= 0x202E or 0x2060 <= cp <= 0x206F
            or 0xFE00 <= cp <= 0xFE0F or 0xFFF0 <= cp <= 0xFFF8 or 0x1BCA0 <= cp <= 0x1BCA3 or 0x1D173 <= cp <= 0x1D17A
            or 0xE0000 <= cp <= 0xE0FFF)


def is_vs(cp):
    return 0xFE00 <= cp <= 0xFE0F or 0xE0100 <= cp <= 0xE01EF or 0x180B <= cp <= 0x180D


# ---- option deviations ----------------------------------------------------------------------------
def deviations(info, seed):
    """[(name, kwargs)] single deviations from the default Options that make sense for this font
    (a deviation that cannot touch the font by the shape of its tables is left out)."""
    t = info.tables
    feats = sorted(info.feats["GSUB"] | info.feats["GPOS"])
    layout = bool(feats)
    devs = []
    if layout:
        devs.append(("features=*", {"layout_features": ["*"]}))
        devs.append(("features=none", {"layout_features": []}))
        # one GSUB and one GPOS feature kept alone (which one rotates with the seed)
        for tab in ("GSUB", "GPOS"):
            tags = sorted(info.feats[tab])
            if tags:
                tag = tags[seed % len(tags)]
                devs.append(("features=%s" % tag, {"layout_features": [tag]}))
        devs.append(("no-layout-closure", {"layout_closure": False}))
        devs.append(("repacker=on", {"harfbuzz_repacker": True}))
        devs.append(("repacker=off", {"harfbuzz_repacker": False}))
        devs.append(("drop+GSUB", {"drop_tables": DEFAULT_DROP + ["GSUB"]}))
        devs.append(("drop+GPOS", {"drop_tables": DEFAULT_DROP + ["GPOS"]}))
        devs.append(("recalc-max-context", {"recalc_max_context": True}))
    scripts = script_priority(info)
    if len(scripts) >= 2:
        for sc in scripts[:2]:
            devs.append(("scripts=%s" % sc, {"layout_scripts": [sc]}))
    for sc in scripts:
        if info.script_langs[sc]:
            lang = info.script_langs[sc][0]
            devs.append(("scripts=%s.%s" % (sc, lang.strip()), {"layout_scripts": ["%s.%s" % (sc, lang.strip())]}))
            devs.append(("scripts=%s.dflt" % sc, {"layout_scripts": ["%s.dflt" % sc]}))
            break
    devs.append(("retain-gids", {"retain_gids": True}))
    if "glyf" in t:
        # "not possible for Postscript-flavored fonts, as those require '.notdef'"
        devs.append(("no-notdef-glyph", {"notdef_glyph": False}))
    devs.append(("notdef-outline", {"notdef_outline": True}))
    if "glyf" in t:
        devs.append(("recommended-glyphs", {"recommended_glyphs": True}))
        devs.append(("recalc-bounds", {"recalc_bounds": True}))
    devs.append(("glyph-names", {"glyph_names": True}))
    devs.append(("no-hinting", {"hinting": False}))
    if "CFF " in t:
        devs.append(("desubroutinize", {"desubroutinize": True}))
    if info.rich_names:
        devs.append(("name-IDs=*", {"name_IDs": ["*"]}))
        devs.append(("name-IDs=none", {"name_IDs": []}))
        devs.append(("name-languages=*", {"name_languages": ["*"]}))
        devs.append(("name-legacy", {"name_legacy": True}))
        devs.append(("obfuscate-names", {"obfuscate_names": True}))
    if info.unknown_tables:
        devs.append(("passthrough-tables", {"passthrough_tables": True}))
    if "kern" in t:
        devs.append(("legacy-kern", {"legacy_kern": True}))
    if any(x in t for x in DEFAULT_DROP):
        devs.append(("drop=none", {"drop_tables": []}))
    devs.append(("recalc-average-width", {"recalc_average_width": True}))
    devs.append(("cli-loader", {"_cli_loader": True}))
    return devs


def base_options(info):
    """fonts whose features are outside the default --layout-features list (the AOTS fonts use
    the tag 'test') get layout_features='*' as their base configuration: under the plain default
    every lookup of such a font is dropped and nothing about closure would be exercised."""
    tags = info.feats["GSUB"] | info.feats["GPOS"]
    if tags and not (tags & set(DEFAULT_FEATURES)):
        return "features=*", {"layout_features": ["*"]}
    return "default", {}


def option_sets(info, tier, seed, pairs, base=False):
    """default + every single deviation (+ every compatible pair when `pairs`); with `base`,
    deviations are applied on top of base_options(info)."""
    devs = deviations(info, seed)
    out = [("default", {})]
    if base:
        bname, bkw = base_options(info)
        if bkw:
            out.append((bname, bkw))
            devs = [(bname + "&" + n, dict(bkw, **k)) for n, k in devs if not (set(k) & set(bkw))] + [(n, k) for n, k in devs if set(k) & set(bkw) and k != bkw]
    out += devs
    if pairs:
        for (n1, k1), (n2, k2) in itertools.combinations(devs, 2):
            if set(k1) & set(k2):
                continue
            kw = dict(k1)
            kw.update(k2)
            out.append((n1 + "&" + n2, kw))
    return out


# ---- the original font, observed once per process ----------------------------------------------------
class FontInfo:
    def __init__(self, key, data):
        self.key = key
        self.data = data
        font = TTFont(io.BytesIO(data))
        self.font = font
        self.order = font.getGlyphOrder()
        self.index = {n: i for i, n in enumerate(self.order)}
        self.dup_names = len(self.index) != len(self.order)
        self.tables = set(font.keys())
        self.cm, self.uvs = F.unicode_map(font)
        self.feats = F.feature_tags(font)
        self.scripts = F.script_tags(font)
        self.script_langs = {}
        for st in sorted(self.scripts):
            if "." in st:
                sc, lang = st.split(".")
                self.script_langs.setdefault(sc, []).append(lang)
            else:
                self.script_langs.setdefault(st, [])
        self.hbf = hbridge.HBFont(data)
        self.locs = var_locations(font)
        self.kinds = F.lookup_kinds(font)
        self.is_cff = "CFF " in font or "CFF2" in font
        self.notdef = self.order[0] if "glyf" in font else ".notdef"
        self.gpos_kern = "kern" in self.feats["GPOS"]
        self.nlookups = {tag: lookup_count(font, tag) for tag in ("GSUB", "GPOS")}
        self.pair2 = pair_class_counts(font)
        self.pair2_shadow = pairpos2_shadowing(font)
        names = font["name"].names if "name" in font else []
        self.rich_names = any(n.nameID > 6 or n.langID not in (0x409, 0) or not n.isUnicode() for n in names)
        known = set()
        for tag in self.tables:
            if tag == "GlyphOrder":
                continue
            from fontTools import ttLib

            clazz = ttLib.getTableClass(tag)
            if tag.strip() in subset.Options._no_subset_tables_default or hasattr(clazz, "subset_glyphs"):
                known.add(tag)
        self.unknown_tables = sorted(self.tables - known - {"GlyphOrder"} - {x for x in self.tables if x.strip() in DEFAULT_DROP})
        self.producers, self.nested = substitution_producers(font)
        self.multi_nested = has_multi_record_rules(font)
        self.has_subrs = cff_has_subrs(font)
        self.post_names = "CFF " in font or ("post" in font and font["post"].formatType in (1.0, 2.0))
        self.varstore_items = gdef_varstore_items(font)
        self.gdef_classes = dict(font["GDEF"].table.GlyphClassDef.classDefs) if "GDEF" in font and font["GDEF"].table.GlyphClassDef else {}
        self._glyphs = {}
        self._shape = {}
        self._hack_order = None
        self.components = component_map(font)
        self.colr_layers = colr_layer_map(font)
        self.colr_desc = colr_description(font)

    def hack_order(self):
        """glyph names as the command line loader sees them (dontLoadGlyphNames)"""
        if self._hack_order is None:
            f = subset.load_font(io.BytesIO(self.data), subset.Options(), dontLoadGlyphNames=True)
            self._hack_order = f.getGlyphOrder()
        return self._hack_order

    def glyph(self, li, name):
        k = (li, name)
        v = self._glyphs.get(k)
        if v is None:
            self.hbf.set_location(self.locs[li])
            gid = self.index[name]
            v = self._glyphs[k] = (self.hbf.outline(gid), self.hbf.h_advance(gid))
        return v

    def shape_traced(self, li, mode, fkey, feats, text):
        """-> (result by names, names of all glyphs that were in the buffer at any lookup boundary)"""
        k = ("t", li, mode, fkey, text)
        v = self._shape.get(k)
        if v is None:
            self.hbf.set_location(self.locs[li])
            seen = set()
            res = hb_shape(self.hbf, text, feats, mode, trace=seen)
            seen.update(g[0] for g in res)
            names = [(self.order[g] if g < len(self.order) else "gid%d" % g, cl, xa, ya, xo, yo) for g, cl, xa, ya, xo, yo in res]
            v = self._shape[k] = (names, frozenset(self.order[g] if g < len(self.order) else "gid%d" % g for g in seen))
        return v

    def shape(self, li, mode, fkey, feats, text):
        k = (li, mode, fkey, text)
        v = self._shape.get(k)
        if v is None:
            if len(self._shape) > 200000:
                self._shape.clear()
            self.hbf.set_location(self.locs[li])
            res = hb_shape(self.hbf, text, feats, mode)
            v = self._shape[k] = [(self.order[g] if g < len(self.order) else "gid%d" % g, cl, xa, ya, xo, yo) for g, cl, xa, ya, xo, yo in res]
        return v


def var_locations(font):
    if "fvar" not in font:
        return [{}]
    locs = [{}]
    for a in font["fvar"].axes:
        if a.minValue != a.defaultValue:
            locs.append({a.axisTag: a.minValue})
        if a.maxValue != a.defaultValue:
            locs.append({a.axisTag: a.maxValue})
    if len(font["fvar"].axes) > 1:
        locs.append({a.axisTag: a.maxValue for a in font["fvar"].axes})
    return locs


def lookup_count(font, tag):
    if tag in font and font[tag].table.LookupList:
        return len(font[tag].table.LookupList.Lookup)
    return 0


def pair_class_counts(font):
    out = []
    if "GPOS" in font and font["GPOS"].table.LookupList:
        for lk in font["GPOS"].table.LookupList.Lookup:
            for st in lk.SubTable:
                if hasattr(st, "ExtSubTable"):
                    st = st.ExtSubTable
                if type(st).__name__ == "PairPos" and st.Format == 2:
                    out.append((st.Class1Count, st.Class2Count))
    return out


def gdef_varstore_items(font):
    if "GDEF" in font and getattr(font["GDEF"].table, "VarStore", None):
        return sum(len(vd.Item) for vd in font["GDEF"].table.VarStore.VarData)
    return None


def cff_has_subrs(font):
    if "CFF " not in font:
        return False
    cff = font["CFF "].cff
    td = cff[cff.keys()[0]]
    if len(td.GlobalSubrs):
        return True
    privs = [td.Private] if hasattr(td, "Private") else []
    if hasattr(td, "FDArray"):
        privs += [fd.Private for fd in td.FDArray]
    return any(getattr(p, "Subrs", None) for p in privs)


def component_map(font):
    out = {}
    if "glyf" in font:
        glyf = font["glyf"]
        for gn in font.getGlyphOrder():
            g = glyf[gn]
            if g.isComposite():
                out[gn] = [c.glyphName for c in g.components]
    return out


def colr_layer_map(font):
    """base glyph -> set of glyph names its colour description refers to (v0 layers, v1 paints)"""
    out = {}
    if "COLR" not in font:
        return out
    colr = font["COLR"]
    if colr.version == 0:
        for g, layers in colr.ColorLayers.items():
            out.setdefault(g, set()).update(l.name for l in layers)
        return out
    tb = colr.table
    recs = {}
    if tb.LayerRecordArray:
        recs = tb.LayerRecordArray.LayerRecord
    if tb.BaseGlyphRecordArray:
        for r in tb.BaseGlyphRecordArray.BaseGlyphRecord:
            out.setdefault(r.BaseGlyph, set()).update(recs[i].LayerGlyph for i in range(r.FirstLayerIndex, r.FirstLayerIndex + r.NumLayers))
    if tb.BaseGlyphList:
        for r in tb.BaseGlyphList.BaseGlyphPaintRecord:
            names = set()
            _paint_glyphs(r.Paint, tb, names)
            out.setdefault(r.BaseGlyph, set()).update(names)
    return out


def _paint_glyphs(paint, tb, names):
    """names of glyphs a COLRv1 paint graph refers to, from the format definitions of the
    specification (PaintColrLayers = 1, PaintGlyph = 10, PaintColrGlyph = 11)."""
    fmt = paint.Format
    if fmt == 1:
        for i in range(paint.FirstLayerIndex, paint.FirstLayerIndex + paint.NumLayers):
            _paint_glyphs(tb.LayerList.Paint[i], tb, names)
        return
    if fmt in (10, 11):
        names.add(paint.Glyph)
    for attr in ("Paint", "SourcePaint", "BackdropPaint"):
        sub = getattr(paint, attr, None)
        if sub is not None:
            _paint_glyphs(sub, tb, names)


def substitution_producers(font):
    """glyph -> set of GSUB lookup types whose subtables can output it; set of lookup indices
    used as nested lookups of contextual (5/6) lookups -> type of the contextual lookup."""
    producers, nested = {}, {}
    if "GSUB" not in font or not font["GSUB"].table.LookupList:
        return producers, nested
    for li, lk in enumerate(font["GSUB"].table.LookupList.Lookup):
        for st in lk.SubTable:
            typ = lk.LookupType
            if hasattr(st, "ExtSubTable"):
                typ = st.ExtensionLookupType
                st = st.ExtSubTable
            outs = []
            if typ == 1:
                outs = list(st.mapping.values())
            elif typ == 2:
                outs = [g for v in st.mapping.values() for g in v]
            elif typ == 3:
                outs = [g for v in st.alternates.values() for g in v]
            elif typ == 4:
                outs = [lig.LigGlyph for v in st.ligatures.values() for lig in v]
            elif typ == 8:
                outs = list(st.Substitute)
            elif typ in (5, 6):
                recs = []
                F.walk_glyph_names  # noqa: B018 (keep import used)
                _collect_lookup_records(st, recs)
                for idx in recs:
                    nested.setdefault(idx, set()).add(typ)
            for g in outs:
                producers.setdefault(g, set()).add((typ, li))
    return producers, nested


def has_multi_record_rules(font):
    """True if some GSUB contextual rule applies more than one nested lookup (glyphs may then
    exist only in the middle of one lookup, where the HarfBuzz trace does not look)."""
    if "GSUB" not in font or not font["GSUB"].table.LookupList:
        return False
    for lk in font["GSUB"].table.LookupList.Lookup:
        for st in lk.SubTable:
            st = getattr(st, "ExtSubTable", st)
            if type(st).__name__ not in ("ContextSubst", "ChainContextSubst"):
                continue
            if st.Format == 3:
                if len(st.SubstLookupRecord) > 1:
                    return True
            else:
                rules = []
                _collect_rules(st, rules)
                if any(len(r.SubstLookupRecord) > 1 for r in rules):
                    return True
    return False


def _collect_lookup_records(obj, out, seen=None):
    if seen is None:
        seen = set()
    if id(obj) in seen or isinstance(obj, (str, int, float, bytes, type(None))):
        return
    seen.add(id(obj))
    if isinstance(obj, (list, tuple)):
        for v in obj:
            _collect_lookup_records(v, out, seen)
        return
    if isinstance(obj, dict):
        for v in obj.values():
            _collect_lookup_records(v, out, seen)
        return
    d = getattr(obj, "__dict__", None)
    if not d:
        return
    if type(obj).__name__.endswith("LookupRecord"):
        out.append(obj.LookupListIndex)
        return
    for k, v in d.items():
        if k in ("reader", "font"):
            continue
        _collect_lookup_records(v, out, seen)


# ---- HarfBuzz shaping with script / language choice ---------------------------------------------------
def hb_shape(hbf, text, features, mode, trace=None):
    script, lang = mode
    buf = hb.Buffer()
    buf.add_str(text)
    buf.direction = "ltr"
    if script == "DFLT":
        buf.script = "Zyyy"  # no OpenType script of its own: selects DFLT
    else:
        buf.set_script_from_ot_tag(script)
    if lang:
        buf.set_language_from_ot_tag(lang)
    else:
        buf.language = "und"  # no language system tag: the default language system
    buf.cluster_level = hb.BufferClusterLevel.MONOTONE_CHARACTERS
    if trace is not None:
        # every glyph that is in the buffer before / after any lookup
        def cb(_msg):
            trace.update(i.codepoint for i in buf.glyph_infos)
            return True

        buf.set_message_func(cb)
    hb.shape(hbf.font, buf, features)
    return [(i.codepoint, i.cluster, p.x_advance, p.y_advance, p.x_offset, p.y_offset) for i, p in zip(buf.glyph_infos, buf.glyph_positions)]


def script_priority(info):
    return sorted(info.script_langs, key=lambda t: ({"latn": 0, "DFLT": 1}.get(t, 2), t))


def all_modes(info):
    """(OpenType script tag, language system tag or None) pairs to shape with: the first three
    scripts of the font (latn, DFLT first), each with its default and its first language system"""
    scripts = script_priority(info)[:3]
    if not scripts:
        return [("latn", None)]
    modes = []
    for sc in scripts:
        modes.append((sc, None))
        for lang in info.script_langs[sc][:1]:
            modes.append((sc, lang))
    return modes


def shaping_modes(info, scripts_opt):
    """modes under which original and subset select the same OpenType script / language system
    given --layout-scripts (a script or language system the option drops is not shaped with)."""
    modes = all_modes(info)
    if "*" in scripts_opt:
        return modes
    out = []
    for sc, lang in modes:
        if lang is None:
            if sc in scripts_opt or sc + ".dflt" in scripts_opt:
                out.append((sc, lang))
        elif sc in scripts_opt or "%s.%s" % (sc, lang.strip()) in scripts_opt:
            out.append((sc, lang))
    return out


def feature_dict(info, kw):
    """explicit on/off for every feature tag of the original font: on iff the options retain it
    (tag kept by --layout-features and its table not dropped); 'kern' also drives HarfBuzz's use
    of the legacy kern table."""
    lf = kw.get("layout_features", DEFAULT_FEATURES)
    drop = kw.get("drop_tables", DEFAULT_DROP)
    keep_all = "*" in lf
    feats = {}
    gsub_on = "GSUB" not in drop
    gpos_on = "GPOS" not in drop
    for tag in info.feats["GSUB"]:
        feats[tag] = bool(gsub_on and (keep_all or tag in lf))
    for tag in info.feats["GPOS"]:
        on = bool(gpos_on and (keep_all or tag in lf))
        if tag in feats and feats[tag] != on:
            on = False  # a tag shared by GSUB and GPOS of which one table is dropped: off on both sides
        feats[tag] = on
    if "kern" in info.tables:
        kern_table_kept = kw.get("legacy_kern", False) or "GPOS" not in info.tables
        if "kern" in drop:
            kern_table_kept = False
        if info.gpos_kern:
            # HarfBuzz uses the GPOS feature and ignores the table
            pass
        else:
            feats["kern"] = bool(kern_table_kept)
    return feats


def selected_records(font, tag, mode):
    """(script record present, language system record present) for the OpenType script /
    language system a shaping mode names, in table `tag`."""
    if tag not in font or not font[tag].table.ScriptList:
        return None
    script, lang = mode
    for sr in font[tag].table.ScriptList.ScriptRecord:
        if sr.ScriptTag == script:
            if lang is None:
                return (True, sr.Script.DefaultLangSys is not None)
            return (True, any(l.LangSysTag == lang for l in sr.Script.LangSysRecord))
    return (False, False)


def pairpos2_shadowing(font):
    """number of PairPos format 2 subtables that are followed by another subtable in their
    lookup (first glyphs they cover never reach the later subtables)."""
    n = 0
    if "GPOS" in font and font["GPOS"].table.LookupList:
        for lk in font["GPOS"].table.LookupList.Lookup:
            sts = [st.ExtSubTable if hasattr(st, "ExtSubTable") else st for st in lk.SubTable]
            for i, st in enumerate(sts[:-1]):
                if type(st).__name__ == "PairPos" and st.Format == 2:
                    n += 1
    return n


def original_inert(info, li, mode, feats, text, what):
    """True when the table concerned (GSUB for glyphs, GPOS for positions) does nothing to this
    text in the ORIGINAL font under this mode: shaping it with that table's features switched
    off gives the same result."""
    tag = "GSUB" if what == "glyphs" else "GPOS"
    off = dict(feats)
    for t in info.feats[tag]:
        off[t] = False
    fk = lambda d: tuple(sorted(d.items()))
    a = info.shape(li, mode, fk(feats), feats, text)
    b = info.shape(li, mode, fk(off), off, text)
    if what == "glyphs":
        return [x[:2] for x in a] == [x[:2] for x in b]
    return a == b


def classify_shape_diff(info, sub, mode, what, inert=True):
    """Narrow class of a shaping difference from the shape of original and result: a script /
    language-system record the original selects is gone from the subset (the shaper falls back
    to DFLT / the default language system).  The class is only given when the table does
    nothing to the text in the original (the record was dropped because it was empty for the
    kept glyphs); a dropped record that did something stays an unclassified violation."""
    for tag in (("GSUB",) if what == "glyphs" else ("GPOS",)):
        a, b = selected_records(info.font, tag, mode), selected_records(sub, tag, mode)
        if a and b and inert:
            if a[0] and not b[0]:
                return ":%s-script-record-dropped" % tag
            if a[1] and not b[1]:
                return ":%s-langsys-record-dropped" % tag
    if what == "positions" and info.pair2_shadow and len(pair_class_counts(sub)) < len(info.pair2):
        return ":shadowing-class-pair-subtable-dropped"
    return ""


class Result:
    pass


def run_subset(info, kind, req, kw):
    """Run the real pipeline: load_font -> Subsetter.populate/subset -> save_font -> bytes.
    kind in unicodes/text/glyphs/gids; req = list of code points (unicodes/text) or of original
    glyph indices (glyphs/gids)."""
    kw = dict(kw)
    cli = kw.pop("_cli_loader", False)
    options = subset.Options(**kw)
    # the command line skips the glyph names only when they are not wanted in the output and no glyph
    # is requested by name (subset.main: dontLoadGlyphNames = not options.glyph_names and not glyphs)
    cli = bool(cli and not options.glyph_names and kind != "glyphs")
    font = subset.load_font(io.BytesIO(info.data), options, dontLoadGlyphNames=cli, lazy=True)
    s = subset.Subsetter(options)
    in_order = font.getGlyphOrder()
    if kind == "unicodes":
        s.populate(unicodes=list(req))
    elif kind == "text":
        s.populate(text="".join(chr(c) for c in req))
    elif kind == "glyphs":
        s.populate(glyphs=[in_order[i] for i in req])
    else:
        s.populate(gids=list(req))
    s.subset(font)
    new_order = font.getGlyphOrder()
    buf = io.BytesIO()
    subset.save_font(font, buf, options)
    r = Result()
    r.options = options
    r.mem_font = font
    r.in_order = in_order
    r.new_order = new_order
    r.data = buf.getvalue()
    # the glyph set layout tables are subset to (requested + cmap/MATH/GSUB closure); glyphs kept only
    # as composite components / COLR layers are retained but are not layout-visible
    idx = {n: i for i, n in enumerate(in_order)}
    r.layout_gids = frozenset(idx[g] for g in s.glyphs_gsubed if g in idx)
    r.cli = cli
    return r


def texts_over(chars, maxlen):
    for n in range(1, maxlen + 1):
        for tup in itertools.product(chars, repeat=n):
            yield "".join(chr(c) for c in tup)


def text_ok(text, retained, info, space_issue):
    """False for texts whose HarfBuzz result legitimately depends on characters that were not
    retained (Unicode composition / decomposition to a character the original maps, default
    ignorables rendered with the space glyph)."""
    for form in ("NFC", "NFD"):
        for ch in unicodedata.normalize(form, text):
            c = ord(ch)
            if c not in retained and c in info.cm:
                return False
    cps = [ord(ch) for ch in text]
    for i, c in enumerate(cps):
        if is_vs(c):
            if i and (cps[i - 1], c) in info.uvs:
                continue
            # a variation selector that is not consumed stays in the buffer as a default ignorable
            if space_issue or c not in info.cm:
                return False
        elif is_default_ignorable(c) and space_issue:
            return False
    return True


def check_case(info, kind, req, optname, kw, rec, text_alpha, maxlen):
    """The whole oracle for one (font, request, options)."""
    tag = "[%s]" % optname
    where = "%s %s=%s opts=%s" % (info.key, kind, list(req)[:12], optname)
    cli = kw.get("_cli_loader", False)
    try:
        r = run_subset(info, kind, req, kw)
    except subset.Subsetter.SubsettingError:
        raise
    cli = r.cli  # whether the glyph names really were skipped
    okw = {k: v for k, v in kw.items() if not k.startswith("_")}
    new_order_raw = r.new_order
    # names -> original names
    if cli and not info.dup_names:
        hack = info.hack_order()
        hidx = {n: i for i, n in enumerate(hack)}
        new_order = [info.order[hidx[n]] for n in new_order_raw]
    else:
        new_order = list(new_order_raw)
    new_index = {n: i for i, n in enumerate(new_order)}
    if len(new_index) != len(new_order):
        if not info.dup_names:
            rec.violation("struct:duplicate-glyph-names" + tag, "%s: result glyph order has duplicates %s" % (where, new_order))
        return
    unknown = [n for n in new_order if n not in info.index]
    if unknown:
        rec.violation("struct:unknown-glyph-names" + tag, "%s: result has glyphs the original does not: %s" % (where, unknown[:5]))
        return

    data = r.data
    sub = TTFont(io.BytesIO(data))
    hb2 = hbridge.HBFont(data)
    sub_order = sub.getGlyphOrder()
    n = len(new_order)
    if len(sub_order) != n or hb2.face.glyph_count != n or sub["maxp"].numGlyphs != n:
        rec.violation("struct:glyph-count" + tag, "%s: in-memory order has %d glyphs, saved font %d (maxp %d, HarfBuzz %d)" % (where, n, len(sub_order), sub["maxp"].numGlyphs, hb2.face.glyph_count))
        return

    notdef_glyph = okw.get("notdef_glyph", True)
    notdef_outline = okw.get("notdef_outline", False)
    retain = okw.get("retain_gids", False)
    drop = okw.get("drop_tables", DEFAULT_DROP)

    # ---- (1) requested characters / glyphs present ------------------------------------------------
    cm2, uvs2 = F.unicode_map(sub)
    requested_glyphs = set()
    if kind in ("unicodes", "text"):
        for cp in req:
            if cp not in info.cm:
                continue
            want = info.cm[cp]
            if info.hbf.nominal(cp) is not None:
                gid = hb2.nominal(cp)
                got = new_order[gid] if gid is not None and gid < n else None
            else:
                # a subtable format HarfBuzz does not read (format 2): fontTools' reading of the saved font
                got = new_order[sub_order.index(cm2[cp])] if cp in cm2 and cm2[cp] in sub_order else None
            if got is None and not notdef_glyph and want == new_order[0]:
                got = want  # glyph id 0 cannot be the target of a cmap entry: see below
            if got != want:
                cls = "request:character-missing"
                if all(t.format == 0 for t in info.font["cmap"].tables if t.isUnicode() and cp in t.cmap):
                    cls += ":only-in-format-0-subtable"
                rec.violation(cls + tag, "%s: U+%04X maps to %r in the subset, %r in the original" % (where, cp, got, want))
            requested_glyphs.add(want)
        for (base, sel), g in info.uvs.items():
            if base in req and sel in req:
                if (base, sel) not in uvs2:
                    rec.violation("request:variation-sequence-missing" + tag, "%s: <U+%04X U+%04X> not in the subset's format 14 cmap" % (where, base, sel))
                elif g is not None:
                    requested_glyphs.add(g)
                    got = uvs2[(base, sel)]
                    got = new_order[sub_order.index(got)] if got in sub_order else got
                    if got != g:
                        rec.violation("request:variation-sequence-missing" + tag, "%s: <U+%04X U+%04X> -> %r, original %r" % (where, base, sel, got, g))
    else:
        for gi in req:
            want = info.order[gi]
            requested_glyphs.add(want)
            if want not in new_index:
                rec.violation("request:glyph-missing" + tag, "%s: requested glyph %r (gid %d) not in the subset %s" % (where, want, gi, new_order[:12]))

    # ---- retained characters: what the subset's cmap maps; each must map to the original's glyph ---
    retained = set()
    for cp, g2 in cm2.items():
        gname = new_order[sub_order.index(g2)] if g2 in sub_order else None
        if cp not in info.cm or info.cm[cp] != gname:
            rec.violation("cmap:wrong-glyph" + tag, "%s: subset maps U+%04X to %r, original to %r" % (where, cp, gname, info.cm.get(cp)))
        else:
            retained.add(cp)
    if not notdef_glyph and new_order and new_order[0] != info.notdef:
        # --no-notdef-glyph: the first kept glyph takes glyph id 0, which a cmap cannot express
        # ("maps to the missing glyph"); every consumer shows glyph 0 for such a character, so it
        # still behaves as mapped to its glyph.  Such characters stay in the text alphabet.
        memcm, _ = F.unicode_map(r.mem_font)
        for cp, g in memcm.items():
            if g == new_order_raw[0] and info.cm.get(cp) == new_order[0]:
                retained.add(cp)
                rec.witness("character mapped to glyph 0 under --no-notdef-glyph")
    for (base, sel), g2 in uvs2.items():
        if (base, sel) not in info.uvs:
            rec.violation("cmap:wrong-glyph" + tag, "%s: subset has variation sequence <U+%04X U+%04X> the original lacks" % (where, base, sel))
        if base in retained:
            retained.add(sel)

    # ---- (5) retain_gids ------------------------------------------------------------------------------
    if retain:
        moved = [(nm, info.index[nm], i) for i, nm in enumerate(new_order) if info.index[nm] != i]
        if moved:
            rec.violation("retain-gids:glyph-moved" + tag, "%s: (name, old gid, new gid) %s" % (where, moved[:5]))

    # ---- (2)+(6) shaping ------------------------------------------------------------------------------
    feats = feature_dict(info, okw)
    fkey = tuple(sorted(feats.items()))
    modes = shaping_modes(info, okw.get("layout_scripts", ["*"]))
    closure_on = okw.get("layout_closure", True) and "GSUB" not in drop
    compare_gsub = True
    traced = False
    if not okw.get("layout_closure", True) and "GSUB" in info.tables and "GSUB" not in drop:
        # --no-layout-closure: rules whose products were not requested are removed, so texts may
        # legitimately shape differently.  The result is only comparable as a whole when the
        # closure would not have added anything; otherwise substitutions are switched off on
        # both sides and positioning is compared alone.
        kw2 = dict(kw)
        kw2["layout_closure"] = True
        r2 = run_subset(info, kind, req, kw2)
        rec.evals(1)
        same_rules = r2.new_order == r.new_order and TTFont(io.BytesIO(r2.data)).reader["GSUB"] == sub.reader["GSUB"]
        if not same_rules:
            rec.witness("no-layout-closure: closure would have added glyphs")
            if info.multi_nested:
                compare_gsub = False
                feats = dict(feats)
                for t in info.feats["GSUB"]:
                    feats[t] = False
                fkey = tuple(sorted(feats.items()))
            else:
                # a text is comparable when every glyph that is in HarfBuzz's buffer at any lookup
                # boundary of the ORIGINAL shaping was kept: every rule that fired then only
                # involves kept glyphs (inputs, products and context), so it must have been kept
                traced = True
            extra = set(r.new_order) - set(r2.new_order)
            if len(r2.new_order) > len(r.new_order):
                rec.witness("no-layout-closure: fewer glyphs than with closure")
            if extra:
                rec.violation("no-layout-closure:retains-more" + tag, "%s: without closure the subset has glyphs %s that the closure run lacks" % (where, sorted(extra)[:5]))
    compare_pos = "GPOS" not in drop or "GPOS" not in info.tables
    if "GDEF" in drop and "GDEF" in info.tables:
        compare_pos = False
    space_issue = 0x20 in info.cm and 0x20 not in retained
    # HarfBuzz synthesizes glyph classes from Unicode categories when a font has no GDEF glyph
    # classes at all.  If no kept glyph has a class the subset legitimately has no GlyphClassDef
    # (by the specification: every glyph is class 0, as before), but HarfBuzz then behaves
    # differently for lookup flags and mark zeroing: such a subset is not comparable by shaping.
    synthesized = info.hbf.face.has_layout_glyph_classes and not hb2.face.has_layout_glyph_classes and "GDEF" not in drop
    if synthesized:
        rec.witness("subset without glyph classes (HarfBuzz would synthesize): shaping not compared")
    alpha = [c for c in text_alpha if c in retained]
    if maxlen < 0:
        maxlen = -maxlen if len(alpha) <= 3 else -maxlen - 1
    used_glyphs = set()
    ntexts = 0
    mark_seen = False
    for text in texts_over(alpha, maxlen):
        if not text_ok(text, retained, info, space_issue):
            rec.count("texts skipped (normalisation / default ignorables depend on dropped characters)")
            continue
        for li in range(len(info.locs)):
            hb2.set_location(info.locs[li])
            for mode in modes:
                if traced:
                    a, seen_glyphs = info.shape_traced(li, mode, fkey, feats, text)
                    if not all(g in new_index and info.index[g] in r.layout_gids for g in seen_glyphs):
                        rec.count("no-layout-closure: text uses rules over glyphs that were not requested (not compared)")
                        continue
                    rec.witness("no-layout-closure: text compared after tracing the original's lookups")
                else:
                    a = info.shape(li, mode, fkey, feats, text)
                b = hb_shape(hb2, text, feats, mode)
                ntexts += 1
                missing = [g[0] for g in a if g[0] not in new_index]
                used_glyphs.update(g[0] for g in a)
                if missing:
                    via = sorted({"S%d" % t for g in missing for (t, _li) in info.producers.get(g, ())}) or ["?"]
                    rec.violation("closure:shaped-glyph-missing:" + "+".join(via) + tag,
                                  "%s: text %r (location %s, script/lang %s) shapes to %s in the original; %s not in the subset %s" % (where, text, info.locs[li], mode, [g[0] for g in a], missing, new_order[:14]))
                    continue
                if synthesized:
                    continue
                bn = [(new_order[g] if g < n else "gid%d" % g, cl, xa, ya, xo, yo) for g, cl, xa, ya, xo, yo in b]
                if [x[:2] for x in a] != [x[:2] for x in bn]:
                    rec.violation("shape:glyphs" + classify_shape_diff(info, sub, mode, "glyphs", original_inert(info, li, mode, feats, text, "glyphs")) + tag, "%s: text %r (location %s, script/lang %s): original %s, subset %s" % (where, text, info.locs[li], mode, [x[0] for x in a], [x[0] for x in bn]))
                    continue
                if compare_pos and a != bn:
                    rec.violation("shape:positions" + classify_shape_diff(info, sub, mode, "positions", original_inert(info, li, mode, feats, text, "positions")) + tag, "%s: text %r (location %s, script/lang %s): original %s, subset %s" % (where, text, info.locs[li], mode, a, bn))
                if not mark_seen and any((x[4] or x[5]) and info.gdef_classes.get(x[0]) == 3 for x in a):
                    mark_seen = True
    rec.count("texts shaped and compared", ntexts)
    if mark_seen:
        rec.witness("mark attachment present in a text")

    # GDEF glyph classes of the glyphs texts can reach, by name
    if info.hbf.face.has_layout_glyph_classes and "GDEF" not in drop:
        for nm in sorted((requested_glyphs | used_glyphs | {info.cm[c] for c in retained if c in info.cm}) & set(new_order)):
            ca = info.hbf.face.get_layout_glyph_class(info.index[nm])
            cb = hb2.face.get_layout_glyph_class(new_index[nm])
            if ca != cb and not (kind in ("glyphs", "gids") and not closure_on):
                rec.violation("gdef:glyph-class-changed" + tag, "%s: glyph %r has GDEF class %s in the original, %s in the subset" % (where, nm, ca, cb))

    # glyphs that must survive: requested, produced by shaping, and what they are built from
    required = set(requested_glyphs) | used_glyphs
    todo = list(required)
    while todo:
        g = todo.pop()
        for c in list(info.components.get(g, ())) + sorted(info.colr_layers.get(g, ()) if "COLR" not in drop else ()):
            if c not in required:
                required.add(c)
                todo.append(c)
    for g in sorted(required - requested_glyphs - used_glyphs):
        if g not in new_index:
            rec.violation("closure:component-or-layer-missing" + tag, "%s: glyph %r (component / colour layer of a kept glyph) not in the subset" % (where, g))

    # ---- (3) outlines and advances by name ----------------------------------------------------------------
    emptied = set()
    for li in range(len(info.locs)):
        hb2.set_location(info.locs[li])
        for gid, nm in enumerate(new_order):
            if nm in emptied:
                continue
            oa, adva = info.glyph(li, nm)
            ob, advb = hb2.outline(gid), hb2.h_advance(gid)
            if retain and li == 0 and nm not in required and not ob and advb == 0 and (oa or adva):
                emptied.add(nm)  # emptied in place (decided at the default location)
                continue
            if nm == info.notdef and gid == 0 and notdef_glyph and not notdef_outline:
                # "--no-notdef-outline: when including a '.notdef' glyph, remove its outline" (also when requested)
                if ob:
                    rec.violation("notdef:outline-kept" + tag, "%s: .notdef still has an outline (location #%d)" % (where, li))
                oa = ob
            msg = geom.contours_close(oa, ob, 0.01)
            if msg:
                rec.violation("outline" + tag, "%s: glyph %r location %s: %s" % (where, nm, info.locs[li], msg),
                              observed=[geom._round_contour(c) for c in ob][:4], expected=[geom._round_contour(c) for c in oa][:4])
            if adva != advb:
                cls = "advance"
                if nm == info.notdef and gid == 0 and li and notdef_glyph and not notdef_outline and "gvar" in info.tables and "HVAR" not in info.tables:
                    cls = "advance:emptied-notdef-loses-gvar-advance-variation"
                rec.violation(cls + tag, "%s: glyph %r location %s: advance %s -> %s" % (where, nm, info.locs[li], adva, advb))
    hb2.set_location({})

    # ---- (4) structure of the result ------------------------------------------------------------------------
    structural_scan(info, r, sub, sub_order, new_order, where, tag, rec)
    container_check(info, data, okw, where, tag, rec)
    option_checks(info, r, sub, sub_order, new_order, okw, where, tag, rec, hb2, required)

    # ---- witnesses ------------------------------------------------------------------------------------------
    nominal = {info.cm[c] for c in retained if c in info.cm} | requested_glyphs
    added = used_glyphs - nominal
    if added and closure_on:
        for g in added:
            for (t, li_) in info.producers.get(g, ()):
                rec.witness("closure kept a glyph produced by GSUB type %d" % t)
                for ct in info.nested.get(li_, ()):
                    rec.witness("closure kept a glyph produced through a type %d context" % ct)
    for tname in ("GSUB", "GPOS"):
        if tname in sub and info.nlookups[tname] and lookup_count(sub, tname) < info.nlookups[tname]:
            rec.witness("lookup pruned")
    if info.pair2 and "GPOS" in sub:
        p2 = pair_class_counts(sub)
        if p2 and (sum(a for a, _ in p2) < sum(a for a, _ in info.pair2) or sum(b for _, b in p2) < sum(b for _, b in info.pair2)):
            rec.witness("class-based pair kept with fewer classes")
    if retain and any(info.index[nm] + 1 < len(new_order) and nm not in required for nm in new_order):
        rec.witness("retain_gids with emptied glyphs")
    if info.is_cff:
        rec.witness("CFF font")
    if info.has_subrs:
        rec.witness("CFF font with subroutines")
    if len(info.locs) > 1:
        rec.witness("variable font")
        if info.varstore_items and gdef_varstore_items(sub) is not None and gdef_varstore_items(sub) < info.varstore_items:
            rec.witness("GDEF variation store shrunk (indices remapped)")
    if "COLR" in info.tables and any(g in info.colr_layers for g in required):
        rec.witness("COLR glyph kept")
    if info.uvs and any(is_vs(c) for c in retained):
        rec.witness("variation selector retained")
    if "kern" in sub:
        rec.witness("kern table kept")
    if info.components and any(g in info.components for g in required):
        rec.witness("composite glyph kept")
    if len(new_order) < len(info.order):
        rec.witness("glyphs dropped")
    if kind in ("unicodes", "text"):
        if any(v is False for v in feats.values()):
            rec.witness("feature switched off by options")
    return r


def structural_scan(info, r, sub, sub_order, new_order, where, tag, rec):
    n = len(sub_order)
    in_sub = set(sub_order)
    gone = set(info.order) - set(new_order) if not r.options.retain_gids else set()
    # every table decodes; glyph references that point past numGlyphs decode to synthesized names
    for ttag in sorted(sub.keys()):
        if ttag == "GlyphOrder":
            continue
        table = sub[ttag]
        names = set()
        if hasattr(table, "table"):
            F.walk_glyph_names(table.table, names)
        elif ttag == "cmap":
            for t in table.tables:
                if t.format == 14:
                    names.update(g for lst in t.uvsDict.values() for _u, g in lst if g is not None)
                else:
                    names.update(t.cmap.values())
        elif ttag == "kern":
            for t in table.kernTables:
                for pair in getattr(t, "kernTable", {}):
                    names.update(pair)
        elif ttag == "glyf":
            if len(table.glyphOrder) != n:
                rec.violation("struct:glyf-count" + tag, "%s: glyf has %d glyphs, maxp %d" % (where, len(table.glyphOrder), n))
            for gn in table.glyphOrder:
                g = table[gn]
                if g.isComposite():
                    names.update(c.glyphName for c in g.components)
        elif ttag in ("hmtx", "vmtx"):
            if len(table.metrics) != n:
                rec.violation("struct:metrics-count" + tag, "%s: %s has %d entries, maxp %d" % (where, ttag, len(table.metrics), n))
        elif ttag == "gvar":
            names.update(table.variations.keys())
        elif ttag == "COLR" and table.version == 0:
            for g, layers in table.ColorLayers.items():
                names.add(g)
                names.update(l.name for l in layers)
        elif ttag in ("CFF ", "CFF2"):
            td = table.cff[table.cff.keys()[0]]
            if len(td.charset) != n or len(td.CharStrings) != n:
                rec.violation("struct:charstring-count" + tag, "%s: %s has %d charset names / %d charstrings, maxp %d" % (where, ttag, len(td.charset), len(td.CharStrings), n))
        elif ttag == "VORG":
            names.update(table.VOriginRecords.keys())
        elif ttag == "hdmx":
            for sz, d in table.hdmx.items():
                if len(d) != n:
                    rec.violation("struct:metrics-count" + tag, "%s: hdmx size %s has %d entries, maxp %d" % (where, sz, len(d), n))
        bad = sorted(x for x in names if x not in in_sub and (SYNTH_NAME.match(x) or x in info.index))
        if bad:
            rec.violation("dangling-glyph-reference:" + ttag.strip() + tag, "%s: table %s of the saved subset refers to %s; glyph order is %s" % (where, ttag, bad[:5], sub_order[:14]))
    # in memory, by name: nothing may mention a glyph that was removed
    if gone:
        mem = r.mem_font
        for ttag in ("GSUB", "GPOS", "GDEF", "MATH", "BASE", "COLR"):
            if ttag in mem and hasattr(mem[ttag], "table"):
                names = set()
                F.walk_glyph_names(mem[ttag].table, names)
                bad = sorted(names & set(r.in_order) - set(r.new_order))
                if bad:
                    rec.violation("dangling-glyph-reference:" + ttag + tag, "%s: in-memory table %s still names removed glyphs %s" % (where, ttag, bad[:5]))


def ref_max_context(font):
    """OS/2 usMaxContext from its definition in the OpenType specification: single / multiple /
    alternate substitution and single positioning 1, pair positioning 2, ligature = number of
    components, contextual = input sequence, chaining = input + lookahead, reverse chaining =
    1 + lookahead; attachment lookups define no context.  Lengths are taken from the decoded
    lists, not from the count fields."""
    best = 0
    for tag in ("GSUB", "GPOS"):
        if tag not in font or not font[tag].table.LookupList:
            continue
        for lk in font[tag].table.LookupList.Lookup:
            for st in lk.SubTable:
                if hasattr(st, "ExtSubTable"):
                    st = st.ExtSubTable
                cls = type(st).__name__
                fmt = getattr(st, "Format", 1)
                if cls in ("SingleSubst", "MultipleSubst", "AlternateSubst", "SinglePos"):
                    best = max(best, 1)
                elif cls == "PairPos":
                    best = max(best, 2)
                elif cls == "LigatureSubst":
                    for ligs in st.ligatures.values():
                        for lig in ligs:
                            best = max(best, len(lig.Component) + 1)
                elif cls == "ReverseChainSingleSubst":
                    best = max(best, 1 + len(st.LookAheadCoverage))
                elif cls in ("ContextSubst", "ContextPos", "ChainContextSubst", "ChainContextPos"):
                    chain = cls.startswith("Chain")
                    if fmt == 3:
                        if chain:
                            best = max(best, len(st.InputCoverage) + len(st.LookAheadCoverage))
                        else:
                            best = max(best, len(st.Coverage))
                    else:
                        rules = []
                        _collect_rules(st, rules)
                        for r in rules:
                            seq = getattr(r, "Input", None)
                            if seq is None:
                                seq = getattr(r, "Class", [])
                            n = len(seq) + 1
                            if chain:
                                n += len(r.LookAhead)
                            best = max(best, n)
    return best


def _collect_rules(obj, out, depth=0):
    if isinstance(obj, (list, tuple)):
        for v in obj:
            _collect_rules(v, out, depth + 1)
        return
    d = getattr(obj, "__dict__", None)
    if not d or depth > 6:
        return
    name = type(obj).__name__
    if name.endswith("Rule") and not name.endswith("RuleSet"):
        out.append(obj)
        return
    for k, v in d.items():
        if k in ("Coverage", "ClassDef", "BacktrackClassDef", "InputClassDef", "LookAheadClassDef", "reader", "font"):
            continue
        if isinstance(v, (list, tuple)) or hasattr(v, "__dict__"):
            _collect_rules(v, out, depth + 1)


def colr_description(font):
    """base glyph name -> colour description with palette indices resolved to colours of
    palette 0 (so that CPAL pruning / renumbering is seen through)."""
    if "COLR" not in font:
        return {}
    colr = font["COLR"]
    pal = []
    if "CPAL" in font and font["CPAL"].palettes:
        pal = [(c.red, c.green, c.blue, c.alpha) for c in font["CPAL"].palettes[0]]

    def color(i):
        return "foreground" if i == 0xFFFF else (pal[i] if i < len(pal) else "palette-index-out-of-range:%d" % i)

    out = {}
    if colr.version == 0:
        for g, layers in colr.ColorLayers.items():
            out[g] = ["v0"] + [(l.name, color(l.colorID)) for l in layers]
        return out
    from fontTools.colorLib.unbuilder import unbuildColrV1

    tb = colr.table
    if tb.BaseGlyphRecordArray:
        recs = tb.LayerRecordArray.LayerRecord
        for r in tb.BaseGlyphRecordArray.BaseGlyphRecord:
            out[r.BaseGlyph] = ["v0"] + [(recs[i].LayerGlyph, color(recs[i].PaletteIndex)) for i in range(r.FirstLayerIndex, r.FirstLayerIndex + r.NumLayers)]

    def resolve(p):
        if isinstance(p, dict):
            return {k: (color(v) if k == "PaletteIndex" else resolve(v)) for k, v in sorted(p.items())}
        if isinstance(p, (list, tuple)):
            return [resolve(v) for v in p]
        return p

    if tb.BaseGlyphList:
        for g, paint in unbuildColrV1(tb.LayerList, tb.BaseGlyphList).items():
            out[g] = ["v1", resolve(paint)]
    return out


def container_check(info, data, okw, where, tag, rec):
    """the saved subset is a valid sfnt whose redundant fields agree with its own data, read by
    the fontTools-free reader oracles.otspec (as in C04): directory, checksums, padding; glyph
    count and loca format always; with --recalc-bounds every recomputable head/maxp/hhea field."""
    import struct

    from . import otspec

    try:
        c = otspec.parse_container(data)
    except (otspec.OTSpecError, struct.error) as e:
        rec.violation("container:unreadable" + tag, "%s: %s" % (where, e))
        return
    seen = set()
    for p in c.problems:
        code = p.split(":", 1)[0]
        if code not in seen:
            seen.add(code)
            rec.violation("container:" + code + tag, "%s: otspec: %s" % (where, p))
    T = c.tables
    problems = []
    glyphs = None
    try:
        if "glyf" in T and "loca" in T and "head" in T:
            glyphs = otspec.glyf_glyphs(T, problems)
        D = otspec.recompute_derived(T, glyphs)
        S = otspec.stored_derived(T, glyphs)
    except (otspec.OTSpecError, struct.error) as e:
        rec.violation("container:derived-unreadable" + tag, "%s: %s" % (where, e))
        return
    for p in problems + D["problems"]:
        rec.violation("container:" + p.split(":", 1)[0] + tag, "%s: %s" % (where, p))
    keys = ["numGlyphs", "head.indexToLocFormat"]
    if okw.get("recalc_bounds") and glyphs is not None and "fvar" not in T:
        keys = [k for k in S if k in D]
    for k in keys:
        if k in S and k in D and S[k] != D[k]:
            rec.violation("container:derived:" + k + tag, "%s: stored %s = %r, recomputed from the saved data %r" % (where, k, S[k], D[k]))
    if len(keys) > 2:
        rec.witness("recalculated derived fields verified by otspec")


def referenced_name_ids(font):
    ids = set()
    if "fvar" in font:
        for a in font["fvar"].axes:
            ids.add(a.axisNameID)
        for i in font["fvar"].instances:
            ids.add(i.subfamilyNameID)
            if i.postscriptNameID != 0xFFFF:
                ids.add(i.postscriptNameID)
    if "STAT" in font:
        st = font["STAT"].table
        if st.DesignAxisRecord:
            ids.update(a.AxisNameID for a in st.DesignAxisRecord.Axis)
        if st.AxisValueArray:
            ids.update(v.ValueNameID for v in st.AxisValueArray.AxisValue)
        if getattr(st, "ElidedFallbackNameID", None) is not None:
            ids.add(st.ElidedFallbackNameID)
    return ids


def option_checks(info, r, sub, sub_order, new_order, okw, where, tag, rec, hb2, required):
    orig = info.font
    n = len(new_order)
    # names referenced from fvar / STAT must survive any name pruning
    if "name" in sub:
        have = {nr.nameID for nr in sub["name"].names}
        need = referenced_name_ids(sub)
        orig_have = {nr.nameID for nr in orig["name"].names if nr.isUnicode()} if "name" in orig else set()
        lost = sorted(i for i in need - have if i in orig_have and not okw.get("name_languages") and not okw.get("name_legacy"))
        if lost and "*" not in okw.get("name_languages", [0x409]):
            # records may exist only in other languages; then the default language filter drops them by design
            lost = [i for i in lost if any(nr.nameID == i and nr.langID == 0x409 and nr.isUnicode() for nr in orig["name"].names)]
        if lost:
            rec.violation("name:referenced-record-dropped" + tag, "%s: name IDs %s are referenced from fvar/STAT but were pruned" % (where, lost))
        ids_opt = okw.get("name_IDs", [0, 1, 2, 3, 4, 5, 6])
        if "*" not in ids_opt and not okw.get("obfuscate_names"):
            extra = sorted(i for i in have if i < 256 and i not in ids_opt and i not in need)
            if extra:
                rec.violation("option:name-IDs:record-kept" + tag, "%s: name IDs %s survive --name-IDs=%s" % (where, extra, ids_opt))
        elif "*" in ids_opt and "name" in orig:
            want = {nr.nameID for nr in orig["name"].names if nr.isUnicode() and nr.langID == 0x409 and nr.nameID < 256}
            if not want <= have:
                rec.violation("option:name-IDs:record-dropped" + tag, "%s: name IDs %s dropped under --name-IDs=*" % (where, sorted(want - have)))
        if "*" not in okw.get("name_languages", [0x409]):
            bad = sorted({nr.langID for nr in sub["name"].names} - set(okw.get("name_languages", [0x409])))
            if bad:
                rec.violation("option:name-languages:record-kept" + tag, "%s: name records of languages %s survive" % (where, bad))
        if not okw.get("name_legacy", False) and any(not nr.isUnicode() for nr in sub["name"].names):
            rec.violation("option:name-legacy:record-kept" + tag, "%s: non-Unicode name records survive" % where)
    if okw.get("notdef_glyph", True) and new_order[0] != info.notdef and info.notdef in info.index:
        rec.violation("option:notdef-glyph:not-first" + tag, "%s: first glyph is %r, .notdef glyph is %r" % (where, new_order[0], info.notdef))
    if okw.get("recommended_glyphs") and "glyf" in info.tables:
        miss = [g for g in info.order[:4] if g not in new_order]
        if miss:
            rec.violation("option:recommended-glyphs:missing" + tag, "%s: %s" % (where, miss))
    if "glyf" in info.tables and "post" in sub:
        if okw.get("glyph_names"):
            if info.post_names and not info.dup_names and not okw.get("_cli_loader") and sub_order != new_order:
                rec.violation("option:glyph-names:names-lost" + tag, "%s: saved names %s, expected %s" % (where, sub_order[:8], new_order[:8]))
        elif sub["post"].formatType != 3.0:
            rec.violation("option:glyph-names:names-kept" + tag, "%s: post format %s" % (where, sub["post"].formatType))
    if info.unknown_tables and "*" not in okw.get("drop_tables", DEFAULT_DROP):
        for t in info.unknown_tables:
            if okw.get("passthrough_tables"):
                if t not in sub or sub.reader[t] != info.font.reader[t]:
                    rec.violation("option:passthrough-tables:changed" + tag, "%s: table %r dropped or changed" % (where, t))
                else:
                    rec.witness("unknown table passed through")
            elif t in sub:
                rec.violation("option:passthrough-tables:kept" + tag, "%s: table %r kept without --passthrough-tables" % (where, t))
    if not okw.get("hinting", True):
        for t in ("fpgm", "prep", "cvt ", "hdmx", "VDMX"):
            if t in sub:
                rec.violation("option:no-hinting:table-kept" + tag, "%s: %s" % (where, t))
        if "glyf" in sub:
            for gn in sub_order:
                g = sub["glyf"][gn]
                if hasattr(g, "program") and g.program.getBytecode():
                    rec.violation("option:no-hinting:instructions-kept" + tag, "%s: glyph %r" % (where, gn))
                    break
    if okw.get("desubroutinize") and "CFF " in sub:
        if cff_has_subrs(sub):
            rec.violation("option:desubroutinize:subrs-kept" + tag, where)
        elif info.has_subrs:
            rec.witness("desubroutinized a font with subroutines")
    if okw.get("recalc_bounds") and "glyf" in sub and "fvar" not in sub:
        box = None
        for gid in range(n):
            pts = [p for c in hb2.raw_outline(gid) for s in c[2] for p in s[1:]]
            if pts:
                b = (min(p[0] for p in pts), min(p[1] for p in pts), max(p[0] for p in pts), max(p[1] for p in pts))
                box = b if box is None else (min(box[0], b[0]), min(box[1], b[1]), max(box[2], b[2]), max(box[3], b[3]))
        h = sub["head"]
        got = (h.xMin, h.yMin, h.xMax, h.yMax)
        if box is None:
            box = (0, 0, 0, 0)
        # HarfBuzz shifts outlines by lsb - xMin; tinyfont and corpus fonts have lsb == xMin
        if any(abs(a - b) > 1 for a, b in zip(got, box)):
            rec.violation("option:recalc-bounds:head-bbox" + tag, "%s: head bbox %s, union of glyph control boxes %s" % (where, got, box))
        else:
            rec.witness("recalculated head bbox verified")
    if okw.get("recalc_max_context") and "OS/2" in sub:
        exp = ref_max_context(sub)
        # C07 does not speak of usMaxContext; only an UNDER-estimate can change how a client shapes
        # retained text (a value above the longest remaining context, e.g. one that still counts
        # lookups pruned afterwards, is harmless and is not judged)
        if sub["OS/2"].usMaxContext < exp:
            rec.violation("option:recalc-max-context:too-small" + tag, "%s: usMaxContext %s, longest context of the subset's lookups %s" % (where, sub["OS/2"].usMaxContext, exp))
        elif sub["OS/2"].usMaxContext > exp:
            rec.count("recalculated usMaxContext larger than the longest remaining context (not judged)")
        elif exp >= 2:
            rec.witness("recalculated usMaxContext verified")
    if info.colr_desc and "COLR" not in okw.get("drop_tables", DEFAULT_DROP):
        # colour glyphs reachable from the request: same layers / paint graph and colours, by name
        got = colr_description(sub)
        tr = {a: b for a, b in zip(sub_order, new_order)}

        def rename(p):
            if isinstance(p, dict):
                return {k: (tr.get(v, v) if k == "Glyph" else rename(v)) for k, v in p.items()}
            if isinstance(p, list):
                return [rename(v) for v in p]
            if isinstance(p, tuple) and len(p) == 2 and isinstance(p[0], str):
                return (tr.get(p[0], p[0]), p[1])
            return p

        got = {tr.get(g, g): rename(d) for g, d in got.items()}
        for g in sorted(set(info.colr_desc) & required):
            if got.get(g) != info.colr_desc[g]:
                rec.violation("colr:description-changed" + tag, "%s: colour glyph %r: original %s, subset %s" % (where, g, info.colr_desc[g], got.get(g)))
            else:
                rec.witness("COLR description of a kept glyph verified")
    if okw.get("recalc_average_width") and "OS/2" in sub:
        adv = [hb2.h_advance(g) for g in range(n)]
        nz = [a for a in adv if a > 0]
        exp = int(round(sum(nz) / len(nz))) if nz else 0
        if abs(sub["OS/2"].xAvgCharWidth - exp) > 1:
            rec.violation("option:recalc-average-width" + tag, "%s: xAvgCharWidth %s, average of non-zero advances %s" % (where, sub["OS/2"].xAvgCharWidth, exp))
    if "kern" in info.tables:
        kept_expected = okw.get("legacy_kern", False) or "GPOS" not in info.tables
        if "kern" in sub and not kept_expected:
            rec.violation("option:legacy-kern:table-kept" + tag, where)
    for t in okw.get("drop_tables", DEFAULT_DROP):
        if t in sub or t.ljust(4) in sub:
            rec.violation("option:drop-tables:table-kept" + tag, "%s: %s" % (where, t))
