"""C20 helper: where values sit in the text formats fontTools reads (TTX, designspace, GLIF,
property lists, feature files), and documents with one value replaced.

XML is handled with xml.etree (independent of fontTools' readers); feature files with a small
tokenizer written from the feature-file syntax.  Nothing here imports fontTools.
"""
import copy
import os
import re
import xml.etree.ElementTree as ET

TEXT = "#text"


# ------------------------------------------------------------------ generic XML
def xml_occurrences(root):
    """[(element index in document order, element tag, attr name | '#text')]"""
    out = []
    for i, el in enumerate(root.iter()):
        if not isinstance(el.tag, str):
            continue
        for a in sorted(el.attrib):
            out.append((i, el.tag, a))
        if el.text and el.text.strip():
            out.append((i, el.tag, TEXT))
    return out


def xml_replace(root, index, attr, value):
    """serialized copy of the document with one value replaced"""
    new = copy.deepcopy(root)
    for i, el in enumerate(new.iter()):
        if i == index:
            if attr == TEXT:
                el.text = value
            else:
                el.set(attr, value)
            break
    return ET.tostring(new, encoding="utf-8", xml_declaration=True)


def files_with_ext(top, ext):
    out = []
    for root, _d, fs in os.walk(top):
        for f in fs:
            if f.endswith(ext):
                out.append(os.path.join(root, f))
    out.sort(key=lambda p: (os.path.getsize(p), p))
    return out


def xml_file_sites(paths, relto):
    """distinct (root tag, element, attr) sites -> smallest carrier; and per file all
    occurrences.  Returns (sites: [(key, relpath, index)], occ: {relpath: n})."""
    best = {}
    occ = {}
    for p in paths:
        try:
            root = ET.parse(p).getroot()
        except Exception:
            continue
        rel = os.path.relpath(p, relto)
        oc = xml_occurrences(root)
        occ[rel] = len(oc)
        for j, (i, tag, a) in enumerate(oc):
            k = (root.tag, tag, a)
            if k not in best:  # paths are sorted by size: first is the smallest carrier
                best[k] = (rel, j)  # j = ordinal in xml_occurrences()
    sites = [(list(k), v[0], v[1]) for k, v in sorted(best.items())]
    return sites, occ


# ------------------------------------------------------------------ TTX
def ttx_sites(paths, relto):
    """distinct (table element name, element name, attribute|#text) sites of the corpus TTX
    files with the smallest carrier file of each: [(table, element, attr, relpath)]."""
    best = {}
    for p in paths:  # sorted by size
        try:
            root = ET.parse(p).getroot()
        except Exception:
            continue
        rel = os.path.relpath(p, relto)
        fonts = [root] if root.tag == "ttFont" else [f for f in root if f.tag == "ttFont"]
        for f in fonts:
            for a in f.attrib:
                best.setdefault(("ttFont", "ttFont", a), rel)
            for table in f:
                if not isinstance(table.tag, str):
                    continue
                for el in table.iter():
                    if not isinstance(el.tag, str):
                        continue
                    for a in el.attrib:
                        best.setdefault((table.tag, el.tag, a), rel)
                    if el.text and el.text.strip():
                        best.setdefault((table.tag, el.tag, TEXT), rel)
    return [[k[0], k[1], k[2], v] for k, v in sorted(best.items())]


def ttx_reduced(root, table, element, attr, value):
    """<ttFont> holding GlyphOrder (if any) and the one table that carries the site, with the
    first occurrence of the site replaced.  None if the site is not in this file."""
    fonts = [root] if root.tag == "ttFont" else [f for f in root if f.tag == "ttFont"]
    for f in fonts:
        if table == "ttFont":
            new = ET.Element("ttFont", dict(f.attrib))
            new.set(attr, value)
            go = f.find("GlyphOrder")
            if go is not None:
                new.append(copy.deepcopy(go))
            return ET.tostring(new, encoding="utf-8", xml_declaration=True)
        for t in f:
            if t.tag != table:
                continue
            hit = None
            for i, el in enumerate(t.iter()):
                if el.tag == element and (attr in el.attrib if attr != TEXT else bool(el.text and el.text.strip())):
                    hit = i
                    break
            if hit is None:
                continue
            new = ET.Element("ttFont", dict(f.attrib))
            go = f.find("GlyphOrder")
            if go is not None and table != "GlyphOrder":
                new.append(copy.deepcopy(go))
            t2 = copy.deepcopy(t)
            for i, el in enumerate(t2.iter()):
                if i == hit:
                    if attr == TEXT:
                        el.text = value
                    else:
                        el.set(attr, value)
                    break
            new.append(t2)
            return ET.tostring(new, encoding="utf-8", xml_declaration=True)
    return None


SYNTHETIC_TTX = {
    # sites the reader itself evaluates, which the corpus files may not carry
    "raw": '<ttFont sfntVersion="OTTO"><CUST raw="%s"><hexdata>00</hexdata></CUST></ttFont>',
    "ERROR": '<ttFont sfntVersion="OTTO"><CUST ERROR="%s"><hexdata>00</hexdata></CUST></ttFont>',
    "sfntVersion-long": '<ttFont sfntVersion="%s"><CUST><hexdata>00</hexdata></CUST></ttFont>',
    "src": '<ttFont sfntVersion="OTTO"><CUST src="%s"/></ttFont>',
}


def xml_attr_escape(s):
    return s.replace("&", "&amp;").replace("<", "&lt;").replace('"', "&quot;")


# ------------------------------------------------------------------ feature files
FEA_TOKEN = re.compile(
    r"""
    (?P<comment>\#[^\n]*)
  | (?P<string>"[^"]*")
  | (?P<number>(?<![\w.@\\-])-?(?:0x[0-9A-Fa-f]+|\d+(?:\.\d+)?)(?![\w.]))
  | (?P<include>include\s*\([^)]*\))
  | (?P<name>[@\\]?[A-Za-z_.][\w.\-]*)
  | (?P<punct>[{};<>\[\]()=',\-])
  | (?P<ws>\s+)
  | (?P<other>.)
""",
    re.X,
)


def fea_positions(text):
    """value positions of a feature file: [(start, end, kind, statement keyword, ordinal)];
    kind in string / string-body / number / include."""
    out = []
    kw = None
    ordinal = 0
    for m in FEA_TOKEN.finditer(text):
        k = m.lastgroup
        if k in ("comment", "ws"):
            continue
        if k == "punct" and m.group() in ";{}":
            kw = None
            ordinal = 0
            continue
        if kw is None and k == "name":
            kw = m.group()
            continue
        if k == "include":
            a = m.group().index("(") + 1
            out.append((m.start() + a, m.end() - 1, "include", "include", 0))
            continue
        if k == "string":
            out.append((m.start(), m.end(), "string", kw or "", ordinal))
            out.append((m.start() + 1, m.end() - 1, "string-body", kw or "", ordinal))
            ordinal += 1
        elif k == "number":
            out.append((m.start(), m.end(), "number", kw or "", ordinal))
            ordinal += 1
    return out


def fea_glyph_names(text):
    names = []
    seen = set()
    for m in FEA_TOKEN.finditer(text):
        if m.lastgroup == "name":
            n = m.group().lstrip("\\")
            if not n.startswith("@") and n not in seen:
                seen.add(n)
                names.append(n)
    return names
