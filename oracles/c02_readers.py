"""Independent binary readers for C02, written from the OpenType specification with `struct`
only.  Nothing here imports fontTools.  Every reader raises `ReadError` on structurally
impossible data (offset outside the table, inconsistent counts) so that the engine can report
the compiled bytes as unreadable rather than crash.
"""
import struct


class ReadError(Exception):
    pass


def _need(data, pos, n, what):
    if pos < 0 or pos + n > len(data):
        raise ReadError("%s: need %d bytes at %d, table has %d" % (what, n, pos, len(data)))


def u8(d, p):
    _need(d, p, 1, "u8")
    return d[p]


def u16(d, p):
    _need(d, p, 2, "u16")
    return (d[p] << 8) | d[p + 1]


def i16(d, p):
    v = u16(d, p)
    return v - 0x10000 if v & 0x8000 else v


def u24(d, p):
    _need(d, p, 3, "u24")
    return (d[p] << 16) | (d[p + 1] << 8) | d[p + 2]


def u32(d, p):
    _need(d, p, 4, "u32")
    return struct.unpack_from(">L", d, p)[0]


def i32(d, p):
    _need(d, p, 4, "i32")
    return struct.unpack_from(">l", d, p)[0]


# ------------------------------------------------------------------------------------ sfnt
def sfnt_tables(data):
    """sfnt bytes -> {tag: bytes} (directory per the OpenType 'Table Directory')."""
    _need(data, 0, 12, "sfnt header")
    num = u16(data, 4)
    out = {}
    for i in range(num):
        p = 12 + 16 * i
        _need(data, p, 16, "table record")
        tag = data[p : p + 4].decode("latin-1")
        off, ln = u32(data, p + 8), u32(data, p + 12)
        _need(data, off, ln, "table " + tag)
        out[tag] = data[off : off + ln]
    return out


def _checksum(b):
    b = b + b"\0" * (-len(b) % 4)
    return sum(struct.unpack(">%dL" % (len(b) // 4), b)) & 0xFFFFFFFF


def sfnt_build(tables, version=b"\x00\x01\x00\x00"):
    """{tag: bytes} -> sfnt bytes (own assembler: sorted directory, 4-byte padding, checksums;
    head.checkSumAdjustment is left as found, HarfBuzz does not verify it)."""
    tags = sorted(tables)
    n = len(tags)
    es = 0
    while (1 << (es + 1)) <= n:
        es += 1
    sr = (1 << es) * 16
    out = [version + struct.pack(">HHHH", n, sr, es, n * 16 - sr)]
    off = 12 + 16 * n
    body = []
    for t in tags:
        d = tables[t]
        out.append(t.encode("latin-1") + struct.pack(">LLL", _checksum(d), off, len(d)))
        pad = -len(d) % 4
        body.append(d + b"\0" * pad)
        off += len(d) + pad
    return b"".join(out + body)


# ------------------------------------------------------------------------------------ cmap
def cmap_directory(data):
    """-> (version, [(platformID, encodingID, offset)]) in file order."""
    ver, n = u16(data, 0), u16(data, 2)
    recs = []
    for i in range(n):
        p = 4 + 8 * i
        recs.append((u16(data, p), u16(data, p + 2), u32(data, p + 4)))
    return ver, recs


def cmap_subtable_bytes(data, off):
    """The bytes of the subtable at `off` according to its own length field."""
    fmt = u16(data, off)
    if fmt in (0, 2, 4, 6):
        ln = u16(data, off + 2)
    elif fmt in (8, 10, 12, 13):
        ln = u32(data, off + 4)
    elif fmt == 14:
        ln = u32(data, off + 2)
    else:
        raise ReadError("unknown cmap format %d" % fmt)
    _need(data, off, ln, "cmap subtable fmt %d" % fmt)
    return data[off : off + ln]


def cmap_language(st):
    fmt = u16(st, 0)
    if fmt in (0, 2, 4, 6):
        return u16(st, 4)
    if fmt in (12, 13):
        return u32(st, 8)
    return None


def cmap_lookup(st, code):
    """Glyph id of character `code` in one subtable (0 = missing), formats 0,2,4,6,12,13."""
    fmt = u16(st, 0)
    if fmt == 0:
        if code < 0 or code > 255:
            return 0
        return u8(st, 6 + code)
    if fmt == 2:
        return _cmap2_lookup(st, code)
    if fmt == 4:
        if code < 0 or code > 0xFFFF:
            return 0
        segx2 = u16(st, 6)
        seg = segx2 // 2
        endp = 14
        startp = endp + segx2 + 2
        deltap = startp + segx2
        rop = deltap + segx2
        # "search for the first endCode that is greater than or equal to the character code"
        for i in range(seg):
            if u16(st, endp + 2 * i) >= code:
                start = u16(st, startp + 2 * i)
                if start > code:
                    return 0
                delta = u16(st, deltap + 2 * i)
                ro = u16(st, rop + 2 * i)
                if ro == 0:
                    return (code + delta) & 0xFFFF
                gp = rop + 2 * i + ro + 2 * (code - start)
                g = u16(st, gp)
                if g == 0:
                    return 0
                return (g + delta) & 0xFFFF
        return 0
    if fmt == 6:
        first, cnt = u16(st, 6), u16(st, 8)
        if first <= code < first + cnt:
            return u16(st, 10 + 2 * (code - first))
        return 0
    if fmt in (12, 13):
        n = u32(st, 12)
        lo, hi = 0, n - 1
        while lo <= hi:
            mid = (lo + hi) // 2
            p = 16 + 12 * mid
            s, e, g = u32(st, p), u32(st, p + 4), u32(st, p + 8)
            if code < s:
                hi = mid - 1
            elif code > e:
                lo = mid + 1
            else:
                return g + (code - s) if fmt == 12 else g
        return 0
    raise ReadError("cmap_lookup: format %d" % fmt)


def _cmap2_sub(st, k):
    p = 6 + 512 + 8 * k
    return u16(st, p), u16(st, p + 2), i16(st, p + 4), u16(st, p + 6), p + 6


def _cmap2_lookup(st, code):
    if code < 0 or code > 0xFFFF:
        return 0
    if code < 256:
        # a single byte code: valid only when its byte selects subheader 0
        k = u16(st, 6 + 2 * code) // 8
        if k != 0:
            return 0
        low = code
    else:
        hi, low = code >> 8, code & 0xFF
        k = u16(st, 6 + 2 * hi) // 8
        if k == 0:
            return 0  # `hi` is a one-byte character, there is no two-byte code with it
    first, cnt, delta, ro, rop = _cmap2_sub(st, k)
    if not (first <= low < first + cnt):
        return 0
    g = u16(st, rop + ro + 2 * (low - first))
    if g == 0:
        return 0
    return (g + delta) & 0xFFFF


def cmap_entries(st, limit=400000):
    """All (code, gid) with gid != 0 that the subtable maps, as a dict."""
    fmt = u16(st, 0)
    out = {}
    if fmt == 0:
        for c in range(256):
            g = u8(st, 6 + c)
            if g:
                out[c] = g
    elif fmt == 2:
        for b in range(256):
            k = u16(st, 6 + 2 * b) // 8
            if k == 0:
                codes = (b,)
            else:
                first, cnt, _delta, _ro, _rop = _cmap2_sub(st, k)
                if first + cnt > 256:
                    raise ReadError("cmap2 subheader %d: firstCode+entryCount > 256" % k)
                codes = range((b << 8) + first, (b << 8) + first + cnt)
            for c in codes:
                g = _cmap2_lookup(st, c)
                if g:
                    out[c] = g
    elif fmt == 4:
        segx2 = u16(st, 6)
        seg = segx2 // 2
        endp = 14
        startp = endp + segx2 + 2
        prev_end = -1
        for i in range(seg):
            s, e = u16(st, startp + 2 * i), u16(st, endp + 2 * i)
            if e < s:
                raise ReadError("cmap4 segment %d: end %d < start %d" % (i, e, s))
            for c in range(max(s, prev_end + 1), e + 1):
                g = cmap_lookup(st, c)
                if g:
                    out[c] = g
            prev_end = max(prev_end, e)
    elif fmt == 6:
        first, cnt = u16(st, 6), u16(st, 8)
        for k in range(cnt):
            g = u16(st, 10 + 2 * k)
            if g:
                out[first + k] = g
    elif fmt in (12, 13):
        n = u32(st, 12)
        if len(st) != 16 + 12 * n:
            raise ReadError("cmap%d: length %d != 16+12*%d" % (fmt, len(st), n))
        total = 0
        for k in range(n):
            p = 16 + 12 * k
            s, e, g = u32(st, p), u32(st, p + 4), u32(st, p + 8)
            if e < s:
                raise ReadError("cmap%d group %d: end < start" % (fmt, k))
            total += e - s + 1
            if total > limit:
                raise ReadError("cmap%d: more than %d mapped codes" % (fmt, limit))
            for c in range(s, e + 1):
                gg = g + (c - s) if fmt == 12 else g
                if gg:
                    out[c] = gg
    else:
        raise ReadError("cmap_entries: format %d" % fmt)
    return out


def cmap_structure_errors(st):
    """Spec constraints on the encoded form that a binary-search consumer relies on."""
    errs = []
    fmt = u16(st, 0)
    if fmt == 4:
        ln = u16(st, 2)
        if ln != len(st):
            errs.append("length field %d != %d" % (ln, len(st)))
        segx2 = u16(st, 6)
        seg = segx2 // 2
        if segx2 % 2 or seg < 1:
            errs.append("segCountX2 %d" % segx2)
            return errs
        es = 0
        while (1 << (es + 1)) <= seg:
            es += 1
        exp = (2 * (1 << es), es, 2 * seg - 2 * (1 << es))
        got = (u16(st, 8), u16(st, 10), u16(st, 12))
        if got != exp:
            errs.append("searchRange/entrySelector/rangeShift %r != %r" % (got, exp))
        endp = 14
        if u16(st, endp + segx2) != 0:
            errs.append("reservedPad != 0")
        startp = endp + segx2 + 2
        ends = [u16(st, endp + 2 * i) for i in range(seg)]
        starts = [u16(st, startp + 2 * i) for i in range(seg)]
        if ends[-1] != 0xFFFF:
            errs.append("last endCode %#x != 0xFFFF" % ends[-1])
        for i in range(seg):
            if starts[i] > ends[i]:
                errs.append("segment %d start > end" % i)
            if i and starts[i] <= ends[i - 1]:
                errs.append("segments %d,%d overlap or unsorted (%#x..%#x then %#x..%#x)" % (i - 1, i, starts[i - 1], ends[i - 1], starts[i], ends[i]))
    elif fmt in (12, 13):
        n = u32(st, 12)
        if u32(st, 4) != len(st):
            errs.append("length field")
        last = -1
        for k in range(n):
            p = 16 + 12 * k
            s, e = u32(st, p), u32(st, p + 4)
            if s <= last:
                errs.append("group %d not sorted / overlaps" % k)
                break
            last = e
    elif fmt == 6:
        if u16(st, 2) != len(st) or len(st) != 10 + 2 * u16(st, 8):
            errs.append("length field")
    elif fmt == 0:
        if u16(st, 2) != 262 or len(st) != 262:
            errs.append("length field")
    elif fmt == 2:
        if u16(st, 2) != len(st):
            errs.append("length field")
    return errs


def cmap14(st):
    """Format 14 -> {selector: (sorted default code list, {code: gid})}."""
    if u16(st, 0) != 14:
        raise ReadError("not format 14")
    if u32(st, 2) != len(st):
        raise ReadError("cmap14 length field %d != %d" % (u32(st, 2), len(st)))
    n = u32(st, 6)
    out = {}
    last = -1
    for i in range(n):
        p = 10 + 11 * i
        sel = u24(st, p)
        if sel <= last:
            raise ReadError("cmap14 selector records not sorted")
        last = sel
        doff, noff = u32(st, p + 3), u32(st, p + 7)
        dflt, nond = [], {}
        if doff:
            cnt = u32(st, doff)
            prev = -1
            for k in range(cnt):
                q = doff + 4 + 4 * k
                s, add = u24(st, q), u8(st, q + 3)
                if s <= prev:
                    raise ReadError("cmap14 default ranges not sorted/overlap")
                prev = s + add
                dflt.extend(range(s, s + add + 1))
        if noff:
            cnt = u32(st, noff)
            prev = -1
            for k in range(cnt):
                q = noff + 4 + 5 * k
                c, g = u24(st, q), u16(st, q + 3)
                if c <= prev:
                    raise ReadError("cmap14 non-default mappings not sorted")
                prev = c
                nond[c] = g
        out[sel] = (dflt, nond)
    return out


# ------------------------------------------------------------------------------------ hmtx
def hmtx(data, num_glyphs, num_long):
    """-> [(advance, sidebearing)] for every glyph."""
    if not 1 <= num_long <= num_glyphs:
        raise ReadError("numberOfHMetrics %d with %d glyphs" % (num_long, num_glyphs))
    need = 4 * num_long + 2 * (num_glyphs - num_long)
    if len(data) != need:
        raise ReadError("hmtx length %d, expected %d" % (len(data), need))
    out = []
    adv = 0
    for g in range(num_glyphs):
        if g < num_long:
            adv = u16(data, 4 * g)
            sb = i16(data, 4 * g + 2)
        else:
            sb = i16(data, 4 * num_long + 2 * (g - num_long))
        out.append((adv, sb))
    return out


# ------------------------------------------------------------------------------------ loca / glyf
def loca(data, long_format, num_glyphs):
    n = num_glyphs + 1
    if long_format:
        if len(data) != 4 * n:
            raise ReadError("loca(long) length %d for %d glyphs" % (len(data), num_glyphs))
        offs = list(struct.unpack(">%dL" % n, data))
    else:
        if len(data) != 2 * n:
            raise ReadError("loca(short) length %d for %d glyphs" % (len(data), num_glyphs))
        offs = [2 * v for v in struct.unpack(">%dH" % n, data)]
    for a, b in zip(offs, offs[1:]):
        if b < a:
            raise ReadError("loca offsets decrease")
    return offs


ON_CURVE, X_SHORT, Y_SHORT, REPEAT, X_SAME, Y_SAME, OVERLAP_SIMPLE, CUBIC = 1, 2, 4, 8, 16, 32, 64, 128


def glyph(data):
    """One glyph record -> dict.  Simple: kind='simple', bbox, endPts, points [(x,y,flagbits)],
    instructions, used (bytes consumed), nflagbytes, repeats.  Composite: kind='composite',
    components [dict], instructions or None.  Empty data -> kind='empty'."""
    if len(data) == 0:
        return {"kind": "empty"}
    nc = i16(data, 0)
    bbox = (i16(data, 2), i16(data, 4), i16(data, 6), i16(data, 8))
    p = 10
    if nc >= 0:
        ends = [u16(data, p + 2 * i) for i in range(nc)]
        p += 2 * nc
        for a, b in zip(ends, ends[1:]):
            if b <= a:
                raise ReadError("endPtsOfContours not increasing")
        il = u16(data, p)
        p += 2
        _need(data, p, il, "instructions")
        instr = data[p : p + il]
        p += il
        npts = ends[-1] + 1 if ends else 0
        flags = []
        nflagbytes = 0
        repeats = 0
        while len(flags) < npts:
            f = u8(data, p)
            p += 1
            nflagbytes += 1
            flags.append(f)
            if f & REPEAT:
                r = u8(data, p)
                p += 1
                nflagbytes += 1
                repeats += 1
                flags.extend([f] * r)
        if len(flags) != npts:
            raise ReadError("flag repeat overruns the point count")
        xs = []
        x = 0
        for f in flags:
            if f & X_SHORT:
                d = u8(data, p)
                p += 1
                x += d if f & X_SAME else -d
            elif not f & X_SAME:
                x += i16(data, p)
                p += 2
            xs.append(x)
        ys = []
        y = 0
        for f in flags:
            if f & Y_SHORT:
                d = u8(data, p)
                p += 1
                y += d if f & Y_SAME else -d
            elif not f & Y_SAME:
                y += i16(data, p)
                p += 2
            ys.append(y)
        pts = [(xs[i], ys[i], flags[i] & (ON_CURVE | OVERLAP_SIMPLE | CUBIC)) for i in range(npts)]
        return {"kind": "simple", "bbox": bbox, "endPts": ends, "points": pts, "instructions": instr,
                "used": p, "nflagbytes": nflagbytes, "repeats": repeats, "rawflags": flags}
    if nc != -1:
        raise ReadError("numberOfContours %d" % nc)
    comps = []
    have_instr = False
    while True:
        fl, gid = u16(data, p), u16(data, p + 2)
        p += 4
        c = {"flags": fl, "gid": gid}
        if fl & 0x0001:
            if fl & 0x0002:
                c["x"], c["y"] = i16(data, p), i16(data, p + 2)
            else:
                c["pt1"], c["pt2"] = u16(data, p), u16(data, p + 2)
            p += 4
        else:
            if fl & 0x0002:
                a, b = u8(data, p), u8(data, p + 1)
                c["x"], c["y"] = (a - 256 if a > 127 else a), (b - 256 if b > 127 else b)
            else:
                c["pt1"], c["pt2"] = u8(data, p), u8(data, p + 1)
            p += 2
        if fl & 0x0008:
            s = i16(data, p)
            p += 2
            c["m"] = (s, 0, 0, s)
        elif fl & 0x0040:
            c["m"] = (i16(data, p), 0, 0, i16(data, p + 2))
            p += 4
        elif fl & 0x0080:
            c["m"] = (i16(data, p), i16(data, p + 2), i16(data, p + 4), i16(data, p + 6))
            p += 8
        comps.append(c)
        if fl & 0x0100:
            have_instr = True
        if not fl & 0x0020:
            break
    instr = None
    if have_instr:
        il = u16(data, p)
        p += 2
        _need(data, p, il, "composite instructions")
        instr = data[p : p + il]
        p += il
    return {"kind": "composite", "bbox": bbox, "components": comps, "instructions": instr, "used": p}


# ------------------------------------------------------------------------------------ kern
def kern(data):
    """-> (version, [subtable dict]).  Microsoft header (version 0) and Apple header (1.0)."""
    v = u16(data, 0)
    out = []
    if v == 0:
        n = u16(data, 2)
        p = 4
        for i in range(n):
            sv, ln, cov = u16(data, p), u16(data, p + 2), u16(data, p + 4)
            fmt = cov >> 8
            st = {"format": fmt, "coverage": cov & 0xFF, "length": ln}
            if fmt == 0:
                npairs = u16(data, p + 6)
                real = 14 + 6 * npairs
                if n == 1:
                    # single subtable: consumers (HarfBuzz, DirectWrite) ignore a too-small length
                    ln = real
                elif ln != real:
                    raise ReadError("kern subtable length %d != %d" % (ln, real))
                st["search"] = (u16(data, p + 8), u16(data, p + 10), u16(data, p + 12))
                st["pairs"] = _kern_pairs(data, p + 14, npairs)
            out.append(st)
            p += ln
        if p != len(data):
            raise ReadError("kern: %d bytes, subtables end at %d" % (len(data), p))
        return 0, out
    if v == 1 and u16(data, 2) == 0:
        n = u32(data, 4)
        p = 8
        for i in range(n):
            ln, cov, fmt, tup = u32(data, p), u8(data, p + 4), u8(data, p + 5), u16(data, p + 6)
            st = {"format": fmt, "coverage": cov, "length": ln, "tupleIndex": tup}
            if fmt == 0:
                npairs = u16(data, p + 8)
                if ln != 16 + 6 * npairs:
                    raise ReadError("apple kern subtable length %d != %d" % (ln, 16 + 6 * npairs))
                st["search"] = (u16(data, p + 10), u16(data, p + 12), u16(data, p + 14))
                st["pairs"] = _kern_pairs(data, p + 16, npairs)
            out.append(st)
            p += ln
        if p != len(data):
            raise ReadError("kern: %d bytes, subtables end at %d" % (len(data), p))
        return 1, out
    raise ReadError("kern version %d" % v)


def _kern_pairs(data, p, n):
    _need(data, p, 6 * n, "kern pairs")
    vals = struct.unpack_from(">" + "HHh" * n, data, p)
    return [(vals[3 * i], vals[3 * i + 1], vals[3 * i + 2]) for i in range(n)]


def search_fields(n, item):
    """searchRange, entrySelector, rangeShift as the spec defines them."""
    if n == 0:
        return (0, 0, 0)
    es = 0
    while (1 << (es + 1)) <= n:
        es += 1
    return ((1 << es) * item, es, n * item - (1 << es) * item)


# ------------------------------------------------------------------------------------ name
def name(data):
    """-> (format, [(platformID, encodingID, languageID, nameID, bytes)]) in file order."""
    fmt, n, so = u16(data, 0), u16(data, 2), u16(data, 4)
    if fmt != 0:
        raise ReadError("name format %d" % fmt)
    if so != 6 + 12 * n:
        raise ReadError("name stringOffset %d != %d" % (so, 6 + 12 * n))
    recs = []
    for i in range(n):
        p = 6 + 12 * i
        pid, eid, lid, nid, ln, off = struct.unpack_from(">6H", data, p)
        _need(data, so + off, ln, "name string %d" % i)
        recs.append((pid, eid, lid, nid, data[so + off : so + off + ln]))
    return fmt, recs


# ------------------------------------------------------------------------------------ post
def post(data, num_glyphs, std_names):
    """-> (header dict, per-glyph PostScript names or None / code points for format 4)."""
    _need(data, 0, 32, "post header")
    ver = u32(data, 0)
    hdr = {
        "version": ver,
        "italicAngle": i32(data, 4),  # 16.16 raw
        "underlinePosition": i16(data, 8),
        "underlineThickness": i16(data, 10),
        "isFixedPitch": u32(data, 12),
        "minMemType42": u32(data, 16),
        "maxMemType42": u32(data, 20),
        "minMemType1": u32(data, 24),
        "maxMemType1": u32(data, 28),
    }
    if ver == 0x00010000:
        if len(data) != 32:
            raise ReadError("post 1.0 length %d" % len(data))
        return hdr, list(std_names[:num_glyphs])
    if ver == 0x00030000:
        if len(data) != 32:
            raise ReadError("post 3.0 length %d" % len(data))
        return hdr, None
    if ver == 0x00020000:
        n = u16(data, 32)
        if n != num_glyphs:
            raise ReadError("post 2.0 numGlyphs %d != %d" % (n, num_glyphs))
        idx = [u16(data, 34 + 2 * i) for i in range(n)]
        p = 34 + 2 * n
        strings = []
        while p < len(data):
            ln = u8(data, p)
            _need(data, p + 1, ln, "pascal string")
            strings.append(data[p + 1 : p + 1 + ln].decode("latin-1"))
            p += 1 + ln
        names = []
        for i in idx:
            if i < 258:
                names.append(std_names[i])
            else:
                if i - 258 >= len(strings):
                    raise ReadError("post 2.0 name index %d beyond %d strings" % (i, len(strings)))
                names.append(strings[i - 258])
        hdr["numStrings"] = len(strings)
        return hdr, names
    if ver == 0x00040000:
        if len(data) != 32 + 2 * num_glyphs:
            raise ReadError("post 4.0 length %d" % len(data))
        return hdr, [u16(data, 32 + 2 * i) for i in range(num_glyphs)]
    raise ReadError("post version %#x" % ver)


# ------------------------------------------------------------------------------------ OS/2
OS2_FIELDS_V0 = [
    ("version", "H"), ("xAvgCharWidth", "h"), ("usWeightClass", "H"), ("usWidthClass", "H"), ("fsType", "H"),
    ("ySubscriptXSize", "h"), ("ySubscriptYSize", "h"), ("ySubscriptXOffset", "h"), ("ySubscriptYOffset", "h"),
    ("ySuperscriptXSize", "h"), ("ySuperscriptYSize", "h"), ("ySuperscriptXOffset", "h"), ("ySuperscriptYOffset", "h"),
    ("yStrikeoutSize", "h"), ("yStrikeoutPosition", "h"), ("sFamilyClass", "h"), ("panose", "10s"),
    ("ulUnicodeRange1", "L"), ("ulUnicodeRange2", "L"), ("ulUnicodeRange3", "L"), ("ulUnicodeRange4", "L"),
    ("achVendID", "4s"), ("fsSelection", "H"), ("usFirstCharIndex", "H"), ("usLastCharIndex", "H"),
    ("sTypoAscender", "h"), ("sTypoDescender", "h"), ("sTypoLineGap", "h"), ("usWinAscent", "H"), ("usWinDescent", "H"),
]
OS2_FIELDS_V1 = [("ulCodePageRange1", "L"), ("ulCodePageRange2", "L")]
OS2_FIELDS_V2 = [("sxHeight", "h"), ("sCapHeight", "h"), ("usDefaultChar", "H"), ("usBreakChar", "H"), ("usMaxContext", "H")]
OS2_FIELDS_V5 = [("usLowerOpticalPointSize", "H"), ("usUpperOpticalPointSize", "H")]


def os2_fields(version):
    f = list(OS2_FIELDS_V0)
    if version >= 1:
        f += OS2_FIELDS_V1
    if version >= 2:
        f += OS2_FIELDS_V2
    if version >= 5:
        f += OS2_FIELDS_V5
    return f


def os2(data):
    ver = u16(data, 0)
    if ver > 5:
        raise ReadError("OS/2 version %d" % ver)
    fields = os2_fields(ver)
    fmt = ">" + "".join(c for _n, c in fields)
    if struct.calcsize(fmt) != len(data):
        raise ReadError("OS/2 v%d length %d, spec says %d" % (ver, len(data), struct.calcsize(fmt)))
    vals = struct.unpack(fmt, data)
    return dict(zip([n for n, _c in fields], vals))


# ------------------------------------------------------------------------------------ OTL pieces
def coverage(data, off=0):
    """Coverage table -> list of glyph ids in coverage-index order."""
    fmt = u16(data, off)
    if fmt == 1:
        n = u16(data, off + 2)
        return [u16(data, off + 4 + 2 * i) for i in range(n)]
    if fmt == 2:
        n = u16(data, off + 2)
        out = {}
        for i in range(n):
            p = off + 4 + 6 * i
            s, e, ci = u16(data, p), u16(data, p + 2), u16(data, p + 4)
            if e < s:
                raise ReadError("coverage range end < start")
            for g in range(s, e + 1):
                if ci + g - s in out:
                    raise ReadError("coverage index %d assigned twice" % (ci + g - s))
                out[ci + g - s] = g
        if sorted(out) != list(range(len(out))):
            raise ReadError("coverage indices not contiguous")
        return [out[i] for i in range(len(out))]
    raise ReadError("coverage format %d" % fmt)


def coverage_sorted_errors(data, off=0):
    """The spec requires glyph arrays / range records ordered by glyph id."""
    fmt = u16(data, off)
    n = u16(data, off + 2)
    if fmt == 1:
        g = [u16(data, off + 4 + 2 * i) for i in range(n)]
        return [] if all(a < b for a, b in zip(g, g[1:])) else ["glyph array not strictly increasing"]
    last = -1
    for i in range(n):
        p = off + 4 + 6 * i
        s, e = u16(data, p), u16(data, p + 2)
        if s <= last:
            return ["range records not sorted by start glyph / overlapping"]
        last = e
    return []


def classdef(data, off=0):
    """ClassDef -> {gid: class} for non-zero classes."""
    fmt = u16(data, off)
    out = {}
    if fmt == 1:
        start, n = u16(data, off + 2), u16(data, off + 4)
        for i in range(n):
            c = u16(data, off + 6 + 2 * i)
            if c:
                out[start + i] = c
        return out
    if fmt == 2:
        n = u16(data, off + 2)
        last = -1
        for i in range(n):
            p = off + 4 + 6 * i
            s, e, c = u16(data, p), u16(data, p + 2), u16(data, p + 4)
            if s <= last or e < s:
                raise ReadError("class ranges not sorted / overlapping")
            last = e
            if c:
                for g in range(s, e + 1):
                    out[g] = c
        return out
    raise ReadError("classdef format %d" % fmt)


def single_subst(data, off=0):
    """SingleSubst subtable -> {in gid: out gid}."""
    fmt = u16(data, off)
    cov = coverage(data, off + u16(data, off + 2))
    if fmt == 1:
        d = i16(data, off + 4)
        return {g: (g + d) & 0xFFFF for g in cov}
    if fmt == 2:
        n = u16(data, off + 4)
        if n != len(cov):
            raise ReadError("SingleSubst2 glyphCount %d != coverage %d" % (n, len(cov)))
        return {g: u16(data, off + 6 + 2 * i) for i, g in enumerate(cov)}
    raise ReadError("SingleSubst format %d" % fmt)


VALUE_FIELDS = ["XPlacement", "YPlacement", "XAdvance", "YAdvance", "XPlaDevice", "YPlaDevice", "XAdvDevice", "YAdvDevice"]


def value_record(data, p, fmt):
    """-> ({field: int}, next position); device fields are returned as raw offsets."""
    out = {}
    for bit, nm in enumerate(VALUE_FIELDS):
        if fmt >> bit & 1:
            out[nm] = i16(data, p) if bit < 4 else u16(data, p)
            p += 2
    return out, p


def device(data, off):
    """Device or VariationIndex table -> tuple."""
    a, b, f = u16(data, off), u16(data, off + 2), u16(data, off + 4)
    if f == 0x8000:
        return ("varidx", a, b)
    if f not in (1, 2, 3):
        raise ReadError("device deltaFormat %d" % f)
    bits = 1 << f
    per = 16 // bits
    n = b - a + 1
    vals = []
    for i in range(n):
        w = u16(data, off + 6 + 2 * (i // per))
        sh = 16 - bits * (i % per + 1)
        v = (w >> sh) & ((1 << bits) - 1)
        if v >= 1 << (bits - 1):
            v -= 1 << bits
        vals.append(v)
    return ("device", a, b, f, tuple(vals))


def single_pos1(data, off=0):
    if u16(data, off) != 1:
        raise ReadError("SinglePos format %d" % u16(data, off))
    cov = coverage(data, off + u16(data, off + 2))
    vf = u16(data, off + 4)
    rec, _p = value_record(data, off + 6, vf)
    devs = {}
    for nm in VALUE_FIELDS[4:]:
        if nm in rec and rec[nm]:
            devs[nm] = device(data, off + rec[nm])
    return cov, vf, rec, devs


# ------------------------------------------------------------------------------------ fvar / avar
def fvar(data):
    maj, mino, axoff, _res, nax, axsize, ninst, instsize = struct.unpack_from(">HHHHHHHH", data, 0)
    if (maj, mino) != (1, 0) or axsize != 20:
        raise ReadError("fvar header")
    axes = []
    for i in range(nax):
        p = axoff + 20 * i
        tag = data[p : p + 4].decode("latin-1")
        mn, df, mx = i32(data, p + 4), i32(data, p + 8), i32(data, p + 12)
        axes.append((tag, mn, df, mx, u16(data, p + 16), u16(data, p + 18)))
    if instsize not in (4 + 4 * nax, 6 + 4 * nax):
        raise ReadError("fvar instanceSize %d for %d axes" % (instsize, nax))
    inst = []
    p = axoff + 20 * nax
    for i in range(ninst):
        sub, fl = u16(data, p), u16(data, p + 2)
        co = [i32(data, p + 4 + 4 * k) for k in range(nax)]
        ps = u16(data, p + 4 + 4 * nax) if instsize == 6 + 4 * nax else None
        inst.append((sub, fl, co, ps))
        p += instsize
    if p != len(data):
        raise ReadError("fvar: %d bytes, records end at %d" % (len(data), p))
    return axes, inst


def avar1(data):
    maj, mino, _res, nax = struct.unpack_from(">HHHH", data, 0)
    if maj != 1:
        raise ReadError("avar major %d" % maj)
    p = 8
    out = []
    for i in range(nax):
        n = u16(data, p)
        p += 2
        seg = []
        for k in range(n):
            seg.append((i16(data, p), i16(data, p + 2)))
            p += 4
        out.append(seg)
    if p != len(data):
        raise ReadError("avar: %d bytes, maps end at %d" % (len(data), p))
    return out


def otl_first_subtable(data):
    """GSUB/GPOS table -> (lookupType, lookupFlag, [absolute subtable offsets]) of lookup 0,
    extension subtables (GSUB 7 / GPOS 9, told apart by the caller) are NOT resolved here."""
    maj, mino, so, fo, lo = struct.unpack_from(">HHHHH", data, 0)
    if maj != 1:
        raise ReadError("OTL major version %d" % maj)
    n = u16(data, lo)
    if n < 1:
        raise ReadError("no lookups")
    lk = lo + u16(data, lo + 2)
    ltype, lflag, cnt = u16(data, lk), u16(data, lk + 2), u16(data, lk + 4)
    subs = [lk + u16(data, lk + 6 + 2 * i) for i in range(cnt)]
    return ltype, lflag, subs


def otl_resolve_extension(data, off):
    """Extension subtable at off -> (real lookup type, absolute offset)."""
    if u16(data, off) != 1:
        raise ReadError("extension format %d" % u16(data, off))
    return u16(data, off + 2), off + u32(data, off + 4)


def otl_feature_lookups(data):
    """-> {featureTag: [lookup indices]} for the DFLT script's default language system."""
    so, fo = u16(data, 4), u16(data, 6)
    out = {}
    nf = u16(data, fo)
    feats = []
    for i in range(nf):
        tag = data[fo + 2 + 6 * i : fo + 6 + 6 * i].decode("latin-1")
        f = fo + u16(data, fo + 6 + 6 * i)
        cnt = u16(data, f + 2)
        feats.append((tag, [u16(data, f + 4 + 2 * k) for k in range(cnt)]))
    for tag, lk in feats:
        out[tag] = lk
    return out


# ------------------------------------------------------------------------------------ tuple variation store
def packed_points(data, p):
    """Packed point numbers (OpenType 'Packed point numbers') -> (list or None for 'all points', next pos)."""
    n = u8(data, p)
    p += 1
    if n & 0x80:
        n = ((n & 0x7F) << 8) | u8(data, p)
        p += 1
    if n == 0:
        return None, p
    pts = []
    cur = 0
    while len(pts) < n:
        ctl = u8(data, p)
        p += 1
        cnt = (ctl & 0x7F) + 1
        for _ in range(cnt):
            if ctl & 0x80:
                cur += u16(data, p)
                p += 2
            else:
                cur += u8(data, p)
                p += 1
            pts.append(cur)
    if len(pts) != n:
        raise ReadError("packed points: run overshoots the count")
    return pts, p


def packed_deltas(data, p, n):
    """Packed deltas -> (n ints, next pos)."""
    out = []
    while len(out) < n:
        ctl = u8(data, p)
        p += 1
        cnt = (ctl & 0x3F) + 1
        if ctl & 0x80 and not ctl & 0x40:
            out.extend([0] * cnt)
        elif ctl & 0x80 and ctl & 0x40:
            for _ in range(cnt):
                out.append(i32(data, p))
                p += 4
        elif ctl & 0x40:
            for _ in range(cnt):
                out.append(i16(data, p))
                p += 2
        else:
            for _ in range(cnt):
                v = u8(data, p)
                out.append(v - 256 if v > 127 else v)
                p += 1
    if len(out) != n:
        raise ReadError("packed deltas: run overshoots the count")
    return out, p


def tuple_variation_store(data, hdr_pos, data_pos, count_field, axis_count, point_count, shared_tuples, width):
    """Tuple variation store.  hdr_pos: first TupleVariationHeader; data_pos: serialized data;
    count_field: tupleVariationCount with flags; width 2 (gvar: x and y deltas) or 1 (cvar).
    -> [ (peak ints, start ints|None, end ints|None, {point: delta tuple}) ] (F2Dot14 raw ints)."""
    n = count_field & 0x0FFF
    shared_pts = "none"
    dp = data_pos
    if count_field & 0x8000:
        shared_pts, dp = packed_points(data, dp)
    out = []
    hp = hdr_pos
    for _ in range(n):
        size, idx = u16(data, hp), u16(data, hp + 2)
        hp += 4
        if idx & 0x8000:
            peak = [i16(data, hp + 2 * a) for a in range(axis_count)]
            hp += 2 * axis_count
        else:
            k = idx & 0x0FFF
            if k >= len(shared_tuples):
                raise ReadError("shared tuple index %d of %d" % (k, len(shared_tuples)))
            peak = list(shared_tuples[k])
        start = end = None
        if idx & 0x4000:
            start = [i16(data, hp + 2 * a) for a in range(axis_count)]
            hp += 2 * axis_count
            end = [i16(data, hp + 2 * a) for a in range(axis_count)]
            hp += 2 * axis_count
        q = dp
        if idx & 0x2000:
            pts, q = packed_points(data, q)
        else:
            if shared_pts == "none":
                raise ReadError("tuple uses shared point numbers but the store has none")
            pts = shared_pts
        if pts is None:
            pts = list(range(point_count))
        cols = []
        for _w in range(width):
            col, q = packed_deltas(data, q, len(pts))
            cols.append(col)
        if q != dp + size:
            raise ReadError("tuple data size %d, decoded %d bytes" % (size, q - dp))
        out.append((peak, start, end, {pt: tuple(c[i] for c in cols) for i, pt in enumerate(pts)}))
        dp += size
    return out


def gvar(data, axis_count):
    """gvar -> (sharedTuples raw ints, [glyph variation data bytes])."""
    maj, mino, ac, stc, sto, gc, flags, dao = struct.unpack_from(">HHHHLHHL", data, 0)
    if (maj, ac) != (1, axis_count):
        raise ReadError("gvar header: version %d axisCount %d" % (maj, ac))
    shared = [[i16(data, sto + 2 * (k * ac + a)) for a in range(ac)] for k in range(stc)]
    offs = []
    for g in range(gc + 1):
        offs.append(u32(data, 20 + 4 * g) if flags & 1 else 2 * u16(data, 20 + 2 * g))
    blobs = []
    for g in range(gc):
        if offs[g + 1] < offs[g]:
            raise ReadError("gvar offsets decrease")
        _need(data, dao + offs[g], offs[g + 1] - offs[g], "glyph variation data")
        blobs.append(data[dao + offs[g] : dao + offs[g + 1]])
    return shared, blobs, flags & 1


# ------------------------------------------------------------------------------------ COLR v1
EXTEND = {0: "pad", 1: "repeat", 2: "reflect"}
_F214 = lambda v: v / 16384
_ANG = lambda v: v / 16384 * 180
_BIASED = lambda v: (v / 16384 + 1) * 180  # sweep gradient angles: "add 1.0 and multiply by 180"
_FIX = lambda v: v / 65536
# per paint format: list of (field, kind) after the format byte; kinds: p=Offset24 paint,
# c=Offset24 colorline, t=Offset24 affine, g=glyph id, H=uint16, B=uint8, w=FWORD, W=UFWORD,
# f=F2Dot14, a=angle, A=biased angle, V=varIndexBase uint32, n=numLayers uint8, L=firstLayerIndex uint32
PAINT_LAYOUT = {
    1: [("NumLayers", "n"), ("FirstLayerIndex", "L")],
    2: [("PaletteIndex", "H"), ("Alpha", "f")],
    4: [("ColorLine", "c"), ("x0", "w"), ("y0", "w"), ("x1", "w"), ("y1", "w"), ("x2", "w"), ("y2", "w")],
    6: [("ColorLine", "c"), ("x0", "w"), ("y0", "w"), ("r0", "W"), ("x1", "w"), ("y1", "w"), ("r1", "W")],
    8: [("ColorLine", "c"), ("centerX", "w"), ("centerY", "w"), ("startAngle", "A"), ("endAngle", "A")],
    10: [("Paint", "p"), ("Glyph", "g")],
    11: [("Glyph", "g")],
    12: [("Paint", "p"), ("Transform", "t")],
    14: [("Paint", "p"), ("dx", "w"), ("dy", "w")],
    16: [("Paint", "p"), ("scaleX", "f"), ("scaleY", "f")],
    18: [("Paint", "p"), ("scaleX", "f"), ("scaleY", "f"), ("centerX", "w"), ("centerY", "w")],
    20: [("Paint", "p"), ("scale", "f")],
    22: [("Paint", "p"), ("scale", "f"), ("centerX", "w"), ("centerY", "w")],
    24: [("Paint", "p"), ("angle", "a")],
    26: [("Paint", "p"), ("angle", "a"), ("centerX", "w"), ("centerY", "w")],
    28: [("Paint", "p"), ("xSkewAngle", "a"), ("ySkewAngle", "a")],
    30: [("Paint", "p"), ("xSkewAngle", "a"), ("ySkewAngle", "a"), ("centerX", "w"), ("centerY", "w")],
    32: [("SourcePaint", "p"), ("CompositeMode", "B"), ("BackdropPaint", "p")],
}
VAR_OF = {3: 2, 5: 4, 7: 6, 9: 8, 13: 12, 15: 14, 17: 16, 19: 18, 21: 20, 23: 22, 25: 24, 27: 26, 29: 28, 31: 30}


def colr_v1(data):
    """COLR version 1 -> ({base gid: paint dict}, {gid: clip box tuple}, v0 records)."""
    ver = u16(data, 0)
    if ver != 1:
        raise ReadError("COLR version %d" % ver)
    nb, bo, lo, nl, bglo, llo, clo, vimo, ivso = struct.unpack_from(">HLLHLLLLL", data, 2)
    layers = []
    if llo:
        n = u32(data, llo)
        layers = [llo + u32(data, llo + 4 + 4 * i) for i in range(n)]
    out = {}
    if bglo:
        n = u32(data, bglo)
        last = -1
        for i in range(n):
            gid = u16(data, bglo + 4 + 6 * i)
            if gid <= last:
                raise ReadError("BaseGlyphPaintRecords not sorted by glyph id")
            last = gid
            out[gid] = _paint(data, bglo + u32(data, bglo + 6 + 6 * i), layers, 0)
    clips = {}
    if clo:
        if u8(data, clo) != 1:
            raise ReadError("ClipList format")
        n = u32(data, clo + 1)
        for i in range(n):
            p = clo + 5 + 7 * i
            s, e, bo_ = u16(data, p), u16(data, p + 2), u24(data, p + 4)
            b = clo + bo_
            f = u8(data, b)
            box = (i16(data, b + 1), i16(data, b + 3), i16(data, b + 5), i16(data, b + 7))
            if f == 2:
                box += (u32(data, b + 9),)
            elif f != 1:
                raise ReadError("ClipBox format %d" % f)
            for g in range(s, e + 1):
                if g in clips:
                    raise ReadError("clip ranges overlap")
                clips[g] = box
    v0 = []
    for i in range(nb):
        p = bo + 6 * i
        v0.append((u16(data, p), u16(data, p + 2), u16(data, p + 4)))
    return out, clips, v0


def _colorline(data, p, var):
    ext, n = u8(data, p), u16(data, p + 1)
    stops = []
    q = p + 3
    for _ in range(n):
        st = {"StopOffset": _F214(i16(data, q)), "PaletteIndex": u16(data, q + 2), "Alpha": _F214(i16(data, q + 4))}
        q += 6
        if var:
            st["VarIndexBase"] = u32(data, q)
            q += 4
        stops.append(st)
    if ext not in EXTEND:
        raise ReadError("extend mode %d" % ext)
    return {"Extend": EXTEND[ext], "ColorStop": stops}


def _paint(data, p, layers, depth):
    if depth > 40:
        raise ReadError("paint graph too deep / cyclic")
    fmt = u8(data, p)
    var = fmt in VAR_OF
    base = VAR_OF.get(fmt, fmt)
    if base not in PAINT_LAYOUT:
        raise ReadError("paint format %d" % fmt)
    out = {"Format": fmt}
    q = p + 1
    for name, kind in PAINT_LAYOUT[base]:
        if kind == "p":
            out[name] = _paint(data, p + u24(data, q), layers, depth + 1)
            q += 3
        elif kind == "c":
            out[name] = _colorline(data, p + u24(data, q), var)
            q += 3
        elif kind == "t":
            t = p + u24(data, q)
            q += 3
            out[name] = dict(zip(("xx", "yx", "xy", "yy", "dx", "dy"), (_FIX(i32(data, t + 4 * k)) for k in range(6))))
            if var:
                out[name]["VarIndexBase"] = u32(data, t + 24)
        elif kind in ("g", "H"):
            out[name] = u16(data, q)
            q += 2
        elif kind in ("B", "n"):
            out[name] = u8(data, q)
            q += 1
        elif kind == "w":
            out[name] = i16(data, q)
            q += 2
        elif kind == "W":
            out[name] = u16(data, q)
            q += 2
        elif kind == "f":
            out[name] = _F214(i16(data, q))
            q += 2
        elif kind == "a":
            out[name] = _ANG(i16(data, q))
            q += 2
        elif kind == "A":
            out[name] = _BIASED(i16(data, q))
            q += 2
        elif kind == "L":
            out[name] = u32(data, q)
            q += 4
    if var and base != 12:
        out["VarIndexBase"] = u32(data, q)
    if base == 1:
        first, n = out.pop("FirstLayerIndex"), out.pop("NumLayers")
        if first + n > len(layers):
            raise ReadError("PaintColrLayers %d+%d beyond %d layers" % (first, n, len(layers)))
        out["Layers"] = [_paint(data, layers[first + i], layers, depth + 1) for i in range(n)]
    return out
