"""Corpus designspaces (Tests/varLib/data/*.designspace) bound to their TTX masters."""
from mc import env

import glob
import os

DATA = os.path.join(env.REPO, "Tests", "varLib", "data")

# designspaces the test-suite expects to fail or that are not variable-font builds
EXPECT_FAIL = ("Incompatible", "InconsistentUseMyMetrics")


def corpus_designspaces():
    """[(name, path, {source filename: ttx path})] for every designspace whose sources all
    resolve to TTX files inside one master_* directory."""
    from fontTools.designspaceLib import DesignSpaceDocument

    dirs = sorted(d for d in glob.glob(os.path.join(DATA, "master_*")) if os.path.isdir(d))
    out = []
    for ds_path in sorted(glob.glob(os.path.join(DATA, "*.designspace"))):
        name = os.path.basename(ds_path)[: -len(".designspace")]
        if any(x in name for x in EXPECT_FAIL):
            continue
        try:
            ds = DesignSpaceDocument.fromfile(ds_path)
        except Exception:
            continue
        stems = []
        for s in ds.sources:
            if not s.filename:
                stems = None
                break
            stems.append(os.path.splitext(os.path.basename(s.filename))[0])
        if not stems:
            continue
        cands = []
        for d in dirs:
            paths = [os.path.join(d, st + ".ttx") for st in stems]
            if all(os.path.exists(p) for p in paths):
                cands.append(dict(zip([s.filename for s in ds.sources], paths)))
        # several master directories can carry the same file names (ttf / otf flavours):
        # every candidate binding is a separate corpus item
        for i, m in enumerate(cands):
            out.append((name if i == 0 else "%s~%d" % (name, i), ds_path, m))
    return out


def load(ds_path, mapping):
    from fontTools.designspaceLib import DesignSpaceDocument

    ds = DesignSpaceDocument.fromfile(ds_path)
    for s in ds.sources:
        s.path = mapping[s.filename]
    return ds
