\* thorough-tier bound; engines/c06.py rewrites Budget per tier (6 quick / 9 thorough)
CONSTANT Budget = 9
SPECIFICATION Spec
INVARIANT TypeOK
INVARIANT HbOnlyWhenAllowed
INVARIANT ReturnOnlyAfterSuccessfulPacking
INVARIANT FallbackNeverReturns
INVARIANT ExceptionOnlyWhenStuck
INVARIANT PendingCallMatchesState
PROPERTY UnresolvableOverflow
PROPERTY DoneIsFinal
CHECK_DEADLOCK FALSE
