------------------------------ MODULE Repacker ------------------------------
(***************************************************************************)
(* Control loop of BaseTTXConverter.compile (fontTools/ttLib/tables/       *)
(* otBase.py), written from the RepackerState comment table in the source: *)
(*                                                                         *)
(*   State       | Packing Success | Packing Failed | Exception Raised |   *)
(*   ------------+-----------------+----------------+------------------+   *)
(*   PURE_FT     | Return result   | PURE_FT        | Return failure   |   *)
(*   HB_FT       | Return result   | HB_FT          | FT_FALLBACK      |   *)
(*   FT_FALLBACK | HB_FT           | FT_FALLBACK    | Return failure   |   *)
(*                                                                         *)
(* "Packing Failed" = the packer reported an offset overflow and the       *)
(* overflow resolver changed the tables (the loop recompiles in the same   *)
(* state); "Exception Raised" = the resolver could do nothing.             *)
(*                                                                         *)
(* The implementation is a deterministic program that asks its environment *)
(* questions (calls) and reacts to the answers.  `pc` is the call that is  *)
(* pending; every step of the model is one answer of the environment:      *)
(*   pc = "hb"    writer.getAllDataUsingHarfbuzz()      (after a recompile)*)
(*   pc = "ft"    writer.getAllData()                   (after a recompile)*)
(*   pc = "ftnd"  writer.getAllData(remove_duplicate=False), the packing   *)
(*                tryPackingHarfbuzz falls back to when hb.repack errors   *)
(*   pc = "fixS"  fixSubTableOverFlows(font, cur)          (record S first)*)
(*   pc = "fixL"  fixLookupOverFlows(font, cur)            (record L first)*)
(*   pc = "fixX"  fixLookupOverFlows(font, cur), the last resort "upgrade  *)
(*                to Extension and hope" tried after fixS or fixL failed   *)
(*   pc = "done"  compile() has returned `res` / raised `res`              *)
(* Overflow records: "L" = LookupList->Lookup or Lookup->SubTable offset   *)
(* (itemName is None: only extension promotion can help), "S" = an offset  *)
(* inside a subtable (subtable splitting is tried first, then promotion).  *)
(* An overflow reporting the same record as the previous one is not        *)
(* resolved again (tryResolveOverflow gives up immediately).               *)
(* engines/c06.py replays every path of this model against the real code.  *)
(***************************************************************************)
EXTENDS Naturals

CONSTANT Budget            \* number of environment answers explored

Records   == {"L", "S"}
HbErrors  == {"ValueError", "MemoryError", "RepackerError"}
States    == {"PURE_FT", "HB_FT", "FT_FALLBACK"}
Packings  == {"hb", "ft", "ftnd"}
Fixes     == {"fixS", "fixL", "fixX"}
Calls     == Packings \cup Fixes \cup {"done"}
Results   == Packings \cup {"none", "OTLOffsetOverflowError", "ImportError"}
Events    == {"init", "ok", "fix_ok", "fix_fail"} \cup Records \cup HbErrors

VARIABLES
    cfg,      \* USE_HARFBUZZ_REPACKER: "False" | "None" | "True"
    hb,       \* uharfbuzz importable
    layout,   \* the table is GSUB or GPOS
    st,       \* RepackerState
    pc,       \* pending call
    last,     \* lastOverflowRecord
    cur,      \* record of the overflow being resolved
    budget,   \* answers left
    res,      \* what compile() returned / raised
    ev,       \* the answer that led to this state (history variable)
    unres     \* history: this step ended an overflow resolution without success

vars == <<cfg, hb, layout, st, pc, last, cur, budget, res, ev, unres>>

PackCall(s) == IF s = "HB_FT" THEN "hb" ELSE "ft"

Init ==
    /\ cfg \in {"False", "None", "True"}
    /\ hb \in BOOLEAN
    /\ layout \in BOOLEAN
    /\ last = "none" /\ cur = "none" /\ budget = Budget
    /\ ev = "init" /\ unres = FALSE
    /\ IF layout /\ cfg = "True" /\ ~hb
         THEN st = "PURE_FT" /\ pc = "done" /\ res = "ImportError"
         ELSE /\ st = (IF cfg # "False" /\ hb /\ layout THEN "HB_FT" ELSE "PURE_FT")
              /\ pc = PackCall(st)
              /\ res = "none"

Answer(e) ==
    /\ budget > 0
    /\ budget' = budget - 1
    /\ ev' = e
    /\ UNCHANGED <<cfg, hb, layout>>

(* a packer returned bytes *)
PackOk ==
    /\ pc \in Packings
    /\ Answer("ok")
    /\ unres' = FALSE
    /\ IF st = "FT_FALLBACK"
         THEN st' = "HB_FT" /\ pc' = "hb" /\ res' = res    \* result discarded, repack with hb
         ELSE st' = st /\ pc' = "done" /\ res' = pc
    /\ UNCHANGED <<last, cur>>

(* hb.repack failed: fall back to the pure packer without deduplication *)
HbError(k) ==
    /\ pc = "hb"
    /\ Answer(k)
    /\ pc' = "ftnd"
    /\ unres' = FALSE
    /\ UNCHANGED <<st, last, cur, res>>

(* resolution of overflow r was not possible *)
GiveUp(r) ==
    /\ last' = r
    /\ unres' = TRUE
    /\ IF st = "HB_FT"
         THEN st' = "FT_FALLBACK" /\ pc' = "ft" /\ res' = res
         ELSE st' = st /\ pc' = "done" /\ res' = "OTLOffsetOverflowError"

(* a pure-Python packing reported a 16-bit offset overflow; hb.repack never does *)
Overflow(r) ==
    /\ pc \in {"ft", "ftnd"}
    /\ Answer(r)
    /\ cur' = r
    /\ IF r = last
         THEN GiveUp(r)
         ELSE /\ pc' = (IF r = "L" THEN "fixL" ELSE "fixS")
              /\ unres' = FALSE
              /\ UNCHANGED <<st, last, res>>

FixOk ==
    /\ pc \in Fixes
    /\ Answer("fix_ok")
    /\ last' = cur
    /\ pc' = PackCall(st)
    /\ unres' = FALSE
    /\ UNCHANGED <<st, cur, res>>

FixFail ==
    /\ pc \in Fixes
    /\ Answer("fix_fail")
    /\ UNCHANGED cur
    /\ IF pc # "fixX"
         THEN pc' = "fixX" /\ unres' = FALSE /\ UNCHANGED <<st, last, res>>
         ELSE GiveUp(cur)

Next ==
    \/ PackOk
    \/ \E k \in HbErrors : HbError(k)
    \/ \E r \in Records : Overflow(r)
    \/ FixOk
    \/ FixFail

Spec == Init /\ [][Next]_vars

-----------------------------------------------------------------------------
TypeOK ==
    /\ cfg \in {"False", "None", "True"} /\ hb \in BOOLEAN /\ layout \in BOOLEAN
    /\ st \in States /\ pc \in Calls /\ res \in Results /\ ev \in Events
    /\ last \in Records \cup {"none"} /\ cur \in Records \cup {"none"}
    /\ budget \in 0..Budget /\ unres \in BOOLEAN

(* the harfbuzz states are only entered for GSUB/GPOS with uharfbuzz allowed *)
HbOnlyWhenAllowed ==
    st # "PURE_FT" => (layout /\ hb /\ cfg # "False")

(* a result is returned only directly after a successful packing in PURE_FT or HB_FT *)
ReturnOnlyAfterSuccessfulPacking ==
    res \in Packings =>
        /\ pc = "done" /\ ev = "ok"
        /\ \/ res = "ft" /\ st = "PURE_FT"
           \/ res \in {"hb", "ftnd"} /\ st = "HB_FT"

(* FT_FALLBACK never returns its own packing *)
FallbackNeverReturns ==
    (st = "FT_FALLBACK") => (res \notin Packings /\ (pc = "done" => res = "OTLOffsetOverflowError"))

(* an exception comes only from an unresolvable overflow outside HB_FT *)
ExceptionOnlyWhenStuck ==
    res = "OTLOffsetOverflowError" => (pc = "done" /\ unres /\ st \in {"PURE_FT", "FT_FALLBACK"})

PendingCallMatchesState ==
    /\ pc = "hb" => st = "HB_FT"
    /\ pc = "ftnd" => st = "HB_FT"
    /\ pc = "ft" => st \in {"PURE_FT", "FT_FALLBACK"}

(* unresolvable overflow: PURE_FT / FT_FALLBACK raise, HB_FT falls back, and nothing else *)
UnresolvableOverflow ==
    [][ unres' =>
          \/ st \in {"PURE_FT", "FT_FALLBACK"} /\ pc' = "done" /\ res' = "OTLOffsetOverflowError" /\ st' = st
          \/ st = "HB_FT" /\ st' = "FT_FALLBACK" /\ pc' = "ft" /\ res' = "none"
      ]_vars

(* compile() never continues after it has returned or raised *)
DoneIsFinal == [][pc # "done"]_vars
=============================================================================
